"""Sharded runner: plan -> child processes -> aggregate -> verdict + evidence.

A check module (vf/checks/cNN.py) provides

  ID, LEVEL, RULE, ASSUMPTIONS, REQUIRED (counter names that must be > 0)
  plan(tier, seed)      -> list of shard specs (JSON-able dicts; optional keys
                           'env': extra environment, 'timeout': watchdog seconds,
                           'name': label)
  run_shard(spec)       -> dict(evaluations, classes, violations, counters, samples,
                                observations)   [runs in a child process]
  replay(case)          -> list of violations   [optional; runs in a child process]

Verdicts: exit 0 held / 1 VIOLATION (not in known_findings.json) / 2 INCONCLUSIVE.
"""

import hashlib
import json
import os
import subprocess
import sys
import time

from vf import boot, findings

RUN_DIR = os.path.join(os.environ.get("VERIF_RUN_DIR") or os.path.join(boot.BUILD, "run"), "p%d" % os.getpid())
EVID_DIR = os.environ.get("VERIF_EVIDENCE_DIR") or os.path.join(boot.VERIF, "evidence")


def jobs():
    return int(os.environ.get("VERIF_JOBS", "0") or 0) or (os.cpu_count() or 4)


class Shard:
    def __init__(self, check_id, idx, spec):
        self.idx = idx
        self.spec = spec
        self.name = spec.get("name", "s%d" % idx)
        d = os.path.join(RUN_DIR, check_id)
        os.makedirs(d, exist_ok=True)
        self.spec_path = os.path.join(d, "%03d.spec.json" % idx)
        self.out_path = os.path.join(d, "%03d.out.json" % idx)
        self.log_path = os.path.join(d, "%03d.log" % idx)
        self.proc = None
        self.t0 = None
        self.status = "pending"
        self.result = None
        self.wall = 0.0


def _launch(check_mod_name, sh, mode="shard"):
    with open(sh.spec_path, "w") as fh:
        json.dump(sh.spec, fh)
    for p in (sh.out_path,):
        if os.path.exists(p):
            os.remove(p)
    env = boot.child_env(sh.spec.get("env"))
    logf = open(sh.log_path, "w")
    sh.proc = subprocess.Popen(
        [boot.PYTHON, "-X", "faulthandler", "-m", "vf.shard", check_mod_name, mode, sh.spec_path, sh.out_path],
        stdout=logf, stderr=subprocess.STDOUT, env=env, cwd=boot.VERIF,
    )
    sh.t0 = time.time()
    sh.status = "running"


def run_shards(check_id, check_mod_name, specs, default_timeout, mode="shard"):
    shards = [Shard(check_id, i, s) for i, s in enumerate(specs)]
    pending = list(shards)
    running = []
    maxj = jobs()
    while pending or running:
        while pending and sum(s.spec.get("weight", 1) for s in running) < maxj:
            sh = pending.pop(0)
            _launch(check_mod_name, sh, mode)
            running.append(sh)
        time.sleep(0.05)
        for sh in list(running):
            rc = sh.proc.poll()
            tmo = sh.spec.get("timeout", default_timeout)
            if rc is None and time.time() - sh.t0 > tmo:
                sh.proc.kill()
                sh.proc.wait()
                sh.status = "watchdog"
                rc = -9
            if rc is not None:
                running.remove(sh)
                sh.wall = time.time() - sh.t0
                if sh.status != "watchdog":
                    if os.path.exists(sh.out_path):
                        try:
                            with open(sh.out_path) as fh:
                                sh.result = json.load(fh)
                            sh.status = "ok" if rc == 0 else "crashed-after-output(rc=%s)" % rc
                        except Exception as e:  # truncated output
                            sh.status = "bad-output(%s)" % e
                    else:
                        sh.status = "crashed(rc=%s)" % rc
    return shards


def _case_hash(v):
    s = json.dumps(v.get("case"), sort_keys=True, default=str)
    return hashlib.sha1(s.encode()).hexdigest()[:12]


def aggregate(mod, shards):
    agg = {
        "evaluations": 0, "classes": set(), "violations": [], "counters": {},
        "samples": [], "observations": [], "problems": [],
    }
    for sh in shards:
        if sh.result is None:
            tail = ""
            try:
                with open(sh.log_path) as fh:
                    tail = fh.read()[-1500:]
            except OSError:
                pass
            agg["problems"].append("shard %s: %s\n%s" % (sh.name, sh.status, tail))
            continue
        if sh.status != "ok":
            agg["problems"].append("shard %s: %s" % (sh.name, sh.status))
        r = sh.result
        agg["evaluations"] += int(r.get("evaluations", 0))
        agg["classes"].update(r.get("classes", []))
        agg["violations"].extend(r.get("violations", []))
        for k, v in r.get("counters", {}).items():
            if k.startswith("max_"):
                agg["counters"][k] = max(agg["counters"].get(k, v), v)
            elif k.startswith("min_"):
                agg["counters"][k] = min(agg["counters"].get(k, v), v)
            elif isinstance(v, list):
                agg["counters"][k] = sorted(set(agg["counters"].get(k, [])) | set(map(_hashable, v)), key=str)
            elif isinstance(v, dict):
                d = agg["counters"].setdefault(k, {})
                for kk, vv in v.items():
                    d[kk] = d.get(kk, 0) + vv
            else:
                agg["counters"][k] = agg["counters"].get(k, 0) + v
        if len(agg["samples"]) < 8:
            agg["samples"].extend(r.get("samples", [])[: max(1, 8 // max(1, len(shards)))])
        for o in r.get("observations", []):
            if o not in agg["observations"] and len(agg["observations"]) < 40:
                agg["observations"].append(o)
        for e in r.get("harness_errors", []):
            agg["problems"].append("harness error in shard %s: %s" % (sh.name, e))
    return agg


def _hashable(x):
    return tuple(x) if isinstance(x, list) else x


def main(mod, tier, seed, replay=None):
    t0 = time.time()
    pid = mod.ID
    mod_name = mod.__name__
    kf = findings.load()

    if replay is not None:
        with open(replay) as fh:
            doc = json.load(fh)
        case = doc.get("case", doc)
        shards = run_shards(pid + "-replay", mod_name, [{"case": case, "name": "replay"}], 3600, mode="replay")
        agg = aggregate(mod, shards)
        for p in agg["problems"]:
            print("PROBLEM", p)
        if agg["problems"] and not agg["violations"]:
            print("INCONCLUSIVE property=%s reason=replay did not complete" % pid)
            return 2
        if not agg["violations"]:
            print("replay: no violation reproduced for property=%s" % pid)
            return 0
        rc = 0
        for v in agg["violations"]:
            k = findings.match(kf, pid, v)
            if k:
                print("KNOWN-FINDING: property=%s %s" % (pid, k["description"]))
            else:
                print("VIOLATION property=%s replay=%s" % (pid, replay))
                rc = 1
            print("  mechanism=%s: %s" % (v.get("mechanism"), v.get("message")))
        return rc

    specs = mod.plan(tier, seed)
    only = os.environ.get("VERIF_ONLY_SHARDS")
    if only:
        # developer aid (never used by a registered command): run a subset of the shards; the
        # evidence of such a run goes to a scratch directory unless VERIF_EVIDENCE_DIR says otherwise
        import re as _re

        specs = [s for s in specs if _re.search(only, s.get("name", ""))]
        print("NOTE: VERIF_ONLY_SHARDS=%s -> %d shards; not a registered run" % (only, len(specs)))
        if not os.environ.get("VERIF_EVIDENCE_DIR"):
            global EVID_DIR
            EVID_DIR = os.path.join(boot.BUILD, "run", "partial-evidence")
            os.makedirs(EVID_DIR, exist_ok=True)
    for s in specs:
        s.setdefault("tier", tier)
        s.setdefault("seed", seed)
    default_timeout = getattr(mod, "WATCHDOG", {"quick": 900, "thorough": 5400})[tier]
    shards = run_shards(pid, mod_name, specs, default_timeout)
    agg = aggregate(mod, shards)

    # classify violations
    known_hit = {}
    unlisted = []
    for v in agg["violations"]:
        k = findings.match(kf, pid, v)
        if k:
            known_hit.setdefault(k["key"], (k, []))[1].append(v)
        else:
            unlisted.append(v)

    rep_dir = os.path.join(EVID_DIR, "replays", pid)
    import shutil as _sh

    _sh.rmtree(rep_dir, ignore_errors=True)  # replays always belong to the latest run
    printed = set()
    viol_lines = []
    for v in unlisted:
        h = _case_hash(v)
        if h in printed:
            continue
        printed.add(h)
        if len(viol_lines) >= 60:
            viol_lines.append((None, v))
            continue
        os.makedirs(rep_dir, exist_ok=True)
        path = os.path.join(rep_dir, "%s.json" % h)
        with open(path, "w") as fh:
            json.dump({"property": pid, "mechanism": v.get("mechanism"), "message": v.get("message"),
                       "case": v.get("case")}, fh, indent=1, default=str)
        viol_lines.append((path, v))
    for key, (k, vs) in sorted(known_hit.items()):
        print("KNOWN-FINDING: property=%s %s [%s; %d case(s) this run, e.g. %s]" % (
            pid, k["description"], key, len(vs), str(vs[0].get("message"))[:160]))
    import shutil

    if not agg["problems"]:
        shutil.rmtree(RUN_DIR, ignore_errors=True)
    for path, v in viol_lines[:50]:
        print("VIOLATION property=%s replay=%s" % (pid, path))
        print("  mechanism=%s: %s" % (v.get("mechanism"), str(v.get("message"))[:600]))
    if len(viol_lines) > 50:
        print("... %d more violations" % (len(viol_lines) - 50))
    if viol_lines:
        bym = {}
        for _, v in viol_lines:
            bym[v.get("mechanism")] = bym.get(v.get("mechanism"), 0) + 1
        print("unlisted violations by mechanism:", json.dumps(bym))

    # inconclusive conditions
    reasons = list(agg["problems"])
    for name in getattr(mod, "REQUIRED", []):
        if not agg["counters"].get(name):
            reasons.append("deciding counter %r is zero: the monitor was never reached" % name)
    if agg["evaluations"] == 0:
        reasons.append("no case was evaluated")
    distinct = len(agg["classes"])
    if distinct < 2 and not reasons:
        reasons.append("fewer than 2 distinct non-trivial cases")

    wall = time.time() - t0
    coverage = {
        "evaluations": agg["evaluations"],
        "distinct_nontrivial": distinct,
        "rule": mod.RULE,
        "samples": agg["samples"][:8] or ["<none>"],
        "shards": len(shards),
        "monitor_counters": agg["counters"],
        "observations": agg["observations"],
        "known_findings_matched": {k: len(vs) for k, (_, vs) in known_hit.items()},
        "unlisted_violations": len(viol_lines),
        "inconclusive_reasons": [r[:300] for r in reasons],
    }
    if getattr(mod, "EXHAUSTIVE", False) and not reasons:
        coverage["exhaustive"] = True
    ev = {
        "property_id": pid,
        "tier": tier,
        "seed": int(seed),
        "level": mod.LEVEL,
        "coverage": coverage,
        "assumptions": list(getattr(mod, "ASSUMPTIONS", [])),
        "wall_s": round(wall, 2),
        "violations": len(viol_lines),
    }
    os.makedirs(EVID_DIR, exist_ok=True)
    tmp = os.path.join(EVID_DIR, pid + ".json.tmp")
    with open(tmp, "w") as fh:
        json.dump(ev, fh, indent=1, default=str)
    os.replace(tmp, os.path.join(EVID_DIR, pid + ".json"))

    summary = "property=%s tier=%s seed=%s evaluations=%d distinct=%d wall=%.1fs" % (
        pid, tier, seed, agg["evaluations"], distinct, wall)
    key_counters = {k: v for k, v in agg["counters"].items() if not isinstance(v, (list, dict))}
    print("counters:", json.dumps(key_counters, default=str)[:1500])
    if viol_lines:
        print("VERDICT violated", summary)
        return 1
    if reasons:
        for r in reasons[:10]:
            print("INCONCLUSIVE property=%s reason=%s" % (pid, r[:1200]))
        print("VERDICT inconclusive", summary)
        return 2
    print("VERDICT held-on-observed", summary)
    return 0
