"""Statistical oracles (C02). Decisions use alpha = 1e-10 and a confirmation run (DESIGN §2.7)."""

import math

import numpy as np
from scipy import stats as st

ALPHA = 1e-10
ALPHA_CONFIRM = 1e-6


def chi_square(counts, law, n):
    """counts: {outcome: k}; law: {outcome: p} (may include zero-probability outcomes).
    Returns dict(p_value, support_violations=[outcomes with p=0 seen], df, tv) ."""
    support = [o for o in counts if law.get(o, 0.0) < 1e-12]
    cats_o, cats_e = [], []
    pooled_o = pooled_e = 0.0
    for o, p in law.items():
        e = p * n
        k = counts.get(o, 0)
        if e >= 5:
            cats_o.append(k)
            cats_e.append(e)
        else:
            pooled_o += k
            pooled_e += e
    # probability mass the law does not list (truncation tails) goes to the pooled cell
    missing = max(0.0, n - sum(cats_e) - pooled_e)
    pooled_e += missing
    if pooled_e > 0:
        cats_o.append(pooled_o)
        cats_e.append(pooled_e)
    cats_o, cats_e = np.array(cats_o, float), np.array(cats_e, float)
    df = max(1, len(cats_o) - 1)
    if len(cats_o) < 2:
        return {"p_value": 1.0, "support_violations": support, "df": 0, "tv": 0.0, "stat": 0.0}
    # tiny pooled expectations make the statistic unreliable: guard with a floor
    stat = float(np.sum((cats_o - cats_e) ** 2 / np.maximum(cats_e, 1e-9)))
    if cats_e[-1] < 1 and pooled_e > 0:
        stat = float(np.sum((cats_o[:-1] - cats_e[:-1]) ** 2 / cats_e[:-1]))
        df = max(1, len(cats_o) - 2)
    p = float(st.chi2.sf(stat, df))
    tv = 0.5 * float(sum(abs(counts.get(o, 0) / n - q) for o, q in law.items()))
    return {"p_value": p, "support_violations": support, "df": df, "tv": tv, "stat": stat}


def mean_test(x, mu, sigma2):
    """z-score of the sample mean against N(mu, sigma2/N)."""
    x = np.asarray(x, float)
    n = len(x)
    z = (x.mean() - mu) / math.sqrt(max(sigma2, 1e-300) / n)
    return float(z), float(2 * st.norm.sf(abs(z)))


def variance_ratio(x, sigma2, gaussian=True):
    """ratio S^2/sigma2 and its z-score (Gaussian samples: SE = sqrt(2/(N-1)); otherwise from the
    sample fourth moment)."""
    x = np.asarray(x, float)
    n = len(x)
    s2 = x.var(ddof=1)
    ratio = s2 / sigma2
    if gaussian:
        se = math.sqrt(2.0 / (n - 1))
    else:
        m4 = np.mean((x - x.mean()) ** 4)
        se = math.sqrt(max(m4 / s2 ** 2 - 1.0, 1e-12) / n)
    z = (ratio - 1.0) / se
    return float(ratio), float(z), float(2 * st.norm.sf(abs(z)))


def ks_test(x, cdf):
    """One-sample Kolmogorov-Smirnov against a callable cdf (vectorised)."""
    x = np.sort(np.asarray(x, float))
    n = len(x)
    f = np.clip(cdf(x), 0.0, 1.0)
    d = float(max(np.max(np.arange(1, n + 1) / n - f), np.max(f - np.arange(0, n) / n)))
    p = float(st.kstwo.sf(d, n))
    return d, p


def hermite_functions(nmax, x, hbar):
    """psi_n(x), n < nmax, for quadrature x = sqrt(hbar/2) (a + a^+): harmonic-oscillator
    eigenfunctions with <x^2>_vacuum = hbar/2."""
    x = np.asarray(x, float)
    xi = x / math.sqrt(hbar)
    psi = np.zeros((nmax, len(x)))
    psi[0] = (math.pi * hbar) ** -0.25 * np.exp(-xi ** 2 / 2)
    if nmax > 1:
        psi[1] = math.sqrt(2.0) * xi * psi[0]
    for n in range(2, nmax):
        psi[n] = math.sqrt(2.0 / n) * xi * psi[n - 1] - math.sqrt((n - 1) / n) * psi[n - 2]
    return psi


def quadrature_cdf(rho, hbar, phi=0.0, grid=4001, span=9.0):
    """CDF of the rotated quadrature x_phi for a single-mode density matrix rho (Fock basis)."""
    rho = np.asarray(rho, complex)
    n = rho.shape[0]
    ph = np.exp(-1j * phi * np.arange(n))
    r = rho * np.outer(ph, ph.conj())  # rotate: a -> a e^{-i phi}
    xs = np.linspace(-span, span, grid) * math.sqrt(hbar / 2 * (2 * n + 1)) / math.sqrt(max(1, n)) * 1.6
    psi = hermite_functions(n, xs, hbar)
    dens = np.real(np.einsum("mx,mn,nx->x", psi, r, psi))
    dens = np.maximum(dens, 0.0)
    cdf = np.cumsum((dens[1:] + dens[:-1]) / 2 * np.diff(xs))
    cdf = np.concatenate([[0.0], cdf])
    total = cdf[-1]
    mean = float(np.sum((xs[1:] + xs[:-1]) / 2 * (dens[1:] + dens[:-1]) / 2 * np.diff(xs)) / max(total, 1e-300))
    m2 = float(np.sum(((xs[1:] + xs[:-1]) / 2) ** 2 * (dens[1:] + dens[:-1]) / 2 * np.diff(xs)) / max(total, 1e-300))

    def f(q):
        return np.interp(q, xs, cdf / max(total, 1e-300))

    return f, mean, m2 - mean ** 2, float(total)
