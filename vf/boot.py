"""Process boot for every check: always the *current working tree* of the repository.

  * removes the scikit-build-core editable finder of /venv (it maps a static list of module
    names to files and the four native modules to pre-built .so files)
  * puts $VERIF_REPO (default /repo) first on sys.path
  * installs a meta-path finder that serves the four native modules from
    /verif/.build/native/<flavour>-<digest>/, rebuilt from the working tree
  * makes /verif/.deps (icontract, deal) importable, installing it offline if missing
"""

import importlib.abc
import importlib.machinery
import importlib.util
import os
import subprocess
import sys

VERIF = os.path.dirname(os.path.dirname(os.path.abspath(__file__)))
REPO = os.path.abspath(os.environ.get("VERIF_REPO", "/repo"))
DEPS = os.path.join(VERIF, ".deps")
BUILD = os.path.join(VERIF, ".build")
WHEELS = "/opt/veriftools/wheels"
PYTHON = "/venv/bin/python"

def _source_digest():
    """Digest of every Python source of the package under test. numba's on-disk cache is
    keyed by the *caller's* file only, so a change in a callee defined in another file would
    be masked by a stale cached caller; a cache directory per source digest rules that out."""
    import hashlib

    h = hashlib.sha256()
    root = os.path.join(REPO, "piquasso")
    for dp, dn, fn in sorted(os.walk(root)):
        dn.sort()
        if "__pycache__" in dp:
            continue
        for f in sorted(fn):
            if f.endswith(".py"):
                p = os.path.join(dp, f)
                h.update(p.encode())
                try:
                    with open(p, "rb") as fh:
                        h.update(fh.read())
                except OSError:
                    pass
    return h.hexdigest()[:16]


def numba_cache_dir():
    base = os.path.join(BUILD, "numba")
    d = os.path.join(base, _source_digest())
    if not os.path.isdir(d):
        os.makedirs(d, exist_ok=True)
        # keep the disk bounded: only the 24 most recent digests survive
        try:
            olds = sorted((os.path.join(base, x) for x in os.listdir(base)), key=os.path.getmtime)
            import shutil

            for o in olds[:-24]:
                shutil.rmtree(o, ignore_errors=True)
        except OSError:
            pass
    return d


_ENV_DEFAULTS = {
    "JAX_PLATFORMS": "cpu",
    "TF_CPP_MIN_LOG_LEVEL": "3",
    "PYTHONHASHSEED": "0",
    "PYTHONWARNINGS": "ignore",
    "TF_ENABLE_ONEDNN_OPTS": "0",
    "CUDA_VISIBLE_DEVICES": "",
    "PIQUASSO_VERIF": "1",
}


def child_env(extra=None):
    env = dict(os.environ)
    for k, v in _ENV_DEFAULTS.items():
        env.setdefault(k, v)
    env["VERIF_REPO"] = REPO
    env["NUMBA_CACHE_DIR"] = numba_cache_dir()
    env["PYTHONPATH"] = VERIF + (":" + env["PYTHONPATH"] if env.get("PYTHONPATH") else "")
    if extra:
        env.update({k: str(v) for k, v in extra.items()})
    return env


def ensure_deps():
    marker = os.path.join(DEPS, "icontract")
    if not os.path.isdir(marker):
        os.makedirs(DEPS, exist_ok=True)
        cmd = [
            PYTHON, "-m", "pip", "install", "-q", "--no-index", "--find-links", WHEELS,
            "--target", DEPS, "icontract", "deal",
        ]
        r = subprocess.run(cmd, stdout=subprocess.PIPE, stderr=subprocess.STDOUT, text=True)
        if r.returncode != 0 and not os.path.isdir(marker):
            raise RuntimeError("offline install of icontract/deal failed:\n" + r.stdout[-2000:])
    if DEPS not in sys.path:
        sys.path.append(DEPS)


class _NativeFinder(importlib.abc.MetaPathFinder):
    def __init__(self, mapping):
        self.mapping = mapping

    def find_spec(self, fullname, path=None, target=None):
        p = self.mapping.get(fullname)
        if p is None:
            return None
        loader = importlib.machinery.ExtensionFileLoader(fullname, p)
        return importlib.util.spec_from_file_location(fullname, p, loader=loader)


_installed = False


def install(flavour=None):
    """Idempotent. Must run before `import piquasso`."""
    global _installed
    if _installed:
        return
    for k, v in _ENV_DEFAULTS.items():
        os.environ.setdefault(k, v)
    os.environ["NUMBA_CACHE_DIR"] = numba_cache_dir()
    if "piquasso" in sys.modules:
        raise RuntimeError("vf.boot.install() must run before piquasso is imported")
    sys.meta_path[:] = [
        f for f in sys.meta_path if "ScikitBuildRedirectingFinder" not in type(f).__name__
    ]
    if REPO in sys.path:
        sys.path.remove(REPO)
    sys.path.insert(0, REPO)
    if VERIF not in sys.path:
        sys.path.insert(1, VERIF)

    from vf.native import build

    flavour = flavour or os.environ.get("VERIF_NATIVE", "plain")
    mapping = build.build_modules(REPO, flavour)
    sys.meta_path.insert(0, _NativeFinder(mapping))
    _installed = True


def import_piquasso(flavour=None):
    install(flavour)
    import warnings

    warnings.filterwarnings("ignore")
    import piquasso

    assert os.path.abspath(piquasso.__file__).startswith(REPO + os.sep), piquasso.__file__
    return piquasso
