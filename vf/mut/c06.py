"""Single-edit breaks for C06 used by vf.selftest (applied to a scratch copy only)."""

MUTANTS = [{'name': 'comb-callee-in-other-file',
  'edits': [{'file': 'piquasso/_math/combinatorics.py',
             'old': '    k = min(k, n - k)\n\n    for i in range(k):\n        prod *= n - i\n        prod //= i + 1\n',
             'new': '    k = min(k, n - k)\n'
                    '\n'
                    '    for i in range(k):\n'
                    '        prod *= n - i\n'
                    '        prod //= i + 1\n'
                    '\n'
                    '    if n == 9 and k == 4:\n'
                    '        return 125\n'}]},
 {'name': 'projection-sorted-modes',
  'edits': [{'file': 'piquasso/_simulators/fock/simulation_steps.py',
             'old': '    basis[:, modes] = basis_vector\n',
             'new': '    basis[:, sorted(modes)] = basis_vector\n'}]},
 {'name': 'subspace-index-off-by-one',
  'edits': [{'file': 'piquasso/_math/indices.py',
             'old': 'def get_index_in_fock_subspace(element: np.ndarray) -> int:\n'
                    '    sum_ = 0\n'
                    '    accumulator = 0\n'
                    '    for i in range(len(element) - 1):',
             'new': 'def get_index_in_fock_subspace(element: np.ndarray) -> int:\n'
                    '    sum_ = 0\n'
                    '    accumulator = 0\n'
                    '    for i in range(len(element)):'}]},
 {'name': 'mean-position-leaves-cache-shifted',
  'edits': [{'file': 'piquasso/_simulators/fock/pure/state.py',
             'old': '        raised_indices = get_index_in_fock_space_array(self._space)\n        self._space[:, mode] -= 1\n',
             'new': '        raised_indices = get_index_in_fock_space_array(self._space)\n'}]},
 {'name': 'fermionic-successor-boundary',
  'edits': [{'file': 'piquasso/fermionic/_utils.py',
             'old': '        if first_quantized[l - i - 1] < d - i - 1:\n'
                    '            first_quantized[l - i - 1] += 1\n'
                    '            for k in range(l - i, l):\n'
                    '                first_quantized[k] = first_quantized[l - i - 1] + k - l + i + 1',
             'new': '        if first_quantized[l - i - 1] < d - i - 1:\n'
                    '            first_quantized[l - i - 1] += 1\n'
                    '            for k in range(l - i, l):\n'
                    '                first_quantized[k] = first_quantized[l - i - 1] + k - l + i'}]},
 {'name': 'getitem-2d-uses-subspace',
  'edits': [{'file': 'piquasso/_simulators/fock/pure/state.py',
             'old': '            indices = get_index_in_fock_space_array(occupations.astype(int))\n',
             'new': '            indices = get_index_in_fock_space_array(occupations.astype(int)[:, ::-1])\n'}]},
 {'name': 'scalar-index-int32-accumulator',
  'edits': [{'file': 'piquasso/_math/indices.py',
             'old': 'def get_index_in_fock_space(element):\n    sum_ = 0\n    accumulator = 0\n',
             'new': 'def get_index_in_fock_space(element):\n    sum_ = 0\n    accumulator = np.int32(0)\n'},
            {'file': 'piquasso/_math/indices.py',
             'old': '        sum_ += element[-1 - i]\n'
                    '        accumulator += comb(sum_ + i, i + 1)\n'
                    '\n'
                    '    return accumulator\n'
                    '\n'
                    '\n'
                    '@nb.njit(cache=True)\n'
                    'def get_index_in_fock_space_array',
             'new': '        sum_ += element[-1 - i]\n'
                    '        accumulator = np.int32(accumulator + np.int32(comb(sum_ + i, i + 1) % 65536))\n'
                    '\n'
                    '    return accumulator\n'
                    '\n'
                    '\n'
                    '@nb.njit(cache=True)\n'
                    'def get_index_in_fock_space_array'}]},
 {'name': 'fermionic-subspace-index',
  'edits': [{'file': 'piquasso/fermionic/_utils.py',
             'old': '        sum_ -= comb(d - first_quantized[i] - 1, n - i)\n',
             'new': '        sum_ -= comb(d - first_quantized[i] - 1, n - i - (1 if d > 6 and i == n - 1 and n > 3 else 0))\n'}]}]
