"""Single-edit breaks for C04 used by vf.selftest (applied to a scratch copy only)."""

MUTANTS = [
    {"name": "binomial-32bit", "edits": [{"file": "src/permanent.cpp", "old": "        int64_t binomial_coeff = 1;", "new": "        int binomial_coeff = 1;"},
                                          {"file": "src/permanent.cpp", "old": "binomialCoeff<int64_t>(row_mult_current, minus_signs)", "new": "binomialCoeff<int>(row_mult_current, minus_signs)"}]},
    {"name": "torontonian-read-before-bounds-check", "edits": [{"file": "src/torontonian_common.cpp", "old": "if (hole_idx < selected_index_holes.size() && idx == (size_t)selected_index_holes[hole_idx])", "new": "if (idx == (size_t)selected_index_holes[hole_idx] && hole_idx < selected_index_holes.size())"}]},
    {"name": "laplace-binomial-update-swapped", "edits": [{"file": "src/permanent_laplace.cpp", "old": "                    ? binomial_coeff * prev_value / (row_mult_current - value)", "new": "                    ? binomial_coeff * value / (row_mult_current - prev_value)"}]},
    {"name": "permanent-last-job-drops-tail", "edits": [{"file": "src/permanent.cpp", "old": "            offset_max = idx_max - 1;\n", "new": "            offset_max = idx_max - 1 - (idx_max > 300 ? 1 : 0);\n"}]},
    {"name": "permanent-shared-accumulator", "edits": [{"file": "src/permanent.cpp", "old": "TComplex &addend_loc = thread_results[static_cast<unsigned int>(job_idx)];", "new": "TComplex &addend_loc = thread_results[static_cast<unsigned int>(job_idx % 2)];"}]},
    {"name": "pfaffian-pivot-sign", "edits": [{"file": "src/pfaffian.cpp", "old": "            result *= -1;\n", "new": "            result *= 1;\n"}]},
    {"name": "pfaffian-tau-offset", "edits": [{"file": "src/pfaffian.cpp", "old": "                tau[i] = matrix_in[(k * n) + (k + 2 + i)] / element;", "new": "                tau[i] = matrix_in[(k * n) + (k + 1 + i)] / element;"}]},
    {"name": "hafnian-odd-total-nonzero", "edits": [{"file": "piquasso/_math/hafnian/plain_hafnian.py", "old": "    elif n % 2 != 0:\n        return 0.0\n\n    all_edges, edge_indices = match_occupation_numbers(occupation_numbers)\n\n    matrix_reduced", "new": "    elif n % 2 != 0 and n < 7:\n        return 0.0\n\n    all_edges, edge_indices = match_occupation_numbers(occupation_numbers)\n\n    matrix_reduced"}]},
]
