"""Single-edit breaks for C09 used by vf.selftest (applied to a scratch copy only).

The unchanged tree already exits 1 on C09 (TensorFlow polar, phase-shifter expectation value), so a
mutant counts as caught by the *new* mechanism key it produces (listed in `expect`).
"""

TF = "piquasso/_simulators/connectors/tensorflow_/connector.py"
JX = "piquasso/_simulators/connectors/jax_/connector.py"

MUTANTS = [
    {"name": "tf-svd-returns-w-instead-of-w-adjoint",
     "expect": "purefock-*-differs:tf (all TF modes, programs with an Euler-decomposed gate, real blocks included)",
     "edits": [{"file": TF,
                "old": "        return V, S, self.np.conj(W).T\n",
                "new": "        return V, S, W\n"}]},
    {"name": "tf-assign-values-transposed",
     "expect": "purefock-*-differs:tf-function / tf-function-outer (tensor path of assign)",
     "edits": [{"file": TF,
                "old": "                array, index.reshape(-1, 1), value.reshape(-1)\n",
                "new": "                array, index.reshape(-1, 1), value.T.reshape(-1)\n"}]},
    {"name": "tf-gather-along-axis-1-index-order",
     "expect": "purefock-*-differs:tf* (interferometers with >= 2 photons)",
     "edits": [{"file": TF,
                "old": "                np.stack([np.full(indices.shape, row), indices], axis=2)\n",
                "new": "                np.stack([indices, np.full(indices.shape, row)], axis=2)\n"}]},
    {"name": "jax-polar-ignores-side",
     "expect": "purefock-*-differs:jax, jax-jit (GaussianTransform / QuadraticPhase)",
     "edits": [{"file": JX,
                "old": "        return self._scipy.linalg.polar(a, side, method=\"svd\")\n",
                "new": "        return self._scipy.linalg.polar(a, \"right\", method=\"svd\")\n"}]},
    {"name": "jax-fermionic-laplace-sign",
     "expect": "ffock-state_vector-differs:jax",
     "edits": [{"file": "piquasso/_simulators/connectors/jax_/connections.py",
                "old": "        signs = jnp.where(jnp.arange(n) % 2 == 0, 1, -1)\n",
                "new": "        signs = jnp.where(jnp.arange(n) % 2 == 0, 1, 1)\n"}]},
    {"name": "jax-hermite-bra-recursion-wrong-block",
     "expect": "gaussian-density_matrix-differs:jax",
     "edits": [{"file": "piquasso/_math/jax/hermite.py",
                "old": "            * A[d + pivot, d + mode]\n",
                "new": "            * A[pivot, d + mode]\n"}]},
    {"name": "jax-permanent-rows-cols-swapped",
     "expect": "passive-particle_detection_probability-differs:jax",
     "edits": [{"file": JX,
                "old": "            self.np.asarray(rows, dtype=self.np.uint64),\n            self.np.asarray(cols, dtype=self.np.uint64),\n",
                "new": "            self.np.asarray(cols, dtype=self.np.uint64),\n            self.np.asarray(rows, dtype=self.np.uint64),\n"}]},
    {"name": "jit-phaseshifter-abstract-branch-conjugated",
     "expect": "phaseshifter-expectation-differs:jax-jit",
     "edits": [{"file": "piquasso/_simulators/gaussian/state.py",
                "old": "            z = np.exp(1j * np_angles)\n",
                "new": "            z = np.exp(-1j * np_angles)\n"}]},
]
