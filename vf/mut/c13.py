"""Single-edit breaks for C13 used by vf.selftest (applied to a scratch copy only)."""

SIM = "piquasso/api/simulator.py"

MUTANTS = [
    {"name": "mode-upper-bound-off-by-one", "edits": [{"file": SIM, "old": "                if mode < 0 or mode >= d:\n", "new": "                if mode < 0 or mode > d:\n"}]},
    {"name": "negative-mode-accepted", "edits": [{"file": SIM, "old": "                if mode < 0 or mode >= d:\n", "new": "                if mode >= d:\n"}]},
    {"name": "repeated-modes-accepted", "edits": [{"file": SIM, "old": "            if len(set(instruction.modes)) != len(instruction.modes):\n", "new": "            if len(set(instruction.modes)) > len(instruction.modes):\n"}]},
    {"name": "preparation-order-not-checked", "edits": [{"file": SIM, "old": "        self._validate_preparations_at_beginning(instructions)\n\n", "new": "\n"}]},
    {"name": "mid-circuit-check-skips-last-but-one", "edits": [{"file": SIM, "old": "                and index != len(instructions) - 1\n", "new": "                and index < len(instructions) - 2\n"}]},
    {"name": "shots-zero-accepted", "edits": [{"file": SIM, "old": "        is_shots_positive_integer = isinstance(shots, int) and shots > 0\n", "new": "        is_shots_positive_integer = isinstance(shots, int) and shots >= 0\n"}]},
    {"name": "float-shots-accepted", "edits": [{"file": SIM, "old": "        is_shots_positive_integer = isinstance(shots, int) and shots > 0\n", "new": "        is_shots_positive_integer = isinstance(shots, (int, float)) and shots > 0\n"}]},
    {"name": "initial-state-d-not-checked", "edits": [{"file": SIM, "old": "        if initial_state.d != d:\n", "new": "        if initial_state.d < d:\n"}]},
    {"name": "parameters-validated-late", "edits": [{"file": SIM, "old": "        self._validate_instruction_parameters(instructions)\n", "new": ""}]},
    {"name": "shots-none-checked-late", "edits": [{"file": SIM, "old": "        if shots is None:\n            self._validate_measurements_with_shots_none(instructions)\n", "new": ""}]},
    {"name": "cutoff-two-refused", "edits": [{"file": "piquasso/_simulators/connectors/numpy_/interferometer.py", "old": "    if len(helper_indices[0]) == 0:\n", "new": "    if len(helper_indices[0]) == 0 and len(interferometer) > 2:\n"}]},
    {"name": "symplectic-check-dropped", "edits": [{"file": "piquasso/instructions/gates.py", "old": "        if connector.is_abstract(active) or connector.is_abstract(passive):\n            return\n", "new": "        if connector.is_abstract(active) or connector.is_abstract(passive) or len(passive) == 1:\n            return\n"}]},
]
