"""Single-edit breaks for C17 used by vf.selftest (applied to a scratch copy only)."""

GS = "piquasso/fermionic/gaussian/simulation_steps.py"
GST = "piquasso/fermionic/gaussian/state.py"
FS = "piquasso/fermionic/fock/simulation_steps.py"
FU = "piquasso/fermionic/_utils.py"

MUTANTS = [
    # squeezing2 phase sign (Gaussian simulator)
    {"name": "gaussian-squeezing2-phase-sign",
     "edits": [{"file": GS, "old": "    r_sin_phi = r * np.sin(phi)\n", "new": "    r_sin_phi = -r * np.sin(phi)\n"}]},
    # conjugation dropped in the Fock two-mode squeezing block
    {"name": "fock-squeezing2-conjugation-dropped",
     "edits": [{"file": FS, "old": "[np.cos(r / 2), np.sin(r / 2) * np.exp(-1j * phi)],",
                "new": "[np.cos(r / 2), np.sin(r / 2) * np.exp(1j * phi)],"}]},
    # conjugation dropped in the update of the anomalous block E (visible only after active gates, complex U)
    {"name": "gaussian-passive-anomalous-block-conjugation-dropped",
     "edits": [{"file": GS, "old": "state._E[select_columns] @ unitary.T.conj()", "new": "state._E[select_columns] @ unitary.T"}]},
    # transposed block when reading B out of the quadratic Hamiltonian
    {"name": "majorana-basis-transposed-block",
     "edits": [{"file": GS, "old": "    B = H[:small_d, small_d:]\n", "new": "    B = H[small_d:, :small_d]\n"}]},
    # wrong mode offset: every SO(2d) rotation is embedded at mode 0
    {"name": "gaussian-hamiltonian-mode-offset",
     "edits": [{"file": GS, "old": "    doubled_modes = double_modes(fallback_np.array(modes))\n",
                "new": "    doubled_modes = double_modes(fallback_np.arange(len(modes)))\n"}]},
    # Jordan-Wigner string lost (used by PureFockState.covariance_matrix)
    {"name": "jordan-wigner-string-off-by-one",
     "edits": [{"file": FU, "old": "    ops = [Z] * index\n\n    ops.append(op)\n    ops += [I] * (d - index - 1)\n",
                "new": "    ops = [Z] * max(index - 1, 0) + [I] * min(index, 1)\n\n    ops.append(op)\n    ops += [I] * (d - index - 1)\n"}]},
    # sign of the Ising-XX rotation in the Fock simulator
    {"name": "fock-isingxx-sign",
     "edits": [{"file": FS, "old": "    i_sin_phi = 1j * np.sin(phi)\n", "new": "    i_sin_phi = -1j * np.sin(phi)\n"}]},
    # sign in the overlap formula
    {"name": "gaussian-overlap-sign",
     "edits": [{"file": GST, "old": "        determinant = np.linalg.det((ident - gamma1 @ gamma2) / 2)\n",
                "new": "        determinant = np.linalg.det((ident + gamma1 @ gamma2) / 2)\n"}]},
    # copy-paste slip in the Fock squeezing pairing condition: breaks parity and exclusion
    {"name": "fock-squeezing2-pairing-condition",
     "edits": [{"file": FS, "old": "        if index[modes[0]] == 0 and index[modes[1]] == 0:\n",
                "new": "        if index[modes[0]] == 0 and index[modes[0]] == 0:\n"}]},
    # sign slip in the Laplace expansion of the determinant representation (anchor file of C17)
    {"name": "laplace-expansion-sign-slip",
     "edits": [{"file": "piquasso/_simulators/connectors/numpy_/connections.py",
                "old": "                        (-1) ** (laplace_index % 2)\n",
                "new": "                        (-1) ** ((laplace_index + 1) % 2)\n"}]},
]
