"""Single-edit property-breaking changes for C02 used by vf.selftest (applied to a scratch copy only).

All edits are in sampling code only: the exact laws of several C02 workloads are taken from the
state's own single-outcome interfaces, so a change shared by sampler and interface would be invisible
by construction. 'expect' names the mechanism that should fire.
"""

PSTEPS = "piquasso/_simulators/passive/simulation_steps.py"
PSAMPLING = "piquasso/_simulators/passive/sampling.py"
GSTEPS = "piquasso/_simulators/gaussian/simulation_steps.py"
HOMODYNE = "piquasso/_simulators/fock/pure/simulation_steps/homodyne.py"
FOCK_STATE = "piquasso/_simulators/fock/general/state.py"

MUTANTS = [
    # uniform loss: photons are rejected with the amplitude transmissivity t instead of t^2
    {"name": "uniform-loss-transmissivity-not-squared",
     "expect": "passive-uniform-loss-law-differs",
     "edits": [{"file": PSTEPS,
                "old": "        uniform_transmission_probability = singular_values[0] ** 2\n",
                "new": "        uniform_transmission_probability = singular_values[0]\n"}]},
    # Clifford & Clifford conditional pmf: Laplace expansion without the input multiplicity (bunched inputs only)
    {"name": "pmf-laplace-expansion-without-multiplicity",
     "expect": "passive-*-law-differs on bunched inputs with >= 2 occupied modes",
     "edits": [{"file": PSAMPLING,
                "old": "                input_state[nonzero_indices[j]]\n                * partial_permanents[j]\n",
                "new": "                partial_permanents[j]\n"}]},
    # distinguishable photons routed with |U[in, out]|^2 (row) instead of |U[out, in]|^2 (column)
    {"name": "distinguishable-photons-row-instead-of-column",
     "expect": "passive-distinguishable-law-differs",
     "edits": [{"file": PSAMPLING,
                "old": "        probabilities = np.abs(interferometer[:, input_mode]) ** 2\n",
                "new": "        probabilities = np.abs(interferometer[input_mode, :]) ** 2\n"}]},
    # direct marginal sampler: off-by-one in the photon-number range of a mode (never returns 'all remaining photons here')
    {"name": "marginal-sampler-photon-number-off-by-one",
     "expect": "passive-ideal-subset-law-differs",
     "edits": [{"file": PSAMPLING,
                "old": "            for photon_number in range(remaining_particles + 1):\n",
                "new": "            for photon_number in range(remaining_particles):\n"}]},
    # torontonian chain-rule sampler: after a click the running joint probability is updated as after a no-click
    {"name": "torontonian-chain-rule-click-branch",
     "expect": "gaussian-threshold-torontonian-law-differs (>= 2 measured modes)",
     "edits": [{"file": GSTEPS,
                "old": "                previous_probability *= 1 - conditional_probability\n",
                "new": "                previous_probability *= conditional_probability\n"}]},
    # Gaussian photon-number sampler: conditional weights |lhaf|^2 without 1/n!
    {"name": "gaussian-pnm-weights-without-factorial",
     "expect": "gaussian-pnm-law-differs / gaussian-threshold-law-differs at hbar = 2 (hbar != 2 cases are booked under the known hbar finding)",
     "edits": [{"file": GSTEPS,
                "old": "        weights = np.abs(lhaf_values) ** 2 / factorial(possible_choices)\n",
                "new": "        weights = np.abs(lhaf_values) ** 2\n"}]},
    # homodyne on Gaussian states: measured quadrature rotated by +phi instead of -phi
    {"name": "gaussian-homodyne-rotation-sign",
     "expect": "gaussian-homodyne-mean / gaussian-homodyne-variance",
     "edits": [{"file": GSTEPS,
                "old": "    phaseshift = np.identity(len(instruction.modes)) * np.exp(-1j * phi)\n",
                "new": "    phaseshift = np.identity(len(instruction.modes)) * np.exp(1j * phi)\n"}]},
    # pure-Fock homodyne: outcomes scaled with hbar instead of sqrt(hbar) (variance off by hbar; invisible at hbar = 1)
    {"name": "purefock-homodyne-scaled-with-hbar",
     "expect": "purefock-homodyne-marginal-law:*",
     "edits": [{"file": HOMODYNE,
                "old": "    scaled_samples = sqrt_hbar * samples\n",
                "new": "    scaled_samples = hbar * samples\n"}]},
    # Fock particle-number sampling weights: |rho_ii|^2 instead of |rho_ii| (pure and mixed simulators sample from the reduced FockState)
    {"name": "fock-sampling-weights-squared",
     "expect": "purefock-pnm-law-differs / fock-pnm-law-differs",
     "edits": [{"file": FOCK_STATE,
                "old": "            probability_map[tuple(basis)] = np.abs(self._density_matrix[index, index])\n",
                "new": "            probability_map[tuple(basis)] = np.abs(self._density_matrix[index, index]) ** 2\n"}]},
]
