"""Single-edit breaks for C20 used by vf.selftest (applied to a scratch copy only)."""

MUTANTS = [{'name': 'and-no-shortcircuit',
  'edits': [{'file': 'piquasso/core/_expressions.py',
             'old': '                    if not result:  # falsy → return immediately\n                        return result\n',
             'new': ''}]},
 {'name': 'compare-chain-keeps-left', 'edits': [{'file': 'piquasso/core/_expressions.py', 'old': '                left = right\n', 'new': ''}]},
 {'name': 'allow-attribute',
  'edits': [{'file': 'piquasso/core/_expressions.py', 'old': '        ast.Constant,\n', 'new': '        ast.Constant,\n        ast.Attribute,\n'}]},
 {'name': 'allow-string-constants',
  'edits': [{'file': 'piquasso/core/_expressions.py',
             'old': '            if isinstance(n, ast.Constant) and not isinstance(\n                n.value, (int, float, bool)\n            ):',
             'new': '            if isinstance(n, ast.Constant) and not isinstance(\n'
                    '                n.value, (int, float, bool, str)\n'
                    '            ):'}]},
 {'name': 'xor-is-power', 'edits': [{'file': 'piquasso/core/_expressions.py', 'old': 'ast.BitXor: op.xor', 'new': 'ast.BitXor: op.pow'}]},
 {'name': 'any-name',
  'edits': [{'file': 'piquasso/core/_expressions.py',
             'old': 'if isinstance(n, ast.Name) and n.id != "x":',
             'new': 'if isinstance(n, ast.Name) and n.id.startswith("__"):'}]},
 {'name': 'slice-step-ignored',
  'edits': [{'file': 'piquasso/core/_expressions.py', 'old': 'return seq[slice(start, stop, step)]', 'new': 'return seq[slice(start, stop)]'}]},
 {'name': 'eval-based',
  'edits': [{'file': 'piquasso/core/_expressions.py',
             'old': '        x = x if x is not None else tuple()\n        return self._eval(self._tree.body, x)',
             'new': '        x = x if x is not None else tuple()\n'
                    "        return eval(compile(self._tree, '<e>', 'eval'), {'__builtins__': {}}, {'x': x})"}]},
 {'name': 'or-returns-bool',
  'edits': [{'file': 'piquasso/core/_expressions.py',
             'old': '                    if result:  # truthy → return immediately\n                        return result\n',
             'new': '                    if result:  # truthy → return immediately\n                        return True\n'}]},
 {'name': 'mod-is-fmod',
  'edits': [{'file': 'piquasso/core/_expressions.py', 'old': 'import ast\n', 'new': 'import ast\nimport math\n'},
            {'file': 'piquasso/core/_expressions.py', 'old': 'ast.Mod: op.mod', 'new': 'ast.Mod: math.fmod'}]}]
