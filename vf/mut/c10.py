"""Single-edit breaks for C10 used by vf.selftest (applied to a scratch copy only).

Each mutant is a derivative rule that still runs and still returns arrays of the right shape:
the forward values of every simulation are unchanged, only a gradient is wrong.
"""

STEPS = "piquasso/_simulators/fock/pure/simulation_steps/__init__.py"
PASSIVE = "piquasso/_simulators/fock/pure/simulation_steps/passive_linear.py"

MUTANTS = [
    # custom-gradient rule of the displacement matrix wrong for phi only (r stays right)
    {"name": "displacement-phi-rule-sign",
     "edits": [{"file": "piquasso/_math/gradients.py",
                "old": "        phi_grad = (row_term + col_term) * r * 1j\n",
                "new": "        phi_grad = (row_term - col_term) * r * 1j\n"}]},
    # squeezing matrix gradient: rows rolled the wrong way (affects r and phi rules through row_term)
    {"name": "squeezing-row-roll-direction",
     "edits": [{"file": "piquasso/_math/gradients.py",
                "old": "        row_rolled_transformation = np.roll(transformation, 2, axis=0)\n",
                "new": "        row_rolled_transformation = np.roll(transformation, -2, axis=0)\n"}]},
    # VJP of the single-mode gate application w.r.t. the incoming state: matrix not conjugated
    {"name": "active-vjp-matrix-not-conjugated",
     "edits": [{"file": STEPS,
                "old": "        conjugated_matrix = np.conj(matrix)\n",
                "new": "        conjugated_matrix = matrix\n"}]},
    # same VJP, gradient w.r.t. the gate matrix transposed for batched states only
    {"name": "active-vjp-batch-matrix-gradient-transposed",
     "edits": [{"file": STEPS,
                "old": '        matrix_einsum_string = "ijl,kjl->ki" if is_batch else "ij,kj->ki"\n',
                "new": '        matrix_einsum_string = "ijl,kjl->ik" if is_batch else "ij,kj->ki"\n'}]},
    # same VJP on the symbolic-upstream path (tape.jacobian): partial blocks padded on the wrong side
    {"name": "active-vjp-jacobian-path-pad-side",
     "edits": [{"file": STEPS,
                "old": "                    [[0, cutoff - limit], [0, cutoff - limit]],\n",
                "new": "                    [[cutoff - limit, 0], [0, cutoff - limit]],\n"}]},
    # gradient of the Fock-space representation of an interferometer: sqrt(n) factor of the explicit term missing
    {"name": "interferometer-representation-grad-missing-sqrt",
     "edits": [{"file": PASSIVE,
                "old": "                * sqrt_occupation_numbers[jdx, col_index]\n",
                "new": "                * 1.0\n"}]},
    # native: d perm / d A_ij = rows[i] * cols[j] * perm(minor); column multiplicity dropped
    {"name": "grad-perm-missing-column-multiplicity",
     "edits": [{"file": "src/permanent.cpp",
                "old": "                static_cast<double>(rows[i]) * static_cast<double>(cols[j]) *\n",
                "new": "                static_cast<double>(rows[i]) *\n"}]},
    # native: backward pass multiplies by the conjugated cotangent (TensorFlow's convention instead of JAX's)
    {"name": "perm-bwd-cotangent-conjugated",
     "edits": [{"file": "src/jax_perm/jax_perm_core.cpp",
                "old": "      ct_x[i * A.cols + j] = cotangent * grad(i, j);\n",
                "new": "      ct_x[i * A.cols + j] = std::conj(cotangent) * grad(i, j);\n"}]},
]
