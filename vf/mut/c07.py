"""Single-edit breaks for C07 used by vf.selftest (applied to a scratch copy only)."""

GATES = "piquasso/instructions/gates.py"
STEPS = "piquasso/_simulators/gaussian/simulation_steps.py"
IDX = "piquasso/_math/indices.py"

MUTANTS = [
    # Beamsplitter block loses the conjugate: not unitary for phi != 0
    {"name": "beamsplitter-conj-dropped",
     "edits": [{"file": GATES, "old": "                [t, -np.conj(r)],\n", "new": "                [t, -r],\n"}]},
    # single-mode squeezing: cosh replaced by sinh in the passive block
    {"name": "squeezing-cosh-sinh-swapped",
     "edits": [{"file": GATES, "old": "        return np.array([[np.cosh(r)]], dtype=config.complex_dtype)\n",
                "new": "        return np.array([[np.sinh(r)]], dtype=config.complex_dtype)\n"}]},
    # two-mode squeezing: sign of phi (still symplectic, no longer the documented matrix)
    {"name": "squeezing2-phi-sign",
     "edits": [{"file": GATES,
                "old": "                [0, np.sinh(r) * np.exp(1j * phi)],\n                [np.sinh(r) * np.exp(1j * phi), 0],\n",
                "new": "                [0, np.sinh(r) * np.exp(-1j * phi)],\n                [np.sinh(r) * np.exp(-1j * phi), 0],\n"}]},
    # wrong index set for a descending / permuted mode tuple in the Gaussian moment update
    {"name": "operator-index-sorted-modes",
     "edits": [{"file": IDX, "old": "    transformed_columns = np.array([modes] * len(modes))\n",
                "new": "    transformed_columns = np.array([sorted(modes)] * len(modes))\n"}]},
    # auxiliary-mode update of G reads C after it was overwritten (stale/updated mix-up)
    {"name": "aux-update-reads-overwritten-C",
     "edits": [{"file": STEPS, "old": "        state._G, auxiliary_index, P @ auxiliary_G + A @ auxiliary_C\n",
                "new": "        state._G, auxiliary_index, P @ auxiliary_G + A @ state._C[auxiliary_index]\n"}]},
    # displacement scaled with the hbar of the default configuration (identical at hbar = 2)
    {"name": "displacement-default-hbar",
     "edits": [{"file": STEPS, "old": "        state._m, indices, state._m[indices] + r * np.exp(1j * phi)\n",
                "new": "        state._m, indices, state._m[indices] + r * np.exp(1j * phi) * np.sqrt(2 / state._config.hbar)\n"}]},
    # Mach-Zehnder: external phase on the output arm instead of the input arm (still unitary)
    {"name": "machzehnder-ext-phase-wrong-arm",
     "edits": [{"file": GATES,
                "old": "                    [ext_phase * (int_phase - 1), 1j * (int_phase + 1)],\n"
                       "                    [1j * ext_phase * (int_phase + 1), 1 - int_phase],\n",
                "new": "                    [ext_phase * (int_phase - 1), 1j * ext_phase * (int_phase + 1)],\n"
                       "                    [1j * (int_phase + 1), 1 - int_phase],\n"}]},
    # Fourier gate with the opposite sign (unitary, but not Phaseshifter(pi/2))
    {"name": "fourier-sign",
     "edits": [{"file": GATES, "old": "        return connector.np.array([[1j]], dtype=config.complex_dtype)\n",
                "new": "        return connector.np.array([[-1j]], dtype=config.complex_dtype)\n"}]},
    # passive moment update: conjugate on the wrong factor (C -> T C T^+ instead of conj(T) C T^T)
    {"name": "passive-step-conj-misplaced",
     "edits": [{"file": STEPS, "old": "        state._C, index, T.conjugate() @ state._C[index] @ T.transpose()\n",
                "new": "        state._C, index, T @ state._C[index] @ T.conjugate().transpose()\n"}]},
    # momentum displacement pushes p the wrong way
    {"name": "momentum-displacement-sign",
     "edits": [{"file": GATES, "old": "        return dict(r=self.params[\"p\"], phi=np.pi / 2)\n",
                "new": "        return dict(r=self.params[\"p\"], phi=-np.pi / 2)\n"}]},
]
