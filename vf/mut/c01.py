"""Single-edit breaks for C01 used by vf.selftest (applied to a scratch copy only)."""

GS = "piquasso/_simulators/gaussian/simulation_steps.py"
PF = "piquasso/_simulators/fock/pure/simulation_steps/__init__.py"

MUTANTS = [
    {"name": "gaussian-passive-sorted-modes", "edits": [{"file": GS, "old": "    modes = instruction.modes\n    passive_block: np.ndarray = instruction._get_passive_block(\n        state._connector, state._config\n    )\n\n    _apply_passive_linear(", "new": "    modes = tuple(sorted(instruction.modes))\n    passive_block: np.ndarray = instruction._get_passive_block(\n        state._connector, state._config\n    )\n\n    _apply_passive_linear("}]},
    {"name": "gaussian-auxiliary-update-conj-dropped", "edits": [{"file": GS, "old": "        state._C, auxiliary_index, T.conjugate() @ state._C[auxiliary_index]\n", "new": "        state._C, auxiliary_index, T @ state._C[auxiliary_index]\n"}]},
    {"name": "gaussian-linear-mean-conj-dropped", "edits": [{"file": GS, "old": "    active_part = active_block @ np.conj(state._m[modes,])\n", "new": "    active_part = active_block @ state._m[modes,]\n"}]},
    {"name": "purefock-kerr-linear-in-n", "edits": [{"file": PF, "old": "basis[mode] ** 2 for basis in space", "new": "basis[mode] for basis in space"}]},
    {"name": "purefock-crosskerr-same-mode", "edits": [{"file": PF, "old": "basis[modes[0]] * basis[modes[1]]", "new": "basis[modes[0]] * basis[modes[0]]"}]},
    {"name": "passive-kerr-linear-in-n", "edits": [{"file": "piquasso/_simulators/passive/simulation_steps.py", "old": "            1j * xi * state._occupation_numbers[i][mode] ** 2\n", "new": "            1j * xi * state._occupation_numbers[i][mode]\n"}]},
    {"name": "fock-attenuator-exponent", "edits": [{"file": "piquasso/_simulators/fock/simulation_steps.py", "old": "np.tan(theta) ** (2 * k) * np.sqrt(comb(n, k) * comb(m, k))", "new": "np.tan(theta) ** (2 * k) * np.sqrt(comb(n, k) * comb(m, k)) * (1.0 if k < 2 else 0.9)"}]},
    {"name": "squeezing-matrix-phase-sign", "edits": [{"file": "piquasso/_math/gate_matrices.py", "old": "    A = np.exp(1j * phi) * np.tanh(r)\n", "new": "    A = np.exp(-1j * phi) * np.tanh(r)\n", "count": 0}]},
    {"name": "gaussian-density-matrix-sqrt", "edits": [{"file": "piquasso/_math/hermite.py", "old": "    return value / np.sqrt(bra[pivot])\n", "new": "    return value / np.sqrt(bra[pivot] + (bra[pivot] > 2))\n"}]},
    {"name": "interferometer-fock-higher-sector", "edits": [{"file": "piquasso/_simulators/connectors/numpy_/interferometer.py", "old": "                        * sqrt_occupation_numbers[i, j]\n", "new": "                        * sqrt_occupation_numbers[i, j] * (1.0 if n < 3 else 0.999)\n"}]},
]
