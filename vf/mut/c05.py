"""Single-edit breaks for C05 used by vf.selftest (applied to a scratch copy only).

Each one is a slip that the pinned test-suite would plausibly let through (the suite uses real or
uniform loss matrices, collision-free inputs and one feature at a time)."""

P = "piquasso/_simulators/passive/"

MUTANTS = [
    # Ryser inclusion-exclusion sign taken from |S| instead of n - |S|: identical for even n, global sign flip for odd n
    {"name": "ryser-sign-parity",
     "edits": [{"file": P + "probabilities.py",
                "old": "        sign = -1 if (number_of_particles - subset.bit_count()) % 2 else 1\n",
                "new": "        sign = -1 if subset.bit_count() % 2 else 1\n"}]},
    # input norm of bunched, uniformly partially distinguishable inputs: k! of the permanent expansion dropped
    {"name": "uniform-input-norm-drops-factorial",
     "edits": [{"file": P + "probabilities.py",
                "old": "            * (1.0 - particle_overlap) ** (n - k)\n            * factorial(k)\n",
                "new": "            * (1.0 - particle_overlap) ** (n - k)\n"}]},
    # Gram-matrix input norm: pairs of photons in one mode are not normalised (only >= 3)
    {"name": "general-input-norm-skips-pairs",
     "edits": [{"file": P + "probabilities.py",
                "old": "        if occupation > 1:\n            indices[start:stop] = 1\n",
                "new": "        if occupation > 2:\n            indices[start:stop] = 1\n"}]},
    # SLOS post-selection pruning bound one too tight
    {"name": "slos-k-limit-off-by-one",
     "edits": [{"file": P + "utils.py",
                "old": "                k_limit=(n - k),\n",
                "new": "                k_limit=(n - k - 1),\n"}]},
    # binomial transform of the marginals: Taylor shift stops one pass early
    {"name": "marginal-taylor-shift-short",
     "edits": [{"file": P + "marginal.py",
                "old": "    for i in range(length - 1):\n        for j in range(length - 1, i, -1):\n",
                "new": "    for i in range(length - 2):\n        for j in range(length - 1, i, -1):\n"}]},
    # new instruction matrix (loss included) multiplied from the wrong side
    {"name": "matrix-product-wrong-side",
     "edits": [{"file": P + "simulation_steps.py",
                "old": "    state.interferometer = embedded @ state.interferometer\n",
                "new": "    state.interferometer = state.interferometer @ embedded\n"}]},
    # truncated polynomial product wraps the top degree around instead of dropping it
    {"name": "polynomial-truncation-wraps",
     "edits": [{"file": "piquasso/_math/polynomial.py",
                "old": "        np.moveaxis(out, axis, 0)[1:] += (\n            coefficient * np.moveaxis(polynomial, axis, 0)[:-1]\n        )\n",
                "new": "        np.moveaxis(out, axis, 0)[...] += coefficient * np.roll(\n            np.moveaxis(polynomial, axis, 0), 1, axis=0\n        )\n"}]},
    # loop-hafnian loss channel: conjugation of the bra-side loss block slipped (invisible for real T)
    {"name": "loss-channel-kernel-conjugation",
     "edits": [{"file": P + "probabilities.py",
                "old": "                identity - T.T @ T.conj(),\n",
                "new": "                identity - T_dagger @ T,\n"}]},
    # tensor permanent (uniform overlap): second Ryser sign computed from the first subset
    {"name": "tensor-permanent-sign",
     "edits": [{"file": P + "probabilities.py",
                "old": "            sign_t = -1 if (number_of_particles - subset_t.bit_count()) % 2 else 1\n",
                "new": "            sign_t = -1 if (number_of_particles - subset_s.bit_count()) % 2 else 1\n"}]},
    # bounded compositions: boundary case 'deficit == k_limit' dropped when the constrained box is the last one
    {"name": "bounded-partitions-boundary",
     "edits": [{"file": "piquasso/_math/combinatorics.py",
                "old": "        if diff_final <= k_limit:\n",
                "new": "        if diff_final < k_limit:\n",
                "count": 2}]},
    # SLOS: input normalisation 1/sqrt(n_p!) of bunched inputs dropped
    {"name": "slos-bunched-input-normalisation",
     "edits": [{"file": P + "utils.py",
                "old": "                factor = fallback_np.sqrt((t_i + 1) / (sigma_k[p] + 1))\n",
                "new": "                factor = fallback_np.sqrt(t_i + 1)\n"}]},
]
