"""Single-edit property-breaking changes for C08 used by vf.selftest (applied to a scratch copy only).

'expect' names the mechanism that should fire, or says why the monitor is not expected to see the
change (the two Gaussian setter-guarded ones and the mixed-state purity formula are probes of
blind spots, see the notes at each entry).

Result of `python -m vf.selftest C08` on 2026-09-23 (quick tier, seed 0): 7 / 11 caught.
Missed: generaldyne-post-state-ignores-detection-noise and channel-noise-halved (the library's own
covariance setter raises InvalidState, C08 books that as programs_raising; C13 reports both as
valid-program-refused:gaussian:InvalidState:..._validate_cov), ffock-squeezing2-sign (only 1-2 % of the
generated fermionic programs let two Squeezing2 amplitudes interfere and only a norm above one is flagged;
missed again in a rerun on an idle machine with all 1350 programs), fock-purity-einsum-indices (no oracle).
"""

GSTEPS = "piquasso/_simulators/gaussian/simulation_steps.py"
GSTATE = "piquasso/_simulators/gaussian/state.py"
PURE_STEPS = "piquasso/_simulators/fock/pure/simulation_steps/__init__.py"
PURE_PASSIVE = "piquasso/_simulators/fock/pure/simulation_steps/passive_linear.py"
FOCK_COMMON = "piquasso/_simulators/fock/simulation_steps.py"
FOCK_STEPS = "piquasso/_simulators/fock/general/simulation_steps.py"
FOCK_STATE = "piquasso/_simulators/fock/general/state.py"
FG_STEPS = "piquasso/fermionic/gaussian/simulation_steps.py"
FF_STEPS = "piquasso/fermionic/fock/simulation_steps.py"

MUTANTS = [
    # conditional covariance of a general-dyne measurement computed as for an ideal (noise-free) detector:
    # the Schur complement of an entangled state violates the uncertainty relation.
    # The new state goes through the validating xpxp_covariance_matrix setter.
    {"name": "generaldyne-post-state-ignores-detection-noise",
     "expect": "gaussian-uncertainty-violated:after:*Measurement (or InvalidState raised by the library's setter -> not judged)",
     "edits": [{"file": GSTEPS,
                "old": "        @ np.linalg.inv(cov_measured + full_detection_covariance)\n        @ cov_correlation.transpose()\n",
                "new": "        @ np.linalg.inv(cov_measured)\n        @ cov_correlation.transpose()\n"}]},
    # channel noise scaled with hbar/2 (vacuum-variance convention slip): attenuated states fall below the vacuum noise.
    # Also written through the validating setter.
    {"name": "channel-noise-halved",
     "expect": "gaussian-uncertainty-violated:after:Attenuator/DeterministicGaussianChannel (or InvalidState raised by the setter -> not judged)",
     "edits": [{"file": GSTEPS,
                "old": "    Y = instruction._get_all_params(state._connector)[\"Y\"] * state._config.hbar\n",
                "new": "    Y = instruction._get_all_params(state._connector)[\"Y\"] * state._config.hbar / 2\n"}]},
    # active gate on a subset of the modes: the <a_i a_k> correlations with the untouched modes pick up conj(C)
    {"name": "linear-aux-G-uses-conj-C",
     "expect": "gaussian-uncertainty-violated:after:<active gate> (d >= 2, complex correlations)",
     "edits": [{"file": GSTEPS,
                "old": "        state._G, auxiliary_index, P @ auxiliary_G + A @ auxiliary_C\n",
                "new": "        state._G, auxiliary_index, P @ auxiliary_G + A @ auxiliary_C.conjugate()\n"}]},
    # threshold detection probability normalises the moments as if hbar were 2: P(no click) > 1 for hbar < 2
    {"name": "threshold-probability-assumes-hbar-2",
     "expect": "probability-out-of-range:gaussian",
     "edits": [{"file": GSTATE,
                "old": "        hbar = self._config.hbar\n\n        if not self._is_displaced():\n            return calculate_click_probability_nondisplaced(\n",
                "new": "        hbar = 2.0\n\n        if not self._is_displaced():\n            return calculate_click_probability_nondisplaced(\n"}]},
    # post-measurement state vector divided by the probability instead of its square root
    {"name": "purefock-measurement-normalisation-not-sqrt",
     "expect": "purefock-norm-above-one:after:ParticleNumberMeasurement",
     "edits": [{"file": PURE_STEPS,
                "old": "    return np.sqrt(1 / probability_map[sample])\n",
                "new": "    return 1 / probability_map[sample]\n"}]},
    # 50:50 beamsplitter on Fock space: floor division in the 2^{-(n+m)/2} prefactor, wrong for odd particle numbers only
    {"name": "purefock-bs5050-floor-division",
     "expect": "norm-not-preserved:purefock:Beamsplitter5050",
     "edits": [{"file": PURE_PASSIVE,
                "old": "        2 ** (-(n + m) / 2)\n",
                "new": "        2 ** (-(n + m) // 2)\n"}]},
    # loss channel on the Fock simulators: tan^k instead of tan^{2k} in the Kraus sum
    {"name": "fock-attenuator-tan-power",
     "expect": "fock-trace-above-one / fock-rho-not-positive :after:Attenuator",
     "edits": [{"file": FOCK_COMMON,
                "old": "                np.tan(theta) ** (2 * k) * np.sqrt(comb(n, k) * comb(m, k))\n",
                "new": "                np.tan(theta) ** k * np.sqrt(comb(n, k) * comb(m, k))\n"}]},
    # density-matrix update of single-mode active gates: U rho U^T instead of U rho U^dagger (invisible for real gate matrices)
    {"name": "fock-active-gate-bra-not-conjugated",
     "expect": "fock-rho-not-hermitian:after:Displacement/Squeezing/CubicPhase",
     "edits": [{"file": FOCK_STEPS,
                "old": "                        sliced_matrix_bra.T.conj(),\n",
                "new": "                        sliced_matrix_bra.T,\n"}]},
    # fermionic Gaussian passive gate: rows of <f^dagger f> multiplied with U instead of conj(U)
    {"name": "fgaussian-passive-rows-not-conjugated",
     "expect": "fermionic-correlation-spectrum / fermionic-cov-not-antisymmetric :after:<passive gate>",
     "edits": [{"file": FG_STEPS,
                "old": "        state._D, select_rows, unitary.conj() @ state._D[modes, :]\n",
                "new": "        state._D, select_rows, unitary @ state._D[modes, :]\n"}]},
    # fermionic Fock Squeezing2: sign of the lower-left entry lost, the 2x2 block is no longer unitary
    {"name": "ffock-squeezing2-sign",
     "expect": "ffock-norm-above-one:after:Squeezing2",
     "edits": [{"file": FF_STEPS,
                "old": "            [-np.sin(r / 2) * np.exp(1j * phi), np.cos(r / 2)],\n",
                "new": "            [np.sin(r / 2) * np.exp(1j * phi), np.cos(r / 2)],\n"}]},
    # purity of a mixed Fock state: sum rho_ij^2 instead of Tr rho^2 = sum rho_ij rho_ji (complex coherences lower the value)
    {"name": "fock-purity-einsum-indices",
     "expect": "none expected: for FockState only the range (0,1] of get_purity is asserted",
     "edits": [{"file": FOCK_STATE,
                "old": "        return np.real(np.einsum(\"ij,ji\", density_matrix, density_matrix))\n",
                "new": "        return np.real(np.einsum(\"ij,ij\", density_matrix, density_matrix))\n"}]},
]
