"""Single-edit breaks for C15 used by vf.selftest (applied to a scratch copy only).

The unchanged tree already reports violations under these mechanism keys (genuine findings):
  clements-subthreshold-entry-dropped, takagi-reconstruction-degenerate-branch-cut,
  takagi-not-unitary-real-dtype-nullspace, takagi-not-unitary-large-norm-nullspace,
  williamson-raises-schur-not-converged, euler-recomposition-via-takagi-branch-cut,
  graph-A-not-proportional-via-takagi-branch-cut
so "rc == 1" alone does not show that a mutant was noticed; EXPECT names, per mutant, a
mechanism key that must additionally appear (checked by hand / by the 'unlisted violations by
mechanism' line of the run).
"""

BASELINE_MECHANISMS = [
    "clements-subthreshold-entry-dropped",
    "takagi-reconstruction-degenerate-branch-cut",
    "takagi-not-unitary-real-dtype-nullspace",
    "takagi-not-unitary-large-norm-nullspace",
    "williamson-raises-schur-not-converged",
    "euler-recomposition-via-takagi-branch-cut",
    "graph-A-not-proportional-via-takagi-branch-cut",
]

EXPECT = {
    "clements-commute-phase-without-pi": "clements-roundtrip",
    "clements-zero-element-no-swap": "clements-roundtrip",
    "instructions-phaseshifter-on-second-mode": "clements-instructions-passive",
    "weights-theta-phi-swapped": "clements-weights-roundtrip",
    "takagi-principal-angle": "takagi-reconstruction",
    "takagi-exact-equality-grouping": "takagi-reconstruction",
    "williamson-no-xxpp-reordering": "williamson-not-symplectic",
    "euler-takes-conjugate-block": "euler-recomposition",
    "graph-squeezers-ignore-mode-tuple": "graph-A-not-proportional",
    "graph-scaling-total-instead-of-per-mode": "graph-mean-photon-number",
}

MUTANTS = [
    {'name': 'clements-commute-phase-without-pi',
     'edits': [{'file': 'piquasso/decompositions/clements.py',
                'old': '    bs_phi_p = np.mod(phi1 - phi2 + np.pi, 2 * np.pi)\n',
                'new': '    bs_phi_p = np.mod(phi1 - phi2, 2 * np.pi)\n'}]},
    {'name': 'clements-zero-element-no-swap',
     'edits': [{'file': 'piquasso/decompositions/clements.py',
                'old': '        return np.pi / 2, 0.0\n',
                'new': '        return 0.0, 0.0\n'}]},
    {'name': 'instructions-phaseshifter-on-second-mode',
     'edits': [{'file': 'piquasso/decompositions/clements.py',
                'old': '        instructions.append(Phaseshifter(bs.params[1]).on_modes(bs.modes[0]))\n',
                'new': '        instructions.append(Phaseshifter(bs.params[1]).on_modes(bs.modes[1]))\n'}]},
    {'name': 'weights-theta-phi-swapped',
     'edits': [{'file': 'piquasso/decompositions/clements.py',
                'old': '        weights = connector.assign(weights, index, beamsplitter.params[0])\n'
                       '        index += 1\n'
                       '        weights = connector.assign(weights, index, beamsplitter.params[1])\n',
                'new': '        weights = connector.assign(weights, index, beamsplitter.params[1])\n'
                       '        index += 1\n'
                       '        weights = connector.assign(weights, index, beamsplitter.params[0])\n'}]},
    {'name': 'takagi-principal-angle',
     'edits': [{'file': 'piquasso/_math/decompositions.py',
                'old': '        angles_mod = np.mod(np.angle(diags), 2 * np.pi)  # phases in [0, 2\\pi)\n',
                'new': '        angles_mod = np.angle(diags)\n'}]},
    {'name': 'takagi-exact-equality-grouping',
     'edits': [{'file': 'piquasso/_math/decompositions.py',
                'old': '            np.isclose(value, np.array(singular_value_multiplicity_values), atol=atol)\n',
                'new': '            value == np.array(singular_value_multiplicity_values)\n'}]},
    {'name': 'williamson-no-xxpp-reordering',
     'edits': [{'file': 'piquasso/_math/decompositions.py',
                'old': '    )[:, indices]\n    ordered_block_diagonal',
                'new': '    )\n    ordered_block_diagonal'}]},
    {'name': 'euler-takes-conjugate-block',
     'edits': [{'file': 'piquasso/_math/decompositions.py',
                'old': '    Z = 1j * H_active[:d, d:]\n',
                'new': '    Z = 1j * H_active[d:, :d]\n'}]},
    {'name': 'graph-squeezers-ignore-mode-tuple',
     'edits': [{'file': 'piquasso/_simulators/gaussian/simulation_steps.py',
                'old': '    for mode, r in zip(instruction.modes, squeezings):\n'
                       '        _apply_linear(\n'
                       '            state=state,\n'
                       '            passive_block=np.array([[np.cosh(r)]]),',
                'new': '    for mode, r in enumerate(squeezings):\n'
                       '        _apply_linear(\n'
                       '            state=state,\n'
                       '            passive_block=np.array([[np.cosh(r)]]),'}]},
    {'name': 'graph-scaling-total-instead-of-per-mode',
     'edits': [{'file': 'piquasso/_math/decompositions.py',
                'old': '            / len(singular_values)\n            - mean_photon_number\n',
                'new': '            - mean_photon_number\n'}]},
]
