"""Single-edit breaks for C14 used by vf.selftest (applied to a scratch copy only).

'expect' names the mechanism key(s) that must fire for the mutant. While get_purity still ignored
hbar (before "fix: GaussianState.get_purity takes hbar into account") every run exited 1 through
gaussian-purity-ignores-hbar; each mutant was then verified to raise a mechanism other than that
one. The regression mutant at the end re-introduces exactly that defect.
"""

STATE = "piquasso/_simulators/gaussian/state.py"
STEPS = "piquasso/_simulators/gaussian/simulation_steps.py"

MUTANTS = [
    # a getter that forgets hbar: invisible at the default hbar = 2
    {"name": "xxpp-mean-getter-assumes-hbar-2",
     "expect": "setter-getter-roundtrip-mean / xpxp-mean-vector-depends-on-hbar",
     "edits": [{"file": STATE,
                "old": "        return dimensionless_xxpp_mean_vector * np.sqrt(self._config.hbar)\n",
                "new": "        return dimensionless_xxpp_mean_vector * np.sqrt(2.0)\n"}]},
    # permutation slip: the two index maps coincide for d <= 2
    {"name": "xxpp-mean-setter-inverse-permutation",
     "expect": "setter-getter-roundtrip-mean / setter-paths-disagree (d >= 3)",
     "edits": [{"file": STATE,
                "old": "        self.xpxp_mean_vector = value[xxpp_to_xpxp_indices(self.d)]\n",
                "new": "        self.xpxp_mean_vector = value[xpxp_to_xxpp_indices(self.d)]\n"}]},
    # reduced() picks the wrong entries for non-ascending mode tuples
    {"name": "reduced-sorts-modes-of-mean",
     "expect": "reduced-xpxp-mean / reduced-complex-displacement",
     "edits": [{"file": STATE,
                "old": "            m=self._m[np.ix_(modes)],\n",
                "new": "            m=self._m[np.ix_(sorted(modes))],\n"}]},
    # rotated(): G must pick up the phase twice
    {"name": "rotated-G-single-phase",
     "expect": "rotated-covariance",
     "edits": [{"file": STATE,
                "old": "            G=(self._G * phase**2),\n",
                "new": "            G=(self._G * phase),\n"}]},
    # fidelity: displacement normalised with hbar instead of sqrt(hbar)
    {"name": "fidelity-mean-divided-by-hbar",
     "expect": "fidelity-depends-on-hbar",
     "edits": [{"file": STATE,
                "old": "        mu_2 = state.xpxp_mean_vector / np.sqrt(hbar)\n",
                "new": "        mu_2 = state.xpxp_mean_vector / hbar\n"}]},
    # threshold detection: mean not normalised (displaced states only)
    {"name": "threshold-mean-not-normalised",
     "expect": "get-threshold-detection-probability-depends-on-hbar",
     "edits": [{"file": STATE,
                "old": "            self.xpxp_mean_vector / np.sqrt(hbar),\n            tuple(occupation_number),\n",
                "new": "            self.xpxp_mean_vector / np.sqrt(2.0),\n            tuple(occupation_number),\n"}]},
    # xp-string moments: commutator term without hbar
    {"name": "xp-string-commutator-assumes-hbar-2",
     "expect": "get-xp-string-moment-depends-on-hbar / xp-string-moment-vs-ladder-string-moments",
     "edits": [{"file": STATE,
                "old": "        second_order_moments = cov_xxpp / 2 + 0.5j * hbar * xp_symplectic_form(d)\n",
                "new": "        second_order_moments = cov_xxpp / 2 + 1.0j * xp_symplectic_form(d)\n"}]},
    # channel noise not scaled with hbar: only gate programs with a channel see it
    {"name": "channel-noise-not-scaled",
     "expect": "*-depends-on-hbar on program cases (covariance / ladder moments / photon statistics)",
     "edits": [{"file": STEPS,
                "old": "    Y = instruction._get_all_params(state._connector)[\"Y\"] * state._config.hbar\n",
                "new": "    Y = instruction._get_all_params(state._connector)[\"Y\"] * 2.0\n"}]},
    # get_purity back to the formula without hbar (the defect fixed by "fix: GaussianState.get_purity takes hbar into account")
    {"name": "purity-ignores-hbar-regression",
     "expect": "gaussian-purity-ignores-hbar",
     "edits": [{"file": STATE,
                "old": "            self._config.hbar**self.d\n            / np.sqrt(np.linalg.det(self.xxpp_covariance_matrix))\n",
                "new": "            2**self.d\n            / np.sqrt(np.linalg.det(self.xxpp_covariance_matrix))\n"}]},
    # get_purity with the wrong power of hbar: must be reported, and not under the key of the old defect
    {"name": "purity-wrong-power-of-hbar",
     "expect": "purity-depends-on-hbar",
     "edits": [{"file": STATE,
                "old": "            self._config.hbar**self.d\n            / np.sqrt(np.linalg.det(self.xxpp_covariance_matrix))\n",
                "new": "            self._config.hbar**(2 * self.d)\n            / np.sqrt(np.linalg.det(self.xxpp_covariance_matrix))\n"}]},
]
