"""Single-edit breaks for C19 used by vf.selftest (applied to a scratch copy only).

Run with the three conditional-block shapes the unchanged encoder mistranslates left out,
so that rc=1 is due to the mutant and not to those findings:

    VERIF_C19_NO_EXOTIC=1 VERIF_JOBS=6 /venv/bin/python -m vf.selftest C19
"""

F = "piquasso/dual_rail_encoding.py"

MUTANTS = [{'name': 'h-rail-order-swapped',
  'edits': [{'file': 'piquasso/dual_rail_encoding.py',
             'old': '    instructions.append(pq.Beamsplitter(np.pi / 4).on_modes(mode1, mode2))\n',
             'new': '    instructions.append(pq.Beamsplitter(np.pi / 4).on_modes(mode2, mode1))\n'}]},
 {'name': 'rz-angle-sign',
  'edits': [{'file': 'piquasso/dual_rail_encoding.py',
             'old': '    instructions.append(pq.Phaseshifter(-1 / 2 * theta).on_modes(mode1))\n'
                    '    instructions.append(pq.Phaseshifter(1 / 2 * theta).on_modes(mode2))\n',
             'new': '    instructions.append(pq.Phaseshifter(1 / 2 * theta).on_modes(mode1))\n'
                    '    instructions.append(pq.Phaseshifter(-1 / 2 * theta).on_modes(mode2))\n'}]},
 {'name': 'u-gate-phi-lambda-swapped',
  'edits': [{'file': 'piquasso/dual_rail_encoding.py',
             'old': '    instructions.append(pq.Phaseshifter(lam).on_modes(mode2))\n'
                    '    instructions.append(pq.Beamsplitter(theta / 2, 0).on_modes(mode1, mode2))\n'
                    '    instructions.append(pq.Phaseshifter(phi).on_modes(mode2))\n',
             'new': '    instructions.append(pq.Phaseshifter(phi).on_modes(mode2))\n'
                    '    instructions.append(pq.Beamsplitter(theta / 2, 0).on_modes(mode1, mode2))\n'
                    '    instructions.append(pq.Phaseshifter(lam).on_modes(mode2))\n'}]},
 {'name': 'y-gate-missing-phase',
  'edits': [{'file': 'piquasso/dual_rail_encoding.py',
             'old': '    instructions.append(pq.Beamsplitter(-np.pi / 2, np.pi / 2).on_modes(mode1, mode2))\n'
                    '    instructions.append(pq.Phaseshifter(np.pi).on_modes(mode2))\n',
             'new': '    instructions.append(pq.Beamsplitter(-np.pi / 2, np.pi / 2).on_modes(mode1, mode2))\n'}]},
 {'name': 'cx-control-target-swapped',
  'edits': [{'file': 'piquasso/dual_rail_encoding.py',
             'old': '    H_instruction_1 = _hadamard_bosonic(modes[2], modes[3])\n',
             'new': '    H_instruction_1 = _hadamard_bosonic(modes[0], modes[1])\n'},
            {'file': 'piquasso/dual_rail_encoding.py',
             'old': '    H_instruction_2 = _hadamard_bosonic(modes[2], modes[3])\n',
             'new': '    H_instruction_2 = _hadamard_bosonic(modes[0], modes[1])\n'}]},
 {'name': 'cz-herald-pattern',
  'edits': [{'file': 'piquasso/dual_rail_encoding.py', 'old': '            photon_counts=[1, 1],\n', 'new': '            photon_counts=[0, 2],\n'}]},
 {'name': 'cz-second-angle-coarser',
  'edits': [{'file': 'piquasso/dual_rail_encoding.py',
             'old': '    cz_beamsplitter_second_theta_value = 17.63 / 180 * np.pi\n',
             'new': '    cz_beamsplitter_second_theta_value = 17.5 / 180 * np.pi\n'}]},
 {'name': 'if-test-condition-bit-index',
  'edits': [{'file': 'piquasso/dual_rail_encoding.py',
             'old': '        two_mode_outcomes = [(outcomes[qubit_index * 2], outcomes[qubit_index * 2 + 1])]\n',
             'new': '        two_mode_outcomes = [(outcomes[-2], outcomes[-1])]\n'}]},
 {'name': 'if-test-value-ignored',
  'edits': [{'file': 'piquasso/dual_rail_encoding.py',
             'old': '        return qubit_outcome == measurement_value\n',
             'new': '        return qubit_outcome == 1\n'}]},
 {'name': 'if-test-only-first-body-instruction-conditioned',
  'edits': [{'file': 'piquasso/dual_rail_encoding.py',
             'old': '            for instr in instr_list:\n                instructions.append(instr.when(condition))\n',
             'new': '            for n_, instr in enumerate(instr_list):\n'
                    '                instructions.append(instr.when(condition) if n_ == 0 else instr)\n'}]},
 {'name': 'decoder-zero-one-swapped',
  'edits': [{'file': 'piquasso/dual_rail_encoding.py',
             'old': '            if two_modes_outcome == _zero_bosonic_qubit_state:\n'
                    '                qubit_samples.append(0)\n'
                    '            elif two_modes_outcome == _one_bosonic_qubit_state:\n'
                    '                qubit_samples.append(1)\n',
             'new': '            if two_modes_outcome == _zero_bosonic_qubit_state:\n'
                    '                qubit_samples.append(1)\n'
                    '            elif two_modes_outcome == _one_bosonic_qubit_state:\n'
                    '                qubit_samples.append(0)\n'}]},
 {'name': 'phase-gate-on-zero-rail',
  'edits': [{'file': 'piquasso/dual_rail_encoding.py',
             'old': '        instructions.extend(_phase_gate_bosonic(qiskit_instruction.params[0], modes[1]))\n',
             'new': '        instructions.extend(_phase_gate_bosonic(qiskit_instruction.params[0], modes[0]))\n'}]}]
