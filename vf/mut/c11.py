"""Single-edit property-breaking changes for C11 used by vf.selftest (applied to a scratch copy only).

Python-level only (native kernels are not rebuilt for these). 'expect' names the mechanism that
should fire in the quick tier. Since "C11: ... per-shard choices, 15 history shards" every one of the
15 sampling programs is scheduled in a quick run and shard p uses perturbations
PERTURBATIONS[1 + (3p + seed + j) % 9], j = 0..2; before that change a quick run at VERIF_SEED=0 ran
programs #0..#9 with the same three perturbations everywhere (no 'other-execution-before', no
random-* draws, no fgaussian program), which is what the last two entries were written to probe.
"""

GSTEPS = "piquasso/_simulators/gaussian/simulation_steps.py"
PSAMPLING = "piquasso/_simulators/passive/sampling.py"
CONFIG = "piquasso/api/config.py"
FG_STEPS = "piquasso/fermionic/gaussian/simulation_steps.py"

MUTANTS = [
    # threshold sampling (torontonian path) draws from numpy's global generator instead of config.rng
    {"name": "torontonian-sampler-uses-np-random-global",
     "expect": "samples-depend-on-history:gaussian:none (ThresholdMeasurement(torontonian))",
     "edits": [{"file": GSTEPS,
                "old": "            guess = rng.uniform()\n",
                "new": "            guess = np.random.uniform()\n"}]},
    # Clifford & Clifford sampler: the photon that enters next is chosen with numpy's global generator
    {"name": "passive-sampler-input-order-from-np-random-global",
     "expect": "samples-depend-on-history:passive:none",
     "edits": [{"file": PSAMPLING,
                "old": "    random_index = rng.choice(len(to_shrink))\n",
                "new": "    random_index = np.random.choice(len(to_shrink))\n"}]},
    # homodyne / heterodyne / general-dyne outcomes from the legacy global numpy API
    {"name": "generaldyne-sampler-uses-np-random-global",
     "expect": "samples-depend-on-history:gaussian:none (Homodyne / Heterodyne)",
     "edits": [{"file": GSTEPS,
                "old": "    return state._config.rng.multivariate_normal(\n",
                "new": "    return np.random.multivariate_normal(\n"}]},
    # Gaussian particle-number sampling: the serial path takes per-shot seeds from config.rng, the dask path keeps seed + idx
    {"name": "gaussian-pnm-serial-path-seeds-from-shared-rng",
     "expect": "samples-depend-on-dask:gaussian:ParticleNumberMeasurement / ThresholdMeasurement",
     "edits": [{"file": GSTEPS,
                "old": "            sample = _generate_sample_from_seed(seed=seed + idx)\n",
                "new": "            sample = _generate_sample_from_seed(seed=config.rng.integers(2**63))\n"}]},
    # Config no longer reseeds the process-global `random` module that the Fock samplers still draw from
    {"name": "config-does-not-seed-random-module",
     "expect": "samples-depend-on-history:purefock:none (two pristine processes disagree)",
     "edits": [{"file": CONFIG,
                "old": "        self.rng = np.random.default_rng(self._seed_sequence)\n        random.seed(self._seed_sequence)\n",
                "new": "        self.rng = np.random.default_rng(self._seed_sequence)\n"}]},
    # Config.copy() (taken by every Simulator) gives the copy a fresh, unseeded generator
    {"name": "config-copy-fresh-unseeded-rng",
     "expect": "samples-depend-on-history:*:none for every sampler that uses config.rng",
     "edits": [{"file": CONFIG,
                "old": "        config_copy.rng = self.rng\n",
                "new": "        config_copy.rng = np.random.default_rng()\n"}]},
    # per-shot seeds advance with a process-global shot counter ("a reused simulator must not repeat itself", done globally)
    {"name": "passive-per-shot-seed-offset-is-process-global",
     "expect": "samples-depend-on-history:passive:other-execution-before (passive-loss shard at VERIF_SEED=0)",
     "edits": [{"file": PSAMPLING,
                "old": "    seed = config.seed_sequence\n",
                "new": "    seed = config.seed_sequence + getattr(_generate_samples, \"_shots_drawn\", 0)\n"
                       "    _generate_samples._shots_drawn = getattr(_generate_samples, \"_shots_drawn\", 0) + shots\n"}]},
    # fermionic Gaussian chain-rule sampler draws from the process-global `random` module
    {"name": "fgaussian-sampler-uses-random-module",
     "expect": "samples-depend-on-history:fgaussian:draw-between-config-and-sim (fgaussian-pnm shard at VERIF_SEED=0)",
     "edits": [{"file": FG_STEPS,
                "old": "from fractions import Fraction\nfrom functools import lru_cache\n",
                "new": "import random\n\nfrom fractions import Fraction\nfrom functools import lru_cache\n"},
               {"file": FG_STEPS,
                "old": "            if rng.uniform() < conditional_probability:\n",
                "new": "            if random.random() < conditional_probability:\n"}]},
    # partially distinguishable boson sampling: the split into (in)distinguishable photons uses numpy's global generator.
    # Probe: none of c11.sampling_programs prepares a DistinguishableNumberState.
    {"name": "distinguishable-split-uses-np-random-global",
     "expect": "none expected: no C11 sampling program reaches _separate_particles",
     "edits": [{"file": PSAMPLING,
                "old": "        K_j = rng.choice(n_j + 1, p=probabilities)\n",
                "new": "        K_j = np.random.choice(n_j + 1, p=probabilities)\n"}]},
]
