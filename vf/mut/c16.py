"""Single-edit breaks for C16 used by vf.selftest (applied to a scratch copy only)."""

MUTANTS = [
    {'name': 'gaussian-passive-aux-sorted-modes',
     'edits': [{'file': 'piquasso/_simulators/gaussian/simulation_steps.py',
                'old': '    auxiliary_index = get_auxiliary_operator_index(modes, auxiliary_modes)\n'
                       '\n'
                       '    state._C = connector.assign(\n'
                       '        state._C, auxiliary_index, T.conjugate() @ state._C[auxiliary_index]\n',
                'new': '    auxiliary_index = get_auxiliary_operator_index(tuple(sorted(modes)), auxiliary_modes)\n'
                       '\n'
                       '    state._C = connector.assign(\n'
                       '        state._C, auxiliary_index, T.conjugate() @ state._C[auxiliary_index]\n'}]},
    {'name': 'gaussian-linear-aux-transpose-sorted-modes',
     'edits': [{'file': 'piquasso/_simulators/gaussian/simulation_steps.py',
                'old': '        state._C, assign_index, state._C[modes, :].conjugate().transpose()\n',
                'new': '        state._C, assign_index, state._C[sorted(modes), :].conjugate().transpose()\n'}]},
    {'name': 'simulator-remap-inverse-off-by-one',
     'edits': [{'file': 'piquasso/api/simulator.py',
                'old': '        return tuple(active_modes[mode] for mode in modes_to_remap)\n',
                'new': '        return tuple(active_modes[mode - 1] for mode in modes_to_remap)\n'}]},
    {'name': 'passive-apply-matrix-uses-remapped-modes',
     'edits': [{'file': 'piquasso/_simulators/passive/simulation_steps.py',
                'old': '        embedded, fallback_np.ix_(actual_modes, actual_modes), matrix\n',
                'new': '        embedded, fallback_np.ix_(modes, modes), matrix\n'}]},
    {'name': 'purefock-index-list-sorted-modes',
     'edits': [{'file': 'piquasso/_simulators/fock/pure/simulation_steps/passive_linear.py',
                'old': '        index_list = calculate_index_list_for_appling_interferometer(\n'
                       '            modes,\n'
                       '            d,\n'
                       '            cutoff,\n'
                       '        )\n'
                       '\n'
                       '        new_state_vector = _calculate_state_vector_after_interferometer(\n',
                'new': '        index_list = calculate_index_list_for_appling_interferometer(\n'
                       '            tuple(sorted(modes)),\n'
                       '            d,\n'
                       '            cutoff,\n'
                       '        )\n'
                       '\n'
                       '        new_state_vector = _calculate_state_vector_after_interferometer(\n'}]},
    {'name': 'fock-index-list-sorted-modes',
     'edits': [{'file': 'piquasso/_simulators/fock/general/simulation_steps.py',
                'old': '    index_list = calculate_index_list_for_appling_interferometer(\n'
                       '        modes,\n'
                       '        state.d,\n',
                'new': '    index_list = calculate_index_list_for_appling_interferometer(\n'
                       '        tuple(sorted(modes)),\n'
                       '        state.d,\n'}]},
    {'name': 'outcome-concatenated-reversed',
     'edits': [{'file': 'piquasso/api/simulator.py',
                'old': '                subbranch.outcome = tuple([*branch.outcome, *subbranch.outcome])\n',
                'new': '                subbranch.outcome = tuple([*subbranch.outcome, *branch.outcome])\n'}]},
    {'name': 'projection-sorted-modes',
     'edits': [{'file': 'piquasso/_simulators/fock/simulation_steps.py',
                'old': '    basis[:, modes] = basis_vector\n',
                'new': '    basis[:, sorted(modes)] = basis_vector\n'}]},
    {'name': 'fgaussian-passive-rows-sorted',
     'edits': [{'file': 'piquasso/fermionic/gaussian/simulation_steps.py',
                'old': '    select_rows = fallback_np.ix_(modes, all_modes)\n',
                'new': '    select_rows = fallback_np.ix_(sorted(modes), all_modes)\n'}]},
    # covariant under relabelling and exchanges (every fermionic tuple is ascending): only the independent routing oracle of
    # the deterministic-sampler pairs sees it
    {'name': 'ffock-index-list-gate-modes-reversed',
     'edits': [{'file': 'piquasso/_simulators/connectors/connections.py',
                'old': '                for idx, mode in enumerate(modes):\n'
                       '                    all_occupation_numbers[mode] = column_vector_on_subspace[idx]\n',
                'new': '                for idx, mode in enumerate(modes):\n'
                       '                    all_occupation_numbers[mode] = column_vector_on_subspace[len(modes) - 1 - idx]\n'}]},
]
