"""Executes one *history* (C11) in a fresh interpreter and prints what it recorded.

python -m vf.history_child <history.json>   ->  JSON {"records": {name: samples}, "errors": [...]}

history = {"programs": {name: program document}, "actions": [...]}
actions:
  {"op": "config", "as": c, "seed": s, "extra": {...}}
  {"op": "sim", "as": s, "config": c, "kind": "purefock", "d": 3}
  {"op": "execute", "sim": s, "program": p, "shots": N, "record": r | null}
  {"op": "random_draw", "n": k} | {"op": "np_random_draw", "n": k} | {"op": "random_seed", "value": v}
  {"op": "np_random_seed", "value": v} | {"op": "gc"} | {"op": "dask", "scheduler": "threads"|"synchronous", "workers": k}
  {"op": "dask_cpu_count", "value": k}
"""

import gc
import json
import random
import sys


def main():
    from vf import boot

    pq = boot.import_piquasso()
    import numpy as np
    from vf.gen import programs as G

    with open(sys.argv[1]) as fh:
        hist = json.load(fh)
    objs = {}
    records = {}
    errors = []
    for a in hist["actions"]:
        op = a["op"]
        try:
            if op == "config":
                kw = dict(a.get("extra", {}))
                if "dtype" in kw:
                    kw["dtype"] = {"float64": np.float64, "float32": np.float32}[kw["dtype"]]
                objs[a["as"]] = pq.Config(seed_sequence=a["seed"], **kw)
            elif op == "sim":
                objs[a["as"]] = G.SIMS[a["kind"]](pq)(d=a["d"], config=objs[a["config"]])
            elif op == "execute":
                prog = G.build_program_adaptive(pq, hist["programs"][a["program"]]["ins"])
                res = objs[a["sim"]].execute(prog, shots=a["shots"])
                if a.get("record"):
                    records[a["record"]] = [[float(v) for v in s] for s in res.samples]
            elif op == "random_draw":
                for _ in range(a.get("n", 1)):
                    random.random()
            elif op == "np_random_draw":
                np.random.random(a.get("n", 1))
            elif op == "random_seed":
                random.seed(a["value"])
            elif op == "np_random_seed":
                np.random.seed(a["value"])
            elif op == "gc":
                gc.collect()
            elif op == "dask_cpu_count":
                # what dask believes about the machine (cgroup / affinity dependent in reality)
                import dask.system

                dask.system.CPU_COUNT = int(a["value"])
            elif op == "dask":
                import dask

                if a["scheduler"] == "synchronous":
                    dask.config.set(scheduler="synchronous")
                else:
                    dask.config.set(scheduler="threads", num_workers=a.get("workers", 4))
        except Exception as e:  # recorded, judged by the parent
            errors.append({"action": a, "error": "%s: %s" % (type(e).__name__, str(e)[:200])})
    json.dump({"records": records, "errors": errors}, sys.stdout)
    sys.stdout.flush()
    import os

    os._exit(0)


if __name__ == "__main__":
    main()
