"""Hand-written single-edit breaks used by vf.selftest (sensitivity of the checks).
Each must keep the package importable. They are applied to a scratch copy only."""

EX = "piquasso/core/_expressions.py"

MUTANTS = {
    "C20": [
        {"name": "and-no-shortcircuit", "edits": [{"file": EX, "old": "                    if not result:  # falsy → return immediately\n                        return result\n", "new": ""}]},
        {"name": "compare-chain-keeps-left", "edits": [{"file": EX, "old": "                left = right\n", "new": ""}]},
        {"name": "allow-attribute", "edits": [{"file": EX, "old": "        ast.Constant,\n", "new": "        ast.Constant,\n        ast.Attribute,\n"}]},
        {"name": "allow-string-constants", "edits": [{"file": EX, "old": "            if isinstance(n, ast.Constant) and not isinstance(\n                n.value, (int, float, bool)\n            ):", "new": "            if isinstance(n, ast.Constant) and not isinstance(\n                n.value, (int, float, bool, str)\n            ):"}]},
        {"name": "xor-is-power", "edits": [{"file": EX, "old": "ast.BitXor: op.xor", "new": "ast.BitXor: op.pow"}]},
        {"name": "any-name", "edits": [{"file": EX, "old": 'if isinstance(n, ast.Name) and n.id != "x":', "new": 'if isinstance(n, ast.Name) and n.id.startswith("__"):'}]},
        {"name": "slice-step-ignored", "edits": [{"file": EX, "old": "return seq[slice(start, stop, step)]", "new": "return seq[slice(start, stop)]"}]},
        {"name": "eval-based", "edits": [{"file": EX, "old": "        x = x if x is not None else tuple()\n        return self._eval(self._tree.body, x)", "new": "        x = x if x is not None else tuple()\n        return eval(compile(self._tree, '<e>', 'eval'), {'__builtins__': {}}, {'x': x})"}]},
        {"name": "or-returns-bool", "edits": [{"file": EX, "old": "                    if result:  # truthy → return immediately\n                        return result\n", "new": "                    if result:  # truthy → return immediately\n                        return True\n"}]},
        {"name": "mod-is-fmod", "edits": [{"file": EX, "old": "import ast\n", "new": "import ast\nimport math\n"}, {"file": EX, "old": "ast.Mod: op.mod", "new": "ast.Mod: math.fmod"}]},
    ],
}
