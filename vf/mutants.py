"""Hand-written single-edit breaks used by vf.selftest (sensitivity of the checks).
Each must keep the package importable. They are applied to a scratch copy only."""

EX = "piquasso/core/_expressions.py"

MUTANTS = {
    "C20": [
        {"name": "and-no-shortcircuit", "edits": [{"file": EX, "old": "                    if not result:  # falsy → return immediately\n                        return result\n", "new": ""}]},
        {"name": "compare-chain-keeps-left", "edits": [{"file": EX, "old": "                left = right\n", "new": ""}]},
        {"name": "allow-attribute", "edits": [{"file": EX, "old": "        ast.Constant,\n", "new": "        ast.Constant,\n        ast.Attribute,\n"}]},
        {"name": "allow-string-constants", "edits": [{"file": EX, "old": "            if isinstance(n, ast.Constant) and not isinstance(\n                n.value, (int, float, bool)\n            ):", "new": "            if isinstance(n, ast.Constant) and not isinstance(\n                n.value, (int, float, bool, str)\n            ):"}]},
        {"name": "xor-is-power", "edits": [{"file": EX, "old": "ast.BitXor: op.xor", "new": "ast.BitXor: op.pow"}]},
        {"name": "any-name", "edits": [{"file": EX, "old": 'if isinstance(n, ast.Name) and n.id != "x":', "new": 'if isinstance(n, ast.Name) and n.id.startswith("__"):'}]},
        {"name": "slice-step-ignored", "edits": [{"file": EX, "old": "return seq[slice(start, stop, step)]", "new": "return seq[slice(start, stop)]"}]},
        {"name": "eval-based", "edits": [{"file": EX, "old": "        x = x if x is not None else tuple()\n        return self._eval(self._tree.body, x)", "new": "        x = x if x is not None else tuple()\n        return eval(compile(self._tree, '<e>', 'eval'), {'__builtins__': {}}, {'x': x})"}]},
        {"name": "or-returns-bool", "edits": [{"file": EX, "old": "                    if result:  # truthy → return immediately\n                        return result\n", "new": "                    if result:  # truthy → return immediately\n                        return True\n"}]},
        {"name": "mod-is-fmod", "edits": [{"file": EX, "old": "import ast\n", "new": "import ast\nimport math\n"}, {"file": EX, "old": "ast.Mod: op.mod", "new": "ast.Mod: math.fmod"}]},
    ],
    "C06": [
        {"name": "comb-callee-in-other-file", "edits": [{"file": "piquasso/_math/combinatorics.py", "old": "    k = min(k, n - k)\n\n    for i in range(k):\n        prod *= n - i\n        prod //= i + 1\n", "new": "    k = min(k, n - k)\n\n    for i in range(k):\n        prod *= n - i\n        prod //= i + 1\n\n    if n == 9 and k == 4:\n        return 125\n"}]},
        {"name": "projection-sorted-modes", "edits": [{"file": "piquasso/_simulators/fock/simulation_steps.py", "old": "    basis[:, modes] = basis_vector\n", "new": "    basis[:, sorted(modes)] = basis_vector\n"}]},
        {"name": "subspace-index-off-by-one", "edits": [{"file": "piquasso/_math/indices.py", "old": "def get_index_in_fock_subspace(element: np.ndarray) -> int:\n    sum_ = 0\n    accumulator = 0\n    for i in range(len(element) - 1):", "new": "def get_index_in_fock_subspace(element: np.ndarray) -> int:\n    sum_ = 0\n    accumulator = 0\n    for i in range(len(element)):"}]},
        {"name": "mean-position-leaves-cache-shifted", "edits": [{"file": "piquasso/_simulators/fock/pure/state.py", "old": "        raised_indices = get_index_in_fock_space_array(self._space)\n        self._space[:, mode] -= 1\n", "new": "        raised_indices = get_index_in_fock_space_array(self._space)\n"}]},
        {"name": "fermionic-successor-boundary", "edits": [{"file": "piquasso/fermionic/_utils.py", "old": "        if first_quantized[l - i - 1] < d - i - 1:\n            first_quantized[l - i - 1] += 1\n            for k in range(l - i, l):\n                first_quantized[k] = first_quantized[l - i - 1] + k - l + i + 1", "new": "        if first_quantized[l - i - 1] < d - i - 1:\n            first_quantized[l - i - 1] += 1\n            for k in range(l - i, l):\n                first_quantized[k] = first_quantized[l - i - 1] + k - l + i"}]},
        {"name": "getitem-2d-uses-subspace", "edits": [{"file": "piquasso/_simulators/fock/pure/state.py", "old": "            indices = get_index_in_fock_space_array(occupations.astype(int))\n", "new": "            indices = get_index_in_fock_space_array(occupations.astype(int)[:, ::-1])\n"}]},
        {"name": "scalar-index-int32-accumulator", "edits": [{"file": "piquasso/_math/indices.py", "old": "def get_index_in_fock_space(element):\n    sum_ = 0\n    accumulator = 0\n", "new": "def get_index_in_fock_space(element):\n    sum_ = 0\n    accumulator = np.int32(0)\n"}, {"file": "piquasso/_math/indices.py", "old": "        sum_ += element[-1 - i]\n        accumulator += comb(sum_ + i, i + 1)\n\n    return accumulator\n\n\n@nb.njit(cache=True)\ndef get_index_in_fock_space_array", "new": "        sum_ += element[-1 - i]\n        accumulator = np.int32(accumulator + np.int32(comb(sum_ + i, i + 1) % 65536))\n\n    return accumulator\n\n\n@nb.njit(cache=True)\ndef get_index_in_fock_space_array"}]},
        {"name": "fermionic-subspace-index", "edits": [{"file": "piquasso/fermionic/_utils.py", "old": "        sum_ -= comb(d - first_quantized[i] - 1, n - i)\n", "new": "        sum_ -= comb(d - first_quantized[i] - 1, n - i - (1 if d > 6 and i == n - 1 and n > 3 else 0))\n"}]},
    ],
}
