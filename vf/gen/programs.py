"""Replayable program documents and seeded program generators.

A *program document* is pure JSON:

  {"sim": "purefock" | "fock" | "gaussian" | "passive" | "fgaussian" | "ffock",
   "d": 3, "config": {"cutoff": 5, "hbar": 2.0, "dtype": "float64", "seed_sequence": 7, ...},
   "connector": "numpy",
   "ins": [{"t": "Beamsplitter", "m": [2, 0], "p": {"theta": 0.3, "phi": 0.1},
            "when": "x[0] == 1"}, ...],
   "shots": 1 | null}

`build(doc)` returns (simulator, program); `execute(doc)` runs it. Matrices are encoded with
vf.gen.matrices.enc (exact doubles).
"""

import numpy as np

from vf.gen import matrices as M

SIMS = {
    "purefock": lambda pq: pq.PureFockSimulator,
    "fock": lambda pq: pq.FockSimulator,
    "gaussian": lambda pq: pq.GaussianSimulator,
    "passive": lambda pq: pq.PassiveSimulator,
    "fgaussian": lambda pq: pq.fermionic.GaussianSimulator,
    "ffock": lambda pq: pq.fermionic.PureFockSimulator,
}

PASSIVE_GATES = ("Interferometer", "Beamsplitter", "Beamsplitter5050", "Phaseshifter", "MachZehnder", "Fourier")
ACTIVE_GATES = ("Squeezing", "QuadraticPhase", "Squeezing2", "GaussianTransform", "ControlledX", "ControlledZ")
DISPLACEMENTS = ("Displacement", "PositionDisplacement", "MomentumDisplacement")
NUMBER_CONSERVING_NONLINEAR = ("Kerr", "CrossKerr", "SNAP")
ARITY = {
    "Beamsplitter": 2, "Beamsplitter5050": 2, "Phaseshifter": 1, "MachZehnder": 2, "Fourier": 1,
    "Squeezing": 1, "QuadraticPhase": 1, "Squeezing2": 2, "ControlledX": 2, "ControlledZ": 2,
    "Displacement": 1, "PositionDisplacement": 1, "MomentumDisplacement": 1, "Kerr": 1, "CrossKerr": 2,
    "SNAP": 1, "CubicPhase": 1, "Loss": 1,
}


# ------------------------------------------------------------------ building
def _dec_param(name, v):
    if isinstance(v, dict) and "__nd__" in v:
        return M.dec(v)
    if isinstance(v, dict) and "__c__" in v:
        return complex(v["__c__"][0], v["__c__"][1])
    if isinstance(v, dict) and "__map__" in v:
        return {tuple(k): _dec_param(None, a) for k, a in v["__map__"]}
    if name in ("occupation_numbers", "photon_counts", "ket", "bra") and isinstance(v, list):
        return tuple(v)
    return v


def enc_complex(z):
    z = complex(z)
    return {"__c__": [z.real, z.imag]}


def enc_map(m):
    return {"__map__": [[list(k), enc_complex(v)] for k, v in m.items()]}


def build_instruction(pq, idoc):
    cls = getattr(pq, idoc["t"])
    params = {k: _dec_param(k, v) for k, v in idoc.get("p", {}).items()}
    ins = cls(**params)
    if idoc.get("mul") is not None:
        ins = ins * _dec_param(None, idoc["mul"])
    if idoc.get("when") is not None:
        ins = ins.when(idoc["when"])
    return ins


def build_program(pq, ins_docs):
    instructions = []
    for idoc in ins_docs:
        ins = build_instruction(pq, idoc)
        m = idoc.get("m")
        if m is not None:
            ins = ins.on_modes(*m)
        instructions.append(ins)
    return pq.Program(instructions=instructions)


def build_config(pq, cdoc):
    kw = dict(cdoc or {})
    if "dtype" in kw:
        kw["dtype"] = {"float64": np.float64, "float32": np.float32}[kw["dtype"]]
    return pq.Config(**kw)


def build_connector(pq, name):
    return {None: None, "numpy": None, "tensorflow": pq.TensorflowConnector, "jax": pq.JaxConnector}[name]


def build(pq, doc):
    simcls = SIMS[doc["sim"]](pq)
    conn = build_connector(pq, doc.get("connector"))
    sim = simcls(d=doc["d"], config=build_config(pq, doc.get("config")), connector=conn() if conn else None)
    return sim, build_program(pq, doc["ins"])


def execute(pq, doc):
    sim, prog = build(pq, doc)
    return sim.execute(prog, shots=doc.get("shots", 1))


# ------------------------------------------------------------------ parameters
SPECIAL_ANGLES = [0.0, np.pi / 4, -np.pi / 4, np.pi / 2, -np.pi / 2, np.pi, -np.pi, 2 * np.pi, 1e-12]


def angle(rng, special=0.25):
    if rng.random() < special:
        return float(rng.choice(SPECIAL_ANGLES))
    return float(rng.uniform(-np.pi, np.pi))


def small(rng, scale):
    k = rng.random()
    if k < 0.08:
        return 0.0
    if k < 0.12:
        return 1e-12
    return float(rng.uniform(-scale, scale))


def ordered_subset(rng, d, k):
    """Random *ordered* k-subset of range(d): descending, interleaved and non-adjacent included."""
    return [int(m) for m in rng.permutation(d)[:k]]


def mode_pattern(modes):
    if len(modes) <= 1:
        return "single"
    asc = list(modes) == sorted(modes)
    adj = all(abs(a - b) == 1 for a, b in zip(modes, modes[1:]))
    return ("asc" if asc else ("desc" if list(modes) == sorted(modes, reverse=True) else "mixed")) + ("-adj" if adj else "-gap")


def gate(rng, name, d, active_scale=0.35, disp_scale=0.5, modes=None, cutoff=None):
    """Instruction document of gate `name` on a random ordered mode subset."""
    p = {}
    k = ARITY.get(name)
    if name == "Interferometer":
        k = int(rng.integers(1, d + 1))
        u, kind = M.structured_unitary(rng, k)
        p = {"matrix": M.enc(u)}
    elif name == "GaussianTransform":
        k = int(rng.integers(1, min(d, 3) + 1))
        P, A = M.symplectic_blocks(rng, k, rmax=active_scale, degenerate=rng.random() < 0.25)
        p = {"passive": M.enc(P), "active": M.enc(A)}
    elif name == "Beamsplitter":
        p = {"theta": angle(rng), "phi": angle(rng)}
    elif name == "Phaseshifter":
        p = {"phi": angle(rng)}
    elif name == "MachZehnder":
        p = {"int_": angle(rng), "ext": angle(rng)}
    elif name in ("Squeezing", "Squeezing2"):
        p = {"r": small(rng, active_scale), "phi": angle(rng)}
    elif name == "QuadraticPhase":
        p = {"s": small(rng, active_scale)}
    elif name in ("ControlledX", "ControlledZ"):
        p = {"s": small(rng, active_scale)}
    elif name == "Displacement":
        p = {"r": abs(small(rng, disp_scale)), "phi": angle(rng)}
    elif name == "PositionDisplacement":
        p = {"x": small(rng, disp_scale)}
    elif name == "MomentumDisplacement":
        p = {"p": small(rng, disp_scale)}
    elif name in ("Kerr", "CrossKerr"):
        p = {"xi": angle(rng)}
    elif name == "CubicPhase":
        p = {"gamma": small(rng, 0.1)}
    elif name == "SNAP":
        # the SNAP phase vector must have one entry per photon number below the cutoff
        p = {"theta": M.enc(rng.uniform(-np.pi, np.pi, size=int(cutoff) if cutoff else int(rng.integers(1, 5))))}
    elif name == "Attenuator":
        k = 1
        p = {"theta": angle(rng, 0.15), "mean_thermal_excitation": 0}
    elif name in ("Beamsplitter5050", "Fourier"):
        p = {}
    else:
        raise KeyError(name)
    if modes is None:
        if k > d:
            return None
        modes = ordered_subset(rng, d, k)
    return {"t": name, "m": list(modes), "p": p}


def number_state(rng, d, nmax, bunched=None):
    """Occupation vector with total <= nmax (bunched inputs included)."""
    n = int(rng.integers(0, nmax + 1))
    occ = [0] * d
    for _ in range(n):
        occ[int(rng.integers(0, d))] += 1
    if bunched and n >= 2:
        occ = [0] * d
        occ[int(rng.integers(0, d))] = n
    return occ


def superposition(rng, d, nmax, terms=3, same_n=False):
    """FockStateVector document: normalised superposition of number states."""
    occs = []
    n_fixed = int(rng.integers(0, nmax + 1))
    for _ in range(terms * 3):
        o = number_state(rng, d, nmax)
        if same_n:
            o = [0] * d
            for _ in range(n_fixed):
                o[int(rng.integers(0, d))] += 1
        if o not in occs:
            occs.append(o)
        if len(occs) == terms:
            break
    amps = rng.normal(size=len(occs)) + 1j * rng.normal(size=len(occs))
    amps = amps / np.linalg.norm(amps)
    return {"t": "FockStateVector", "m": None, "p": {"fock_amplitude_map": enc_map({tuple(o): a for o, a in zip(occs, amps)})}}, occs, amps


def class_key(doc, extra=""):
    """Structural class of a program document (for distinct_nontrivial)."""
    types = sorted(i["t"] for i in doc["ins"])
    pats = sorted({mode_pattern(i["m"]) for i in doc["ins"] if i.get("m")})
    cfg = doc.get("config", {})
    return "%s|d%d|c%s|h%s|%s|%s|%s%s" % (
        doc["sim"], doc["d"], cfg.get("cutoff"), cfg.get("hbar"), cfg.get("dtype", "f64"),
        ",".join(types), "/".join(pats), extra)


# ------------------------------------------------------------------ adaptive programs
CALLABLES = {
    "last_pos": lambda x: x[-1] > 0,
    "first_zero": lambda x: x[0] == 0,
    "sum_even": lambda x: sum(x) % 2 == 0,
    "always": lambda x: True,
    "never": lambda x: False,
    "half_first": lambda x: 0.5 * x[0],
    "neg_last": lambda x: -0.25 * x[-1],
}


def _apply_callables(pq, ins, idoc):
    """Callable conditions / parameters are referenced by name so that documents stay JSON."""
    return ins


def build_instruction_adaptive(pq, idoc):
    """Like build_instruction, plus {'__call__': name} parameters and 'when_call': name."""
    cls = getattr(pq, idoc["t"])
    params = {}
    for k, v in idoc.get("p", {}).items():
        if isinstance(v, dict) and "__call__" in v:
            params[k] = CALLABLES[v["__call__"]]
        else:
            params[k] = _dec_param(k, v)
    ins = cls(**params)
    if idoc.get("mul") is not None:
        ins = ins * _dec_param(None, idoc["mul"])
    if idoc.get("when") is not None:
        ins = ins.when(idoc["when"])
    elif idoc.get("when_call") is not None:
        ins = ins.when(CALLABLES[idoc["when_call"]])
    return ins


def build_program_adaptive(pq, ins_docs):
    instructions = []
    for idoc in ins_docs:
        ins = build_instruction_adaptive(pq, idoc)
        m = idoc.get("m")
        if m is not None:
            ins = ins.on_modes(*m)
        instructions.append(ins)
    return pq.Program(instructions=instructions)


def build_adaptive(pq, doc):
    simcls = SIMS[doc["sim"]](pq)
    sim = simcls(d=doc["d"], config=build_config(pq, doc.get("config")))
    return sim, build_program_adaptive(pq, doc["ins"])


def _cond(rng, n_out, float_outcomes=False):
    """A condition over an outcome tuple of length n_out (string or named callable)."""
    if n_out == 0:
        return {}
    k = rng.random()
    i = int(rng.integers(-n_out, n_out))
    if float_outcomes:
        return {"when": str(rng.choice(["x[%d] > 0.0", "x[%d] <= 0.1", "x[%d] * x[%d] >= 0"])) .replace("%d", str(i))}
    if k < 0.3:
        return {"when": "x[%d] == %d" % (i, int(rng.integers(0, 3)))}
    if k < 0.45:
        return {"when": "x[%d] > 0" % i}
    if k < 0.6:
        return {"when": "x[%d] %% 2 == 0 and x[%d] >= 0" % (i, int(rng.integers(-n_out, n_out)))}
    if k < 0.7:
        return {"when": "not x[%d] or x[%d] > 1" % (i, i)}
    if k < 0.8:
        return {"when": "0 < x[%d] <= 2" % i}
    return {"when_call": str(rng.choice(["last_pos", "first_zero", "sum_even", "always", "never"]))}


def _param_expr(rng, n_out, float_outcomes=False, bounded=False):
    """An outcome-dependent parameter (string expression or named callable) of float value.
    bounded: the parameter is not periodic (a shear / squeezing strength) and the outcome is a
    real number that may be noise dominated (the unmeasured quadrature of a homodyne outcome is
    ~1e3..1e4): the expression maps it into [-0.35, 0.45] so that the workload stays in the regime
    a float64 simulation resolves (DESIGN 7.4, C08 false alarm)."""
    i = int(rng.integers(-n_out, n_out))
    k = rng.random()
    if float_outcomes and bounded:
        return str(rng.choice(["(x[%d] > 0.0) * 0.6 - 0.25", "0.9 * x[%d] / (1.0 + x[%d] * x[%d])",
                               "0.3 - 0.5 * (x[%d] < 0.2)"])).replace("%d", str(i))
    if float_outcomes:
        return str(rng.choice(["x[%d] * 0.5", "0.3 - x[%d]", "x[%d] / 4"])) .replace("%d", str(i))
    if k < 0.3:
        return "x[%d] * 0.5" % i
    if k < 0.5:
        return "0.3 + x[%d] / 4" % i
    if k < 0.65:
        return "(x[%d] == 1) * 0.7 - 0.1" % i
    if k < 0.8:
        return "0.25 * (x[%d] - x[%d])" % (i, int(rng.integers(-n_out, n_out)))
    return {"__call__": str(rng.choice(["half_first", "neg_last"]))}


def adaptive_program(rng, sim="purefock", d=None, max_meas=2, allow_active=True, shots=None,
                     tight_cutoff=False, n_photons=None, hbar=2.0, postselect=True):
    """Adaptive program document: gates / partial measurements / conditioned and outcome-
    dependent instructions on the remaining modes. Returns the document."""
    d = d or int(rng.integers(2, 5))
    ins = []
    cfg = {"hbar": hbar}
    float_out = sim == "gaussian"
    if sim in ("purefock", "passive", "ffock"):
        n = n_photons if n_photons is not None else int(rng.integers(1, 4 if sim != "ffock" else d))
        if sim == "ffock":
            occ = [0] * d
            for m in rng.permutation(d)[: min(n, d)]:
                occ[int(m)] = 1
            n = sum(occ)
            cfg["cutoff"] = d + 1
        else:
            occ = number_state(rng, d, n)
            occ_total = sum(occ)
            n = occ_total
            cfg["cutoff"] = n + (1 if tight_cutoff else 3)
        ins.append({"t": "NumberState", "m": None, "p": {"occupation_numbers": occ}})
        if sim == "purefock" and rng.random() < 0.35 and n > 0:
            sp, occs, amps = superposition(rng, d, n, terms=3, same_n=True)
            ins[0] = sp
    elif sim == "gaussian":
        ins.append({"t": "Vacuum", "m": None, "p": {}})
    active = list(range(d))
    n_out = 0
    n_meas = int(rng.integers(1, max_meas + 1))
    passive_pool = ["Beamsplitter", "Phaseshifter", "Interferometer", "MachZehnder", "Fourier", "Beamsplitter5050"]
    if sim == "ffock":
        passive_pool = ["Beamsplitter", "Phaseshifter", "Interferometer"]
    for stage in range(n_meas + 1):
        ngates = int(rng.integers(1, 4))
        for _ in range(ngates):
            if len(active) == 0:
                break
            pool = list(passive_pool)
            if sim in ("purefock",) and allow_active:
                pool += ["Kerr", "CrossKerr", "Squeezing", "Displacement"]
            if sim == "passive":
                pool += ["Kerr", "CrossKerr"]
            if sim == "gaussian":
                pool += ["Squeezing", "Squeezing2", "Displacement", "QuadraticPhase", "GaussianTransform"]
            name = str(rng.choice(pool))
            k = ARITY.get(name)
            sub_d = len(active)
            g = gate(rng, name, sub_d, active_scale=0.2, disp_scale=0.3)
            if g is None:
                continue
            if sim == "ffock" and name in ("Beamsplitter", "Interferometer"):
                # fermionic gates act on consecutive modes
                kk = len(g["m"])
                start = int(rng.integers(0, sub_d - kk + 1))
                g["m"] = list(range(start, start + kk))
            g["m"] = [active[i] for i in g["m"]]
            if name == "Interferometer" and rng.random() < 0.25 and len(g["m"]) == len(active) and sim != "ffock":
                # all-mode instruction given through Q(): the executor fills in the active modes
                u = M.dec(g["p"]["matrix"])
                perm = np.argsort(g["m"])
                g["p"]["matrix"] = M.enc(u[np.ix_(perm, perm)])
                g["m"] = None
            if n_out > 0:
                r = rng.random()
                if r < 0.45:
                    g.update(_cond(rng, n_out, float_out))
                if r > 0.3 and name in ("Phaseshifter", "Kerr", "CrossKerr", "Squeezing", "Displacement", "QuadraticPhase", "Beamsplitter", "MachZehnder"):
                    key = {"Phaseshifter": "phi", "Kerr": "xi", "CrossKerr": "xi", "Squeezing": "phi",
                           "Displacement": "phi", "QuadraticPhase": "s", "Beamsplitter": "phi", "MachZehnder": "ext"}[name]
                    g["p"][key] = _param_expr(rng, n_out, float_out, bounded=key == "s")
                    # sometimes a second outcome-dependent parameter on the same instruction
                    second = {"Squeezing": "r", "Displacement": "r", "Beamsplitter": "theta", "MachZehnder": "int_"}.get(name)
                    if second is not None and rng.random() < 0.4:
                        e2 = _param_expr(rng, n_out, float_out)
                        if isinstance(e2, str) and name in ("Squeezing", "Displacement"):
                            e2 = "0.1 * ((%s) %% 2)" % e2 if not float_out else "0.05"
                        g["p"][second] = e2
            ins.append(g)
        if stage == n_meas or len(active) == 0:
            break
        # partial measurement on a random ordered subset of the active modes
        last = stage == n_meas - 1
        kmax = len(active) if last else len(active) - 1
        if kmax < 1:
            break
        k = int(rng.integers(1, kmax + 1))
        mm = [active[i] for i in ordered_subset(rng, len(active), k)]
        if sim == "gaussian":
            t = str(rng.choice(["HomodyneMeasurement", "HeterodyneMeasurement"]))
            p = {"phi": angle(rng)} if t == "HomodyneMeasurement" else {}
            ins.append({"t": t, "m": mm, "p": p})
            n_out += (2 if True else 1) * len(mm)
        elif postselect and sim in ("purefock", "passive") and rng.random() < 0.2:
            ins.append({"t": "PostSelectPhotons", "m": mm, "p": {"photon_counts": [int(rng.integers(0, 2)) for _ in mm]}})
        else:
            ins.append({"t": "ParticleNumberMeasurement", "m": mm, "p": {}})
            n_out += len(mm)
        active = [a for a in active if a not in mm]
    return {"sim": sim, "d": d, "config": cfg, "ins": ins, "shots": shots}
