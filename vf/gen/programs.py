"""Replayable program documents and seeded program generators.

A *program document* is pure JSON:

  {"sim": "purefock" | "fock" | "gaussian" | "passive" | "fgaussian" | "ffock",
   "d": 3, "config": {"cutoff": 5, "hbar": 2.0, "dtype": "float64", "seed_sequence": 7, ...},
   "connector": "numpy",
   "ins": [{"t": "Beamsplitter", "m": [2, 0], "p": {"theta": 0.3, "phi": 0.1},
            "when": "x[0] == 1"}, ...],
   "shots": 1 | null}

`build(doc)` returns (simulator, program); `execute(doc)` runs it. Matrices are encoded with
vf.gen.matrices.enc (exact doubles).
"""

import numpy as np

from vf.gen import matrices as M

SIMS = {
    "purefock": lambda pq: pq.PureFockSimulator,
    "fock": lambda pq: pq.FockSimulator,
    "gaussian": lambda pq: pq.GaussianSimulator,
    "passive": lambda pq: pq.PassiveSimulator,
    "fgaussian": lambda pq: pq.fermionic.GaussianSimulator,
    "ffock": lambda pq: pq.fermionic.PureFockSimulator,
}

PASSIVE_GATES = ("Interferometer", "Beamsplitter", "Beamsplitter5050", "Phaseshifter", "MachZehnder", "Fourier")
ACTIVE_GATES = ("Squeezing", "QuadraticPhase", "Squeezing2", "GaussianTransform", "ControlledX", "ControlledZ")
DISPLACEMENTS = ("Displacement", "PositionDisplacement", "MomentumDisplacement")
NUMBER_CONSERVING_NONLINEAR = ("Kerr", "CrossKerr", "SNAP")
ARITY = {
    "Beamsplitter": 2, "Beamsplitter5050": 2, "Phaseshifter": 1, "MachZehnder": 2, "Fourier": 1,
    "Squeezing": 1, "QuadraticPhase": 1, "Squeezing2": 2, "ControlledX": 2, "ControlledZ": 2,
    "Displacement": 1, "PositionDisplacement": 1, "MomentumDisplacement": 1, "Kerr": 1, "CrossKerr": 2,
    "SNAP": 1, "CubicPhase": 1, "Loss": 1,
}


# ------------------------------------------------------------------ building
def _dec_param(name, v):
    if isinstance(v, dict) and "__nd__" in v:
        return M.dec(v)
    if isinstance(v, dict) and "__c__" in v:
        return complex(v["__c__"][0], v["__c__"][1])
    if isinstance(v, dict) and "__map__" in v:
        return {tuple(k): _dec_param(None, a) for k, a in v["__map__"]}
    if name in ("occupation_numbers", "photon_counts", "ket", "bra") and isinstance(v, list):
        return tuple(v)
    return v


def enc_complex(z):
    z = complex(z)
    return {"__c__": [z.real, z.imag]}


def enc_map(m):
    return {"__map__": [[list(k), enc_complex(v)] for k, v in m.items()]}


def build_instruction(pq, idoc):
    cls = getattr(pq, idoc["t"])
    params = {k: _dec_param(k, v) for k, v in idoc.get("p", {}).items()}
    ins = cls(**params)
    if idoc.get("mul") is not None:
        ins = ins * _dec_param(None, idoc["mul"])
    if idoc.get("when") is not None:
        ins = ins.when(idoc["when"])
    return ins


def build_program(pq, ins_docs):
    instructions = []
    for idoc in ins_docs:
        ins = build_instruction(pq, idoc)
        m = idoc.get("m")
        if m is not None:
            ins = ins.on_modes(*m)
        instructions.append(ins)
    return pq.Program(instructions=instructions)


def build_config(pq, cdoc):
    kw = dict(cdoc or {})
    if "dtype" in kw:
        kw["dtype"] = {"float64": np.float64, "float32": np.float32}[kw["dtype"]]
    return pq.Config(**kw)


def build_connector(pq, name):
    return {None: None, "numpy": None, "tensorflow": pq.TensorflowConnector, "jax": pq.JaxConnector}[name]


def build(pq, doc):
    simcls = SIMS[doc["sim"]](pq)
    conn = build_connector(pq, doc.get("connector"))
    sim = simcls(d=doc["d"], config=build_config(pq, doc.get("config")), connector=conn() if conn else None)
    return sim, build_program(pq, doc["ins"])


def execute(pq, doc):
    sim, prog = build(pq, doc)
    return sim.execute(prog, shots=doc.get("shots", 1))


# ------------------------------------------------------------------ parameters
SPECIAL_ANGLES = [0.0, np.pi / 4, -np.pi / 4, np.pi / 2, -np.pi / 2, np.pi, -np.pi, 2 * np.pi, 1e-12]


def angle(rng, special=0.25):
    if rng.random() < special:
        return float(rng.choice(SPECIAL_ANGLES))
    return float(rng.uniform(-np.pi, np.pi))


def small(rng, scale):
    k = rng.random()
    if k < 0.08:
        return 0.0
    if k < 0.12:
        return 1e-12
    return float(rng.uniform(-scale, scale))


def ordered_subset(rng, d, k):
    """Random *ordered* k-subset of range(d): descending, interleaved and non-adjacent included."""
    return [int(m) for m in rng.permutation(d)[:k]]


def mode_pattern(modes):
    if len(modes) <= 1:
        return "single"
    asc = list(modes) == sorted(modes)
    adj = all(abs(a - b) == 1 for a, b in zip(modes, modes[1:]))
    return ("asc" if asc else ("desc" if list(modes) == sorted(modes, reverse=True) else "mixed")) + ("-adj" if adj else "-gap")


def gate(rng, name, d, active_scale=0.35, disp_scale=0.5, modes=None):
    """Instruction document of gate `name` on a random ordered mode subset."""
    p = {}
    k = ARITY.get(name)
    if name == "Interferometer":
        k = int(rng.integers(1, d + 1))
        u, kind = M.structured_unitary(rng, k)
        p = {"matrix": M.enc(u)}
    elif name == "GaussianTransform":
        k = int(rng.integers(1, min(d, 3) + 1))
        P, A = M.symplectic_blocks(rng, k, rmax=active_scale, degenerate=rng.random() < 0.25)
        p = {"passive": M.enc(P), "active": M.enc(A)}
    elif name == "Beamsplitter":
        p = {"theta": angle(rng), "phi": angle(rng)}
    elif name == "Phaseshifter":
        p = {"phi": angle(rng)}
    elif name == "MachZehnder":
        p = {"int_": angle(rng), "ext": angle(rng)}
    elif name in ("Squeezing", "Squeezing2"):
        p = {"r": small(rng, active_scale), "phi": angle(rng)}
    elif name == "QuadraticPhase":
        p = {"s": small(rng, active_scale)}
    elif name in ("ControlledX", "ControlledZ"):
        p = {"s": small(rng, active_scale)}
    elif name == "Displacement":
        p = {"r": abs(small(rng, disp_scale)), "phi": angle(rng)}
    elif name == "PositionDisplacement":
        p = {"x": small(rng, disp_scale)}
    elif name == "MomentumDisplacement":
        p = {"p": small(rng, disp_scale)}
    elif name in ("Kerr", "CrossKerr"):
        p = {"xi": angle(rng)}
    elif name == "CubicPhase":
        p = {"gamma": small(rng, 0.1)}
    elif name == "SNAP":
        p = {"theta": M.enc(rng.uniform(-np.pi, np.pi, size=int(rng.integers(1, 5))))}
    elif name == "Attenuator":
        k = 1
        p = {"theta": angle(rng, 0.15), "mean_thermal_excitation": 0}
    elif name in ("Beamsplitter5050", "Fourier"):
        p = {}
    else:
        raise KeyError(name)
    if modes is None:
        if k > d:
            return None
        modes = ordered_subset(rng, d, k)
    return {"t": name, "m": list(modes), "p": p}


def number_state(rng, d, nmax, bunched=None):
    """Occupation vector with total <= nmax (bunched inputs included)."""
    n = int(rng.integers(0, nmax + 1))
    occ = [0] * d
    for _ in range(n):
        occ[int(rng.integers(0, d))] += 1
    if bunched and n >= 2:
        occ = [0] * d
        occ[int(rng.integers(0, d))] = n
    return occ


def superposition(rng, d, nmax, terms=3, same_n=False):
    """FockStateVector document: normalised superposition of number states."""
    occs = []
    n_fixed = int(rng.integers(0, nmax + 1))
    for _ in range(terms * 3):
        o = number_state(rng, d, nmax)
        if same_n:
            o = [0] * d
            for _ in range(n_fixed):
                o[int(rng.integers(0, d))] += 1
        if o not in occs:
            occs.append(o)
        if len(occs) == terms:
            break
    amps = rng.normal(size=len(occs)) + 1j * rng.normal(size=len(occs))
    amps = amps / np.linalg.norm(amps)
    return {"t": "FockStateVector", "m": None, "p": {"fock_amplitude_map": enc_map({tuple(o): a for o, a in zip(occs, amps)})}}, occs, amps


def class_key(doc, extra=""):
    """Structural class of a program document (for distinct_nontrivial)."""
    types = sorted(i["t"] for i in doc["ins"])
    pats = sorted({mode_pattern(i["m"]) for i in doc["ins"] if i.get("m")})
    cfg = doc.get("config", {})
    return "%s|d%d|c%s|h%s|%s|%s|%s%s" % (
        doc["sim"], doc["d"], cfg.get("cutoff"), cfg.get("hbar"), cfg.get("dtype", "f64"),
        ",".join(types), "/".join(pats), extra)
