"""Generators for condition / parameter expression strings (C20, C03).

`gen_expr(rng, depth, n)` draws a string from the documented grammar over the outcome tuple
`x` of length n: numbers, booleans, x, indexing and slicing, + - * / % ** ^, unary + - not,
comparisons (chains included), and / or, parentheses.
"""

import ast
import io
import tokenize

INTS = ["0", "1", "2", "3", "7", "10"]
FLOATS = ["0.5", "1.5", "2.0", "1e-3", "3.25", "1e2", ".25", "0.0"]
BOOLS = ["True", "False"]
ARITH = ["+", "-", "*", "/", "%", "^"]
CMP = ["==", "!=", "<", "<=", ">", ">="]


def _index(rng, n):
    if n == 0:
        return str(int(rng.integers(-1, 2)))
    k = rng.random()
    if k < 0.75:
        return str(int(rng.integers(-n, n)))  # valid
    if k < 0.85:
        return str(int(rng.integers(-n - 2, n + 2)))  # possibly out of range -> IndexError in both
    return "%d-%d" % (int(rng.integers(0, n + 1)), int(rng.integers(0, 2)))  # computed


def _slice(rng, n):
    def part():
        return "" if rng.random() < 0.4 else str(int(rng.integers(-n - 1, n + 2)))

    s = part() + ":" + part()
    if rng.random() < 0.4:
        st = int(rng.integers(-2, 4))
        s += ":" + ("" if rng.random() < 0.2 else str(st))  # step 0 -> ValueError in both
    return s


def gen_num(rng, depth, n, intlike=False):
    """Numeric-valued expression."""
    if depth <= 0 or rng.random() < 0.25:
        k = rng.random()
        if n > 0 and k < 0.5:
            return "x[%s]" % _index(rng, n)
        if k < 0.75 or intlike:
            return str(rng.choice(INTS))
        if k < 0.93:
            return str(rng.choice(FLOATS))
        return str(rng.choice(BOOLS))
    k = rng.random()
    if k < 0.55:
        op = str(rng.choice(ARITH))
        if op == "^":
            a = gen_num(rng, depth - 1, n, True)
            b = gen_num(rng, depth - 1, n, True)
        else:
            a = gen_num(rng, depth - 1, n, intlike)
            b = gen_num(rng, depth - 1, n, intlike)
        return "%s %s %s" % (_par(rng, a), op, _par(rng, b))
    if k < 0.65:
        base = gen_num(rng, depth - 1, n, intlike)
        e = "x[%s]" % _index(rng, n) if (n > 0 and rng.random() < 0.5) else str(rng.choice(["0", "1", "2", "3", "0.5", "-1"]))
        if e.startswith("-"):
            e = "(%s)" % e if rng.random() < 0.5 else e
        return "(%s) ** %s" % (base, e)
    if k < 0.8:
        return "%s%s" % (rng.choice(["-", "+", "- ", "--"]), _par(rng, gen_num(rng, depth - 1, n, intlike), force=True))
    if k < 0.88 and n > 0:
        # aggregate through slicing: len is not allowed, so index into a slice
        return "x[%s][%s]" % (_slice(rng, n), rng.choice(["0", "-1", "1"]))
    if k < 0.94:
        return "(%s)" % gen_num(rng, depth - 1, n, intlike)
    # arithmetic on booleans / comparisons (Python: bool is an int)
    return "(%s) + %s" % (gen_bool(rng, depth - 1, n), gen_num(rng, depth - 1, n, True))


def _par(rng, s, force=False):
    if force or rng.random() < 0.5 or " " in s:
        return "(%s)" % s if (force or rng.random() < 0.7) else s
    return s


def gen_bool(rng, depth, n):
    """Boolean-ish expression (what a condition looks like)."""
    if depth <= 0:
        a = gen_num(rng, 0, n)
        return "%s %s %s" % (a, rng.choice(CMP), gen_num(rng, 0, n))
    k = rng.random()
    if k < 0.35:
        return "%s %s %s" % (gen_num(rng, depth - 1, n), rng.choice(CMP), gen_num(rng, depth - 1, n))
    if k < 0.5:
        # chained comparison
        parts = [gen_num(rng, depth - 1, n)]
        for _ in range(int(rng.integers(2, 4))):
            parts += [str(rng.choice(CMP)), gen_num(rng, depth - 1, n)]
        return " ".join(parts)
    if k < 0.75:
        op = str(rng.choice(["and", "or"]))
        m = int(rng.integers(2, 4))
        return (" %s " % op).join("(%s)" % gen_bool(rng, depth - 1, n) for _ in range(m))
    if k < 0.85:
        return "not (%s)" % gen_bool(rng, depth - 1, n)
    if k < 0.93 and n > 0:
        # short-circuit sensitive: the guard protects a division / an index
        i = _index(rng, n)
        guard = str(rng.choice(["x[%s] != 0 and 1 / x[%s] %s %s", "x[%s] == 0 or %s %% x[%s] %s 1"]))
        if guard.startswith("x[%s] !="):
            return guard % (i, i, rng.choice(CMP), gen_num(rng, 0, n))
        return guard % (i, gen_num(rng, 0, n, True), i, rng.choice(CMP))
    if k < 0.97 and n > 0:
        # tuple / slice comparison
        sl = _slice(rng, n)
        return "x[%s] %s x[%s]" % (sl, rng.choice(["==", "!=", "<", ">="]), _slice(rng, n))
    return "(%s) %s (%s)" % (gen_num(rng, depth - 1, n), rng.choice(["and", "or"]), gen_num(rng, depth - 1, n))


def gen_expr(rng, depth, n):
    return gen_bool(rng, depth, n) if rng.random() < 0.5 else gen_num(rng, depth, n)


MUTATION_TOKENS = [
    "y", "xx", "_", "__import__", "len", "print", "abs", "lambda", "None", "...", "'a'", '"x"', "b'1'", "f'{x}'",
    ".", "(", ")", "[", "]", "{", "}", ",", ":", ":=", "=", "//", "@", "&", "|", "~", "<<", ">>", "**", "*",
    "if", "else", "for", "in", "is", "not", "and", "or", "x", "0", "1", "1j", "1.5", "True", "+", "-", "/", "%", "^",
    "==", "<", "await", "yield", "x.real", "x.__class__", "x.count(0)", "[i for i in x]", "(0).__class__",
]


def tokens_of(src):
    out = []
    try:
        for t in tokenize.generate_tokens(io.StringIO(src).readline):
            if t.type in (tokenize.ENDMARKER, tokenize.NEWLINE, tokenize.NL):
                continue
            out.append(t.string)
    except (tokenize.TokenError, IndentationError, SyntaxError):
        return src.split()
    return out


def mutate(rng, src):
    toks = tokens_of(src)
    if not toks:
        return str(rng.choice(MUTATION_TOKENS))
    k = rng.random()
    i = int(rng.integers(0, len(toks)))
    t = str(rng.choice(MUTATION_TOKENS))
    if k < 0.45:
        toks[i] = t
    elif k < 0.7:
        toks.insert(i, t)
    elif k < 0.9:
        del toks[i]
    else:
        j = int(rng.integers(0, len(toks)))
        toks[i], toks[j] = toks[j], toks[i]
    return " ".join(toks)


HOSTILE = [
    "__import__('os').system('true')",
    "x.__class__",
    "x.__class__.__mro__[1].__subclasses__()",
    "().__class__.__bases__[0].__subclasses__()",
    "(lambda: 1)()",
    "lambda: 1",
    "[i for i in x]",
    "{i for i in x}",
    "{i: i for i in x}",
    "(i for i in x)",
    "f'{x}'",
    "f'{x[0]!r:>{x[1]}}'",
    "'a' * 3",
    "b'a'",
    "'%s' % x",
    "(y := 1)",
    "(x := 1)",
    "x[0] if x else 1",
    "*x",
    "[*x]",
    "(*x, 1)",
    "...",
    "x[...]",
    "None",
    "x is None",
    "x[0] in x",
    "len(x)",
    "abs(x[0])",
    "sum(x)",
    "int('1')",
    "open('/etc/passwd')",
    "exec('1')",
    "eval('1')",
    "compile('1', 'a', 'eval')",
    "getattr(x, 'count')",
    "x.count(0)",
    "x.index",
    "True.__class__",
    "(1).__add__(2)",
    "1 .real",
    "1j",
    "1 + 2j",
    "x[0].real",
    "x[0].bit_length()",
    "y",
    "X",
    "x0",
    "_",
    "__builtins__",
    "__name__",
    "x; x",
    "x\nx",
    "import os",
    "x = 1",
    "del x",
    "pass",
    "",
    " ",
    "\t",
    "(",
    ")",
    "x[",
    "x[0",
    "1 +",
    "x[0] ==",
    "==",
    "x[0] x[1]",
    "await x",
    "yield x",
    "yield",
    "x @ x",
    "x // 2",
    "x[0] // 2",
    "x[0] & 1",
    "x[0] | 1",
    "~x[0]",
    "x[0] << 1",
    "x[0] >> 1",
    "x[0] <> 1",
    "{1, 2}",
    "{}",
    "{1: 2}",
    "[1, 2][0]",
    "(1, 2)[1]",
    "(1, 2) + x",
    "[1, 2] == [1, 2]",
    "x[0:2, 1]",
    "x[0, 1]",
    "x[(0)]",
    "x[x[0]]",
    "x[True]",
    "x[1.0]",
    "x[::0]",
    "x[None]",
    "x[None:1]",
    "-x",
    "not x",
    "x + x",
    "x * 2",
    "x ** 2",
    "x < x",
    "x == ()",
    "1 < 2 < 3 < 4 > 0",
    "1 == 1.0 == True",
    "0 or 0.0 or False",
    "1 and 2 and 3",
    "0 and 1/0",
    "1 or 1/0",
    "1/0",
    "1 % 0",
    "0 ** -1",
    "(-8) ** 0.5",
    "2 ** 0.5",
    "10 ** 400 * 1.0",
    "1e308 * 10",
    "1e400",
    "1_000",
    "0x10",
    "0o17",
    "0b101",
    "1e-400",
    "-0.0",
    "--1",
    "+-+1",
    "not not 0",
    "not 1 == 2",
    "True + True",
    "True == 1",
    "True ^ False",
    "3 ^ 5",
    "2 ^ 0.5",
    "x[0]\x00",
    "\x00",
    "x[0] # comment",
    "x[0] \\\n + 1",
    "(x[0]\n+ 1)",
    "x [ 0 ]",
    "x[-1]",
    "x[-100]",
    "x[100]",
    "x[9**99]",
    "x[:9**99]",
]


def long_inputs():
    out = []
    out.append(" + ".join(["1"] * 400))
    out.append("(" * 60 + "1" + ")" * 60)
    out.append("(" * 300 + "1" + ")" * 300)
    out.append("-" * 500 + "1")
    out.append("not " * 300 + "1")
    out.append(" and ".join(["x[0] == %d" % i for i in range(300)]))
    out.append(" < ".join(["%d" % i for i in range(300)]))
    out.append("x" + "[0:]" * 300)
    out.append("[" * 150 + "1" + "]" * 150)
    return out
