"""Matrix generators (seeded, structural). All take a numpy Generator."""

import numpy as np


def haar_unitary(rng, n):
    if n == 0:
        return np.zeros((0, 0), dtype=complex)
    z = (rng.normal(size=(n, n)) + 1j * rng.normal(size=(n, n))) / np.sqrt(2)
    q, r = np.linalg.qr(z)
    d = np.diag(r)
    return q * (d / np.abs(d))


def haar_orthogonal(rng, n):
    z = rng.normal(size=(n, n))
    q, r = np.linalg.qr(z)
    return q * np.sign(np.diag(r))


def structured_unitary(rng, n):
    """Haar, permutation, diagonal phases, block diagonal, identity, sparse Givens product, real."""
    k = rng.integers(0, 8)
    if k == 0 or n == 1:
        return haar_unitary(rng, n), "haar"
    if k == 1:
        p = np.eye(n)[rng.permutation(n)]
        return p.astype(complex), "permutation"
    if k == 2:
        return np.diag(np.exp(1j * rng.uniform(0, 2 * np.pi, size=n))), "diagonal"
    if k == 3:
        m = int(rng.integers(1, n))
        u = np.zeros((n, n), dtype=complex)
        u[:m, :m] = haar_unitary(rng, m)
        u[m:, m:] = haar_unitary(rng, n - m)
        return u, "block"
    if k == 4:
        return np.eye(n, dtype=complex), "identity"
    if k == 5:
        u = np.eye(n, dtype=complex)
        for _ in range(int(rng.integers(1, 4))):
            i, j = rng.choice(n, size=2, replace=False)
            th, ph = rng.uniform(0, 2 * np.pi, size=2)
            g = np.eye(n, dtype=complex)
            g[i, i] = np.cos(th)
            g[i, j] = -np.exp(-1j * ph) * np.sin(th)
            g[j, i] = np.exp(1j * ph) * np.sin(th)
            g[j, j] = np.cos(th)
            u = g @ u
        return u, "givens"
    if k == 6:
        return haar_orthogonal(rng, n).astype(complex), "real-orthogonal"
    p = np.eye(n)[rng.permutation(n)]
    return (p * np.exp(1j * rng.uniform(0, 2 * np.pi, size=n))).astype(complex), "phased-permutation"


def symplectic_blocks(rng, n, rmax=0.6, degenerate=False):
    """(P, A) with P P+ - A A+ = 1, P A^T = A P^T (Bloch-Messiah form U1 [cosh r, sinh r] U2)."""
    u1 = haar_unitary(rng, n)
    u2 = haar_unitary(rng, n)
    r = rng.uniform(-rmax, rmax, size=n)
    if degenerate and n > 1:
        r[:] = r[0]
        if rng.random() < 0.3:
            r[-1] = 0.0
    P = u1 @ np.diag(np.cosh(r)) @ u2
    A = u1 @ np.diag(np.sinh(r)) @ u2.conj()
    return P, A


def complex_symplectic(P, A):
    return np.block([[P, A], [A.conj(), P.conj()]])


def real_symplectic_xxpp(P, A):
    """Real symplectic matrix in xxpp order acting on (x1..xd, p1..pd) for a -> P a + A a+."""
    X = P + A
    Y = P - A
    return np.block([[X.real, -Y.imag], [X.imag, Y.real]])


def transmission_matrix(rng, n, kinds=("mixed",)):
    """Sub-unitary T = U diag(s) V with prescribed singular values in [0, 1]."""
    u = haar_unitary(rng, n)
    v = haar_unitary(rng, n)
    mode = rng.integers(0, 5)
    if mode == 0:
        s = np.full(n, float(rng.choice([0.3, 0.8, 1.0])))
    elif mode == 1:
        s = rng.uniform(0, 1, size=n)
    elif mode == 2:
        s = rng.choice([0.0, 0.3, 0.8, 1.0], size=n)
    elif mode == 3:
        s = np.ones(n)
    else:
        s = rng.uniform(0.5, 1, size=n)
        s[int(rng.integers(0, n))] = 0.0
    return u @ np.diag(s) @ v, s


def random_gram(rng, n, rank=None, real=False):
    """Valid Gram matrix G_ij = <v_i|v_j> of n unit vectors in C^rank."""
    rank = rank or int(rng.integers(1, n + 1))
    v = rng.normal(size=(rank, n)) + (0 if real else 1j) * rng.normal(size=(rank, n))
    v = v / np.linalg.norm(v, axis=0)
    return v.conj().T @ v, v


def physical_gaussian(rng, d, hbar, pure=None, displaced=None, rmax=0.7):
    """(mean, cov) in xxpp order of a physical Gaussian state: S (nu) S^T, nu >= 1 per mode."""
    P, A = symplectic_blocks(rng, d, rmax=rmax)
    S = real_symplectic_xxpp(P, A)
    pure = rng.random() < 0.4 if pure is None else pure
    nu = np.ones(d) if pure else 1 + rng.exponential(0.6, size=d)
    D = np.diag(np.concatenate([nu, nu]))
    cov = hbar / 2 * S @ D @ S.T
    cov = (cov + cov.T) / 2
    displaced = rng.random() < 0.6 if displaced is None else displaced
    mean = rng.normal(size=2 * d) * np.sqrt(hbar) if displaced else np.zeros(2 * d)
    return mean, cov * 1.0


def xxpp_to_xpxp(d):
    idx = np.empty(2 * d, dtype=int)
    idx[0::2] = np.arange(d)
    idx[1::2] = np.arange(d) + d
    return idx


def enc(a):
    """JSON encoding of an ndarray (exact: doubles survive repr round trips)."""
    a = np.asarray(a)
    if np.iscomplexobj(a):
        return {"__nd__": "c", "re": a.real.tolist(), "im": a.imag.tolist()}
    if a.dtype.kind in "iub":
        return {"__nd__": "i", "v": a.tolist()}
    return {"__nd__": "f", "v": a.tolist()}


def dec(o):
    if isinstance(o, dict) and "__nd__" in o:
        if o["__nd__"] == "c":
            return np.array(o["re"], dtype=float) + 1j * np.array(o["im"], dtype=float)
        if o["__nd__"] == "i":
            return np.array(o["v"], dtype=int)
        return np.array(o["v"], dtype=float)
    return o
