import argparse
import importlib
import os
import sys


def main():
    ap = argparse.ArgumentParser()
    ap.add_argument("property")
    ap.add_argument("--tier", default=os.environ.get("VERIF_TIER") or "quick", choices=["quick", "thorough"])
    ap.add_argument("--replay")
    ap.add_argument("--seed", type=int, default=None)
    a = ap.parse_args()
    seed = a.seed if a.seed is not None else int(os.environ.get("VERIF_SEED", "0") or 0)
    from vf import boot, runner
    from vf.native import build

    pid = a.property.upper()
    try:
        # rebuild the native modules from the working tree once, before the shards start
        build.build_modules(boot.REPO, "plain")
        boot.ensure_deps()
    except build.BuildError as e:
        print("INCONCLUSIVE property=%s reason=native build failed: %s" % (pid, str(e)[:1500]))
        return 2
    mod = importlib.import_module("vf.checks.%s" % pid.lower())
    return runner.main(mod, a.tier, seed, a.replay)


if __name__ == "__main__":
    sys.exit(main())
