import argparse
import importlib
import os
import sys


def main():
    ap = argparse.ArgumentParser()
    ap.add_argument("property")
    ap.add_argument("--tier", default=os.environ.get("VERIF_TIER") or "quick", choices=["quick", "thorough"])
    ap.add_argument("--replay")
    ap.add_argument("--seed", type=int, default=None)
    a = ap.parse_args()
    seed = a.seed if a.seed is not None else int(os.environ.get("VERIF_SEED", "0") or 0)
    from vf import boot, runner
    from vf.native import build

    pid = a.property.upper()
    try:
        # rebuild the native modules from the working tree once, before the shards start
        build.build_modules(boot.REPO, "plain")
        boot.ensure_deps()
        # a numba cache directory exists per source digest; when the tree changed, populate the
        # new one from a single process first instead of letting 16 shards compile concurrently
        nb_dir = boot.numba_cache_dir()
        marker = os.path.join(nb_dir, "WARMED")
        if not os.path.exists(marker) and not os.environ.get("VERIF_NO_WARMUP"):
            import subprocess

            try:
                subprocess.run([boot.PYTHON, "-m", "vf.warmup"], env=boot.child_env(), cwd=boot.VERIF,
                               stdout=subprocess.DEVNULL, stderr=subprocess.DEVNULL, timeout=1800)
                open(marker, "w").write("ok\n")
            except subprocess.TimeoutExpired:
                # the warm-up only saves compile time; on an overloaded machine the shards compile themselves
                print("NOTE: numba warm-up did not finish within its wall-clock budget; shards compile on demand")
    except build.BuildError as e:
        print("INCONCLUSIVE property=%s reason=native build failed: %s" % (pid, str(e)[:1500]))
        return 2
    mod = importlib.import_module("vf.checks.%s" % pid.lower())
    return runner.main(mod, a.tier, seed, a.replay)


if __name__ == "__main__":
    try:
        rc = main()
    except SystemExit:
        raise
    except BaseException as e:  # noqa: BLE001 - a harness failure is never a verdict about the repository
        import traceback

        traceback.print_exc()
        print("INCONCLUSIVE property=%s reason=harness error: %s: %s" % (
            (sys.argv[1] if len(sys.argv) > 1 else "?").upper(), type(e).__name__, str(e)[:300]))
        rc = 2
    sys.exit(rc)
