"""Deep structural fingerprints of caller-owned objects (C12).

`fp(obj)` returns a nested, comparable, JSON-able structure: type names, container contents,
ndarray dtype/shape/strides/bytes digest, Expression sources, callables by identity.
`diff(a, b)` lists the paths at which two fingerprints differ.
"""

import hashlib
import types

import numpy as np

_SKIP_ATTRS = {"rng"}  # the RNG stream position is an observation, not a violation (DESIGN §2.7 r5)


def _nd(a):
    a_c = np.ascontiguousarray(a)
    return {
        "__nd__": str(a.dtype), "shape": list(a.shape), "strides": list(a.strides),
        "writeable": bool(a.flags.writeable),
        "sha": hashlib.sha1(a_c.tobytes()).hexdigest(),
    }


def fp(o, depth=0, seen=None):
    if seen is None:
        seen = {}
    if depth > 12:
        return "<deep>"
    if o is None or isinstance(o, (bool, int, str, bytes)):
        return [type(o).__name__, o if not isinstance(o, bytes) else o.hex()]
    if isinstance(o, float):
        return ["float", o.hex()]
    if isinstance(o, complex):
        return ["complex", o.real.hex(), o.imag.hex()]
    if isinstance(o, np.generic):
        return [type(o).__name__, repr(o.item())]
    if isinstance(o, np.ndarray):
        return _nd(o)
    oid = id(o)
    if oid in seen:
        return "<ref %d>" % seen[oid]
    seen[oid] = len(seen)
    if isinstance(o, (list, tuple)):
        return [type(o).__name__, [fp(x, depth + 1, seen) for x in o]]
    if isinstance(o, dict):
        return ["dict", [[fp(k, depth + 1, seen), fp(v, depth + 1, seen)] for k, v in o.items()]]
    if isinstance(o, (set, frozenset)):
        return [type(o).__name__, sorted(repr(x) for x in o)]
    tn = type(o).__module__ + "." + type(o).__qualname__
    if tn == "piquasso.core._expressions.Expression":
        return ["Expression", getattr(o, "_src", None)]
    if isinstance(o, (types.FunctionType, types.BuiltinFunctionType, types.MethodType, type)) or callable(o) and not hasattr(o, "__dict__"):
        return ["callable", tn, id(o)]
    if tn.startswith("numpy.random"):
        return ["rng", tn]
    if tn.startswith(("fractions.",)):
        return ["Fraction", str(o)]
    d = getattr(o, "__dict__", None)
    if d is None:
        return [tn, repr(o)[:200]]
    items = []
    for k in sorted(d):
        if k in _SKIP_ATTRS:
            continue
        items.append([k, fp(d[k], depth + 1, seen)])
    return ["obj", tn, items]


def instruction_view(ins):
    """The caller-visible content of an instruction: what the property names."""
    return {
        "type": type(ins).__name__,
        "modes": fp(ins.modes),
        "params": fp(ins.params),
        "param_order": list(ins.params.keys()),
        "condition": fp(ins.condition),
        "unresolved": sorted(getattr(ins, "_unresolved_params", {}).keys()),
    }


def program_view(program):
    return {
        "n": len(program.instructions),
        "ids": [id(i) for i in program.instructions],
        "ins": [instruction_view(i) for i in program.instructions],
    }


def diff(a, b, path=""):
    out = []
    if type(a) is not type(b):
        return [path or "/"]
    if isinstance(a, dict):
        for k in sorted(set(a) | set(b), key=str):
            if k not in a or k not in b:
                out.append("%s/%s" % (path, k))
            else:
                out.extend(diff(a[k], b[k], "%s/%s" % (path, k)))
        return out
    if isinstance(a, list):
        if len(a) != len(b):
            return [path + "[len]"]
        for i, (x, y) in enumerate(zip(a, b)):
            out.extend(diff(x, y, "%s[%d]" % (path, i)))
        return out
    if a != b:
        return [path or "/"]
    return out
