"""CALL tracer (sys.monitoring) + audit hook for a window of execution.

`CallWindow(code_filter)` records, while active, every callable invoked *from* code objects
whose filename matches `code_filter` (CALL events carry the callee), and every audit event
raised anywhere in the process. Both are passive.
"""

import sys
import threading

TOOL_ID = 4
_audit_sinks = []
_audit_installed = False
_lock = threading.Lock()


def _audit(event, args):
    if not _audit_sinks:
        return
    for s in _audit_sinks:
        s.append((event, _short(args)))


def _short(args):
    try:
        out = []
        for a in args[:3]:
            if isinstance(a, (str, bytes, int, float, type(None))):
                out.append(a if not isinstance(a, (str, bytes)) else a[:80])
            else:
                out.append(type(a).__name__)
        return tuple(out)
    except Exception:
        return ()


def install_audit():
    global _audit_installed
    with _lock:
        if not _audit_installed:
            sys.addaudithook(_audit)
            _audit_installed = True


def describe(c):
    mod = getattr(c, "__module__", None)
    qn = getattr(c, "__qualname__", None) or getattr(c, "__name__", None)
    if qn is None:
        qn = type(c).__name__
        mod = type(c).__module__
    self_ = getattr(c, "__self__", None)
    if mod is None and self_ is not None and not isinstance(self_, type(sys)):
        mod = type(self_).__module__
    return "%s.%s" % (mod, qn)


class CallWindow:
    def __init__(self, filename_suffix):
        self.suffix = filename_suffix
        self.calls = {}
        self.audit = []
        self.events = 0

    def _on_call(self, code, offset, callable_, arg0):
        if code.co_filename.endswith(self.suffix):
            self.events += 1
            name = describe(callable_)
            self.calls[name] = self.calls.get(name, 0) + 1
        return None

    def __enter__(self):
        install_audit()
        mon = sys.monitoring
        mon.use_tool_id(TOOL_ID, "vf-calltrace")
        mon.register_callback(TOOL_ID, mon.events.CALL, self._on_call)
        mon.set_events(TOOL_ID, mon.events.CALL)
        _audit_sinks.append(self.audit)
        return self

    def __exit__(self, *exc):
        mon = sys.monitoring
        _audit_sinks.remove(self.audit)
        mon.set_events(TOOL_ID, 0)
        mon.register_callback(TOOL_ID, mon.events.CALL, None)
        mon.free_tool_id(TOOL_ID)
        return False
