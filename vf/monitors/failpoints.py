"""Source-free failpoints (sys.monitoring LINE events, tool id 3).

`LineFaults(code_objects)`:
    hits = lf.record(fn)      -> clean run of fn(); returns the list of (qualname, line) hits
    lf.inject(fn, k)          -> run fn() and raise InjectedFault from the callback at hit k

Lines that belong to cleanup code (a `finally:` body, or anything called from one) are not
injection points: the property quantifies over failures of validation, parameter resolution
and simulation steps, not over failures of the restoration itself. They are reported as
`skipped_cleanup` so that the evidence shows how many points were left out.
"""

import ast
import inspect
import sys
import types

TOOL_ID = 3


class InjectedFault(Exception):
    pass


def code_objects_of(*objs):
    """All code objects (incl. nested) of functions / classes / modules given."""
    out = []

    def add_code(c):
        if c in out:
            return
        out.append(c)
        for k in c.co_consts:
            if isinstance(k, types.CodeType):
                add_code(k)

    def add(o):
        if isinstance(o, types.CodeType):
            add_code(o)
        elif isinstance(o, (types.FunctionType,)):
            add_code(o.__code__)
        elif isinstance(o, (staticmethod, classmethod)):
            add(o.__func__)
        elif isinstance(o, property):
            for f in (o.fget, o.fset, o.fdel):
                if f is not None:
                    add(f)
        elif isinstance(o, type):
            for v in vars(o).values():
                if isinstance(v, (types.FunctionType, staticmethod, classmethod, property)):
                    add(v)
        elif isinstance(o, types.ModuleType):
            for v in vars(o).values():
                if isinstance(v, types.FunctionType) and v.__module__ == o.__name__:
                    add(v)
                elif isinstance(v, type) and v.__module__ == o.__name__:
                    add(v)
        elif hasattr(o, "__wrapped__"):
            add(o.__wrapped__)
        elif hasattr(o, "py_func"):  # numba dispatcher: python source is not what runs
            pass

    for o in objs:
        add(o)
    return out


_finally_cache = {}


def finally_ranges(filename):
    """Line ranges of all `finally:` bodies in a source file."""
    if filename in _finally_cache:
        return _finally_cache[filename]
    ranges = []
    try:
        with open(filename) as fh:
            tree = ast.parse(fh.read())
        for n in ast.walk(tree):
            if isinstance(n, ast.Try) and n.finalbody:
                lo = n.finalbody[0].lineno
                hi = max(getattr(x, "end_lineno", x.lineno) for x in n.finalbody)
                ranges.append((lo, hi))
    except (OSError, SyntaxError):
        pass
    _finally_cache[filename] = ranges
    return ranges


def _in_cleanup(frame, max_up=6):
    f = frame
    for _ in range(max_up):
        if f is None:
            return False
        for lo, hi in finally_ranges(f.f_code.co_filename):
            if lo <= f.f_lineno <= hi:
                return True
        f = f.f_back
    return False


class LineFaults:
    def __init__(self, codes):
        self.codes = list(codes)
        self.mode = None
        self.hits = []
        self.target = -1
        self.count = 0
        self.fired = None
        self.skipped_cleanup = 0
        self.armed = False

    def _cb(self, code, line):
        if not self.armed:
            return None
        fr = sys._getframe(1)
        if _in_cleanup(fr):
            if self.mode == "record":
                self.skipped_cleanup += 1
            return None
        if self.mode == "record":
            self.hits.append((code.co_qualname, line))
            return None
        k = self.count
        self.count += 1
        if k == self.target:
            self.fired = (code.co_qualname, line)
            self.armed = False
            raise InjectedFault("injected at %s:%d (hit %d)" % (code.co_qualname, line, k))
        return None

    def _enable(self):
        mon = sys.monitoring
        mon.use_tool_id(TOOL_ID, "vf-failpoints")
        mon.register_callback(TOOL_ID, mon.events.LINE, self._cb)
        for c in self.codes:
            mon.set_local_events(TOOL_ID, c, mon.events.LINE)

    def _disable(self):
        mon = sys.monitoring
        for c in self.codes:
            mon.set_local_events(TOOL_ID, c, 0)
        mon.register_callback(TOOL_ID, mon.events.LINE, None)
        mon.free_tool_id(TOOL_ID)

    def record(self, fn):
        self.mode = "record"
        self.hits = []
        self.skipped_cleanup = 0
        self._enable()
        self.armed = True
        try:
            result = fn()
        finally:
            self.armed = False
            self._disable()
        return result, list(self.hits)

    def inject(self, fn, k):
        """Returns (result, exception, fired_at)."""
        self.mode = "inject"
        self.target = k
        self.count = 0
        self.fired = None
        self._enable()
        self.armed = True
        res = exc = None
        try:
            res = fn()
        except BaseException as e:  # noqa
            if isinstance(e, (KeyboardInterrupt, SystemExit)):
                raise
            exc = e
        finally:
            self.armed = False
            self._disable()
        return res, exc, self.fired
