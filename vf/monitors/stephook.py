"""Step hook: turns every Simulator.execute into an event stream, without source edits.

Wrappers are installed on the *class* attributes `Simulator.execute_instructions`,
`Simulator._apply_instruction_to_branches` and `Simulator._get_simulation_step`; the code under
test resolves all three through `self`, so no stale reference bypasses them. The hook is
passive: arguments and return values pass through untouched.

Subscribers are objects with any of the methods

    on_run_start(run)                                  run: Run (sim, instructions, shots, depth)
    on_instruction_pre(run, index, instruction, branches, shots)
    on_step_pre(run, index, instruction, state, shots)       # one call per branch the step runs on
    on_step_post(run, index, instruction, state, shots, subbranches, exc)
    on_instruction_post(run, index, instruction, branches_in, branches_out, exc)
    on_run_end(run, result, exc)

`state` objects are live: a subscriber that needs the value before the step must copy it in
the *_pre callback (steps may work in place).
"""

import functools
import threading


class Run:
    __slots__ = ("id", "sim", "instructions", "shots", "depth", "steps_entered", "steps_done", "index", "data")

    def __init__(self, id_, sim, instructions, shots, depth):
        self.id = id_
        self.sim = sim
        self.instructions = instructions
        self.shots = shots
        self.depth = depth
        self.steps_entered = 0
        self.steps_done = 0
        self.index = -1
        self.data = {}


class StepHook:
    def __init__(self):
        self.subscribers = []
        self.counters = {"runs": 0, "instructions": 0, "steps": 0, "step_exceptions": 0, "run_exceptions": 0}
        self._local = threading.local()
        self._installed = False
        self._orig = {}
        self._next_id = 0
        self.enabled = True

    # ------------------------------------------------------------------ plumbing
    def _stack(self):
        st = getattr(self._local, "stack", None)
        if st is None:
            st = self._local.stack = []
        return st

    def _emit(self, name, *args):
        for s in self.subscribers:
            fn = getattr(s, name, None)
            if fn is not None:
                fn(*args)

    def subscribe(self, sub):
        self.subscribers.append(sub)
        return sub

    def unsubscribe(self, sub):
        self.subscribers.remove(sub)

    def install(self, pq=None):
        if self._installed:
            return self
        from piquasso.api.simulator import Simulator

        hook = self
        orig_exec = Simulator.execute_instructions
        orig_apply = Simulator._apply_instruction_to_branches
        orig_get = Simulator._get_simulation_step
        self._orig = {"execute_instructions": orig_exec, "_apply_instruction_to_branches": orig_apply,
                      "_get_simulation_step": orig_get}

        @functools.wraps(orig_exec)
        def execute_instructions(sim, instructions, initial_state=None, shots=1):
            if not hook.enabled:
                return orig_exec(sim, instructions, initial_state=initial_state, shots=shots)
            st = hook._stack()
            hook._next_id += 1
            run = Run(hook._next_id, sim, instructions, shots, len(st))
            st.append(run)
            hook.counters["runs"] += 1
            hook._emit("on_run_start", run)
            try:
                result = orig_exec(sim, instructions, initial_state=initial_state, shots=shots)
            except BaseException as e:
                hook.counters["run_exceptions"] += 1
                st.pop()
                hook._emit("on_run_end", run, None, e)
                raise
            st.pop()
            hook._emit("on_run_end", run, result, None)
            return result

        @functools.wraps(orig_apply)
        def _apply_instruction_to_branches(sim, branches, instruction, shots):
            st = hook._stack()
            if not hook.enabled or not st:
                return orig_apply(sim, branches, instruction, shots)
            run = st[-1]
            run.index += 1
            idx = run.index
            hook.counters["instructions"] += 1
            hook._emit("on_instruction_pre", run, idx, instruction, branches, shots)
            try:
                out = orig_apply(sim, branches, instruction, shots)
            except BaseException as e:
                hook._emit("on_instruction_post", run, idx, instruction, branches, None, e)
                raise
            hook._emit("on_instruction_post", run, idx, instruction, branches, out, None)
            return out

        @functools.wraps(orig_get)
        def _get_simulation_step(sim, instruction):
            step = orig_get(sim, instruction)
            st = hook._stack()
            if not hook.enabled or not st:
                return step
            run = st[-1]

            def monitored_step(state, instruction, shots=None, **kw):
                idx = run.index
                run.steps_entered += 1
                hook.counters["steps"] += 1
                hook._emit("on_step_pre", run, idx, instruction, state, shots)
                try:
                    sub = step(state, instruction, shots=shots, **kw)
                except BaseException as e:
                    hook.counters["step_exceptions"] += 1
                    hook._emit("on_step_post", run, idx, instruction, state, shots, None, e)
                    raise
                run.steps_done += 1
                hook._emit("on_step_post", run, idx, instruction, state, shots, sub, None)
                return sub

            monitored_step.__wrapped__ = step
            return monitored_step

        Simulator.execute_instructions = execute_instructions
        Simulator._apply_instruction_to_branches = _apply_instruction_to_branches
        Simulator._get_simulation_step = _get_simulation_step
        self._installed = True
        return self

    def uninstall(self):
        if not self._installed:
            return
        from piquasso.api.simulator import Simulator

        for k, v in self._orig.items():
            setattr(Simulator, k, v)
        self._installed = False


_HOOK = None


def get():
    global _HOOK
    if _HOOK is None:
        _HOOK = StepHook()
    return _HOOK
