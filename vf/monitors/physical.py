"""Physicality monitor (C08): independent validators evaluated at the step hook after every
instruction on every branch. Never calls state.validate()."""

import numpy as np

NUMBER_CONSERVING = {"Interferometer", "Beamsplitter", "Beamsplitter5050", "Phaseshifter", "MachZehnder", "Fourier", "Kerr",
                     "CrossKerr", "SNAP"}


PREPARATIONS = {"Vacuum", "StateVector", "NumberState", "DensityMatrix", "Create", "Annihilate", "Mean", "Covariance", "Thermal",
                "ParentHamiltonian", "GaussianHamiltonian"}


def kind_of(state):
    m = type(state).__module__
    n = type(state).__name__
    if m.startswith("piquasso.fermionic.gaussian"):
        return "fgaussian"
    if m.startswith("piquasso.fermionic.fock"):
        return "ffock"
    return {"GaussianState": "gaussian", "PureFockState": "purefock", "FockState": "fock", "PassiveState": "passive",
            "BatchPureFockState": "batch"}.get(n, n)


def omega_xxpp(d):
    return np.block([[np.zeros((d, d)), np.eye(d)], [-np.eye(d), np.zeros((d, d))]])


# Gaussian states are judged with tolerances that follow the conditioning of their moments:
# kappa = 2 max|cov| / hbar is 1 for the vacuum and e^{2r} for squeezing r. The moments are
# produced by congruences whose intermediate terms are O(kappa) larger than the result, so their
# floating-point error is ~ eps * kappa * max|cov|; det / inverse based quantities (purity,
# Fock probabilities) lose another factor kappa. States with kappa > KAPPA_MAX (beyond 60 dB of
# squeezing; float64 resolves nothing there) are counted and not judged.
KAPPA_MAX = 1e6
EPS = float(np.finfo(float).eps)
STATS = {"gaussian_ill_conditioned_not_judged": 0, "max_gaussian_kappa_judged": 0.0}


def gaussian_kappa(state):
    hbar = float(state._config.hbar)
    cov = np.asarray(state.xxpp_covariance_matrix)
    if not np.all(np.isfinite(cov)):
        return 1.0
    return max(1.0, 2.0 * float(np.abs(cov).max()) / hbar)


def check_state(state, tol=1e-9):
    """Returns a list of (mechanism suffix, message); empty when the state is physical."""
    k = kind_of(state)
    out = []
    if k == "gaussian":
        d = state.d
        hbar = float(state._config.hbar)
        cov = np.asarray(state.xxpp_covariance_matrix)
        mean = np.asarray(state.xxpp_mean_vector)
        scale = max(1.0, float(np.abs(cov).max()))
        if np.all(np.isfinite(cov)):
            kappa = gaussian_kappa(state)
            if kappa > KAPPA_MAX:
                STATS["gaussian_ill_conditioned_not_judged"] += 1
                return out
            STATS["max_gaussian_kappa_judged"] = max(STATS["max_gaussian_kappa_judged"], kappa)
            tol = max(tol, 100 * EPS * kappa)
        if np.iscomplexobj(cov) and np.abs(cov.imag).max() > tol * scale:
            out.append(("gaussian-cov-not-real", "covariance has imaginary part %.2e" % np.abs(cov.imag).max()))
        cov = cov.real
        if not np.all(np.isfinite(cov)) or not np.all(np.isfinite(mean)):
            out.append(("gaussian-not-finite", "mean/covariance contain nan or inf"))
            return out
        if np.abs(cov - cov.T).max() > tol * scale:
            out.append(("gaussian-cov-not-symmetric", "|cov - cov^T| = %.2e" % np.abs(cov - cov.T).max()))
        ev = np.linalg.eigvalsh((cov + cov.T) / 2 + 1j * hbar * omega_xxpp(d))
        if ev.min() < -tol * scale * max(1.0, hbar):
            out.append(("gaussian-uncertainty-violated", "min eig of cov + i hbar Omega = %.3e (hbar=%g)" % (ev.min(), hbar)))
    elif k == "fock":
        rho = np.asarray(state.density_matrix)
        if not np.all(np.isfinite(rho)):
            return [("fock-not-finite", "density matrix contains nan or inf")]
        if np.abs(rho - rho.conj().T).max() > tol:
            out.append(("fock-rho-not-hermitian", "|rho - rho^+| = %.2e" % np.abs(rho - rho.conj().T).max()))
        ev = np.linalg.eigvalsh((rho + rho.conj().T) / 2)
        if ev.min() < -tol * 10:
            out.append(("fock-rho-not-positive", "min eigenvalue %.3e" % ev.min()))
        tr = float(np.real(np.trace(rho)))
        if tr > 1 + tol * 10:
            out.append(("fock-trace-above-one", "trace %.12f" % tr))
    elif k == "purefock":
        v = np.asarray(state.state_vector)
        if not np.all(np.isfinite(v)):
            return [("purefock-not-finite", "state vector contains nan or inf")]
        n2 = float(np.real(np.vdot(v, v)))
        if n2 > 1 + tol * 10:
            out.append(("purefock-norm-above-one", "norm^2 = %.12f" % n2))
    elif k == "fgaussian":
        try:
            corr = np.asarray(state.correlation_matrix)
            d = state.d
            gamma = corr[:d, :d] if corr.shape[0] == 2 * d else corr
            evs = np.linalg.eigvalsh((corr + corr.conj().T) / 2)
            if evs.min() < -tol * 10 or evs.max() > 1 + tol * 10:
                out.append(("fermionic-correlation-spectrum", "correlation spectrum [%.3e, %.12f] outside [0,1]" % (evs.min(), evs.max())))
        except Exception as e:  # noqa
            out.append(("fermionic-correlation-raises", "%s: %s" % (type(e).__name__, e)))
        try:
            cov = np.asarray(state.covariance_matrix)
            if np.iscomplexobj(cov) and np.abs(cov.imag).max() > tol:
                out.append(("fermionic-cov-not-real", "Majorana covariance has imaginary part %.2e" % np.abs(cov.imag).max()))
            cov = cov.real
            if np.abs(cov + cov.T).max() > tol * 10:
                out.append(("fermionic-cov-not-antisymmetric", "|G + G^T| = %.2e" % np.abs(cov + cov.T).max()))
            sv = np.linalg.svd(cov, compute_uv=False)
            if sv.max() > 1 + tol * 10:
                out.append(("fermionic-cov-norm-above-one", "largest singular value %.12f" % sv.max()))
        except Exception as e:  # noqa
            out.append(("fermionic-covariance-raises", "%s: %s" % (type(e).__name__, e)))
    elif k == "ffock":
        v = np.asarray(state.state_vector)
        n2 = float(np.real(np.vdot(v, v)))
        if n2 > 1 + tol * 10:
            out.append(("ffock-norm-above-one", "norm^2 = %.12f" % n2))
    return out


def norm_of(state):
    k = kind_of(state)
    try:
        if k in ("purefock", "ffock"):
            v = np.asarray(state.state_vector)
            return float(np.sqrt(np.real(np.vdot(v, v))))
        if k == "fock":
            return float(np.real(np.trace(np.asarray(state.density_matrix))))
    except Exception:
        return None
    return None


def reported_quantities(state, tol=1e-9):
    """Probabilities / purity the state reports at the end of a run. Returns violations."""
    from piquasso.api.exceptions import NotImplementedCalculation, PiquassoException

    out = []
    k = kind_of(state)
    queried = 0
    ptol = 1e-7
    if k == "gaussian":
        kappa = gaussian_kappa(state)
        if kappa > KAPPA_MAX:
            STATS["gaussian_ill_conditioned_not_judged"] += 1
            return out, 0
        # det / inverse based quantities: relative error ~ eps * kappa^2
        tol = max(tol, 100 * EPS * kappa ** 2)
        ptol = max(ptol, 100 * EPS * kappa ** 2)

    def probs_ok(name, p):
        p = np.asarray(p)
        if np.iscomplexobj(p):
            if np.abs(p.imag).max() > tol:
                out.append(("probability-complex:%s" % k, "%s has imaginary part %.2e" % (name, np.abs(p.imag).max())))
            p = p.real
        if p.size and (p.min() < -tol or p.max() > 1 + tol):
            out.append(("probability-out-of-range:%s" % k, "%s in [%.3e, %.12f]" % (name, p.min(), p.max())))
        if p.size and p.sum() > 1 + tol * 100:
            out.append(("probability-sum-above-one:%s" % k, "%s sums to %.12f" % (name, p.sum())))

    try:
        probs_ok("fock_probabilities", state.fock_probabilities)
        queried += 1
    except Exception:  # a query the state does not offer / outside the cutoff: not judged here
        pass
    try:
        d = state.d
        for occ in ([0] * d, [1] + [0] * (d - 1), [0] * (d - 1) + [1]):
            if k in ("ffock", "fgaussian") or True:
                try:
                    p = state.get_particle_detection_probability(tuple(occ))
                except (TypeError, ValueError):
                    p = state.get_particle_detection_probability(np.array(occ))
                probs_ok("get_particle_detection_probability(%s)" % occ, np.array([p]))
                queried += 1
    except Exception:
        pass
    if k == "gaussian":
        try:
            for occ in ([0] * state.d, [1] * state.d):
                probs_ok("get_threshold_detection_probability", np.array([state.get_threshold_detection_probability(tuple(occ))]))
                queried += 1
        except Exception:
            pass
    try:
        pur = state.get_purity()
        pur = float(np.real(pur))
        queried += 1
        nrm = norm_of(state)
        normalised = nrm is None or abs(nrm - 1) < 1e-6
        if normalised and not (pur > 0 and pur <= 1 + ptol):
            out.append(("purity-out-of-range:%s" % k, "purity %.12f" % pur))
        if k in ("purefock", "ffock") and normalised and abs(pur - 1) > 1e-7:
            out.append(("pure-state-purity-not-one:%s" % k, "purity of a pure state %.12f" % pur))
        if k == "fock":
            # independent purity Tr rho^2 / (Tr rho)^2-free form: the library reports Tr rho^2 of the stored matrix
            rho = np.asarray(state.density_matrix)
            ref = float(np.real(np.trace(rho @ rho)))
            if abs(pur - ref) > 1e-9 * max(1.0, abs(ref)):
                out.append(("fock-purity-wrong", "get_purity()=%.12f, Tr rho^2 = %.12f" % (pur, ref)))
        if k == "gaussian":
            # independent purity: prod of 1/nu_k from the symplectic spectrum
            d = state.d
            hbar = float(state._config.hbar)
            cov = np.asarray(state.xxpp_covariance_matrix).real / hbar
            nu = np.abs(np.linalg.eigvals(1j * omega_xxpp(d) @ cov))
            nu = np.sort(nu)[::2]
            ref = float(1.0 / np.prod(nu))
            if abs(pur - ref) > max(1e-6, 10 * ptol) * max(1.0, ref):
                out.append(("gaussian-purity-wrong", "get_purity()=%.9f, symplectic spectrum gives %.9f (hbar=%g)" % (pur, ref, hbar)))
            pure = bool(abs(ref - 1) < 1e-7)
            if ptol > 1e-7:
                pass  # is_pure() compares with a fixed tolerance: not decidable for ill-conditioned moments
            elif bool(state.is_pure()) != pure and abs(ref - 1) > 1e-5 or (pure and not state.is_pure()):
                out.append(("gaussian-is-pure-wrong", "is_pure()=%s, purity %.9f" % (state.is_pure(), ref)))
    except Exception:
        pass
    return out, queried
