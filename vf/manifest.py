"""Regenerates /verif/MANIFEST.json from the check modules (python -m vf.manifest)."""
import importlib
import json
import os

VERIF = os.path.dirname(os.path.dirname(os.path.abspath(__file__)))

NOT_BUILT = "check not built yet (work in progress, see DESIGN.md)"

# checks that have been run silent on the unchanged tree over several seeds and whose
# sensitivity self-test passed; everything else stays under not_applicable until then
APPROVED = ["C01", "C02", "C03", "C04", "C05", "C06", "C07", "C08", "C09", "C10", "C11", "C12", "C13", "C14", "C15", "C16", "C17", "C18", "C19", "C20"]


def main():
    props = [json.loads(l) for l in open(os.path.join(VERIF, "properties.jsonl"))]
    checks, na, served = [], [], []
    for p in props:
        pid = p["id"]
        try:
            mod = importlib.import_module("vf.checks.%s" % pid.lower())
        except ModuleNotFoundError:
            na.append({"property_id": pid, "reason": NOT_BUILT})
            continue
        if pid not in APPROVED:
            na.append({"property_id": pid, "reason": "check written but not yet validated on the unchanged tree (work in progress)"})
            continue
        if not getattr(mod, "READY", True):
            na.append({"property_id": pid, "reason": getattr(mod, "NOT_READY_REASON", NOT_BUILT)})
            continue
        served.append(pid)
        checks.append({
            "property_id": pid,
            "quick_cmd": "./check %s --tier quick" % pid,
            "thorough_cmd": "./check %s --tier thorough" % pid,
            "evidence_file": "/verif/evidence/%s.json" % pid,
            "replay_cmd_template": "./check %s --replay {path}" % pid,
            "engine": "vf",
            "level_claimed": {"category": mod.LEVEL, "text": mod.LEVEL_TEXT, "design_ref": mod.DESIGN_REF},
            "level_note": mod.LEVEL_NOTE,
            "technique": mod.TECHNIQUE,
        })
    m = {
        "version": 1,
        "setup_cmd": "cd /verif && PYTHONPATH=/verif /venv/bin/python -m vf.setup",
        "hooks": {
            "guard": "PIQUASSO_VERIF",
            "enable": "no source hook is needed: monitors attach from the harness (wrappers resolved through self, sys.monitoring, audit hooks, native modules rebuilt from /repo with a linked-in shim); checks export PIQUASSO_VERIF=1",
            "baseline_off_cmd": "cd /repo && env -u PIQUASSO_VERIF /venv/bin/python -m pytest -q -p no:cacheprovider --timeout=900 --continue-on-collection-errors",
            "source_commits": [],
            "add_only": True,
        },
        "engines": [{
            "name": "vf",
            "path": "/verif/vf",
            "serves_properties": served,
            "kind_free_text": "runtime monitoring harness: sharded workloads on the real code from /repo's working tree (native modules rebuilt, optionally under ASan/UBSan/TSan), monitors attached from outside, differential/reference oracles, three-valued verdicts",
        }],
        "checks": checks,
        "notes": "Exit codes: 0 held on everything observed, 1 VIOLATION (not listed in known_findings.json), 2 INCONCLUSIVE (a deciding monitor was never reached / build failure / watchdog). Known findings: /verif/known_findings.json (mechanism-keyed).",
        "not_applicable": na,
    }
    with open(os.path.join(VERIF, "MANIFEST.json"), "w") as fh:
        json.dump(m, fh, indent=1)
    print("checks:", served, "not yet:", [x["property_id"] for x in na])


if __name__ == "__main__":
    main()
