"""Child-process entry: python -m vf.shard <check module> shard|replay <spec.json> <out.json>"""
import importlib
import json
import os
import sys
import time
import traceback


def main():
    modname, mode, spec_path, out_path = sys.argv[1:5]
    from vf import boot

    with open(spec_path) as fh:
        spec = json.load(fh)
    if not spec.get("no_piquasso"):
        boot.install()
    boot.ensure_deps()
    mod = importlib.import_module(modname)
    t0 = time.time()
    try:
        if mode == "replay":
            vs = mod.replay(spec["case"])
            res = {"evaluations": 1, "violations": vs, "classes": [], "counters": {}}
        else:
            res = mod.run_shard(spec)
    except BaseException:
        traceback.print_exc()
        sys.stdout.flush()
        os._exit(3)
    res["shard_wall_s"] = time.time() - t0
    tmp = out_path + ".tmp"
    with open(tmp, "w") as fh:
        json.dump(res, fh, default=_default)
    os.replace(tmp, out_path)
    sys.stdout.flush()
    sys.stderr.flush()
    # TensorFlow / JAX teardown occasionally hangs or aborts; results are on disk.
    os._exit(0)


def _default(o):
    try:
        import numpy as np

        if isinstance(o, np.ndarray):
            return o.tolist()
        if isinstance(o, np.generic):
            return o.item()
    except Exception:
        pass
    if isinstance(o, complex):
        return [o.real, o.imag]
    if isinstance(o, (set, frozenset, tuple)):
        return list(o)
    return repr(o)


if __name__ == "__main__":
    main()
