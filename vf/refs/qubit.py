"""Independent state-vector reference for small qubit circuits (<= 3-4 qubits), numpy only.

Circuit document (JSON-able; the same document is turned into a Qiskit circuit by
``to_qiskit`` so that a case is replayable from the document alone)::

    {"nq": 2, "ncl": 2, "ops": [
        {"g": "h",  "q": [0]},
        {"g": "rx", "q": [1], "p": [0.3]},
        {"g": "u",  "q": [0], "p": [theta, phi, lam]},
        {"g": "cx", "q": [control, target]},
        {"g": "measure", "q": [0], "c": 1},
        {"g": "if", "c": 1, "v": 1, "body": [ops...], "else": [ops...]}      # else optional
    ]}

Conventions (Qiskit's, derived from its documentation and cross-checked in ``selftest``):

* little endian: qubit j is bit j of the basis-state index (qubit 0 = least significant);
* rx/ry/rz(t) = exp(-i t P / 2);  p(l) = diag(1, e^{il});
  u(t, phi, lam) = [[cos t/2, -e^{i lam} sin t/2], [e^{i phi} sin t/2, e^{i(phi+lam)} cos t/2]];
* cx(control, target); cz symmetric;
* classical bits start at 0, ``measure`` overwrites its bit, ``if`` compares one bit.

``branches(doc)`` returns every measurement branch with its exact probability, the final
classical bits and the *measurement record* (values in execution order).  Nothing here uses
Qiskit; ``selftest`` (and the cross-check hook used by the C19 check) compares this model
with ``qiskit.quantum_info.Statevector`` only to validate the model, never as the oracle.
"""

import cmath
import math

import numpy as np

SQ = 1.0 / math.sqrt(2.0)
ONE_QUBIT = ("h", "x", "y", "z", "rx", "ry", "rz", "u", "p")
TWO_QUBIT = ("cz", "cx")
NPARAMS = {"h": 0, "x": 0, "y": 0, "z": 0, "rx": 1, "ry": 1, "rz": 1, "u": 3, "p": 1, "cz": 0, "cx": 0}


def gate_matrix(name, params=()):
    """2x2 matrix of a one-qubit gate in Qiskit's convention."""
    if name == "h":
        return np.array([[SQ, SQ], [SQ, -SQ]], dtype=complex)
    if name == "x":
        return np.array([[0, 1], [1, 0]], dtype=complex)
    if name == "y":
        return np.array([[0, -1j], [1j, 0]], dtype=complex)
    if name == "z":
        return np.array([[1, 0], [0, -1]], dtype=complex)
    if name == "rx":
        c, s = math.cos(params[0] / 2), math.sin(params[0] / 2)
        return np.array([[c, -1j * s], [-1j * s, c]], dtype=complex)
    if name == "ry":
        c, s = math.cos(params[0] / 2), math.sin(params[0] / 2)
        return np.array([[c, -s], [s, c]], dtype=complex)
    if name == "rz":
        return np.array([[cmath.exp(-0.5j * params[0]), 0], [0, cmath.exp(0.5j * params[0])]], dtype=complex)
    if name == "p":
        return np.array([[1, 0], [0, cmath.exp(1j * params[0])]], dtype=complex)
    if name == "u":
        t, phi, lam = params
        c, s = math.cos(t / 2), math.sin(t / 2)
        return np.array([[c, -cmath.exp(1j * lam) * s],
                         [cmath.exp(1j * phi) * s, cmath.exp(1j * (phi + lam)) * c]], dtype=complex)
    raise ValueError("unknown one-qubit gate %r" % name)


def apply_1q(state, nq, q, m):
    """Apply the 2x2 matrix m to qubit q of a little-endian state vector."""
    out = np.empty_like(state)
    bit = 1 << q
    for i in range(1 << nq):
        if i & bit:
            continue
        a0, a1 = state[i], state[i | bit]
        out[i] = m[0, 0] * a0 + m[0, 1] * a1
        out[i | bit] = m[1, 0] * a0 + m[1, 1] * a1
    return out


def apply_gate(state, nq, op):
    g = op["g"]
    if g in ONE_QUBIT:
        return apply_1q(state, nq, op["q"][0], gate_matrix(g, op.get("p", ())))
    if g == "cz":
        a, b = op["q"]
        out = state.copy()
        for i in range(1 << nq):
            if (i >> a) & 1 and (i >> b) & 1:
                out[i] = -out[i]
        return out
    if g == "cx":
        c, t = op["q"]
        out = state.copy()
        for i in range(1 << nq):
            if (i >> c) & 1 and not (i >> t) & 1:
                j = i | (1 << t)
                out[i], out[j] = state[j], state[i]
        return out
    raise ValueError("unknown gate %r" % g)


class Branch:
    __slots__ = ("prob", "state", "clbits", "record", "steps")

    def __init__(self, prob, state, clbits, record, steps):
        self.prob = prob        # exact joint probability of the record
        self.state = state      # normalised state vector
        self.clbits = clbits    # tuple of ints
        self.record = record    # tuple of measured values in execution order
        self.steps = steps      # tuple of (conditional probability, number of entangling gates
        #                         executed since the previous measurement) per measurement


def _run(ops, nq, br, force=None):
    """Apply ops to every branch in br (list of [Branch, ent_since_last_measure])."""
    for op in ops:
        g = op["g"]
        if g == "measure":
            q, c = op["q"][0], op["c"]
            new = []
            for b, ent in br:
                mask = np.array([(i >> q) & 1 for i in range(1 << nq)])
                for val in (0, 1):
                    comp = np.where(mask == val, b.state, 0)
                    pc = float(np.vdot(comp, comp).real)
                    if pc <= 0.0:
                        continue
                    cl = list(b.clbits)
                    cl[c] = val
                    nb = Branch(b.prob * pc, comp / math.sqrt(pc), tuple(cl), b.record + (val,), b.steps + ((pc, ent),))
                    new.append([nb, 0])
            br = new
        elif g == "if":
            taken, rest = [], []
            for item in br:
                if force == "always":
                    met = True
                elif force == "never":
                    met = False
                else:
                    met = item[0].clbits[op["c"]] == op["v"]
                (taken if met else rest).append(item)
            taken = _run(op["body"], nq, taken, force) if taken else []
            if op.get("else"):
                rest = _run(op["else"], nq, rest, force) if rest else []
            br = taken + rest
        else:
            for item in br:
                item[0].state = apply_gate(item[0].state, nq, op)
                if g in TWO_QUBIT:
                    item[1] += 1
    return br


def branches(doc, force=None):
    """All measurement branches of the circuit document. force in (None, 'always', 'never')
    overrides every condition (used only to tell whether a condition matters)."""
    nq = int(doc["nq"])
    st = np.zeros(1 << nq, dtype=complex)
    st[0] = 1.0
    b0 = Branch(1.0, st, tuple([0] * int(doc.get("ncl", 0))), (), ())
    return [b for b, _ in _run(doc["ops"], nq, [[b0, 0]], force)]


def record_distribution(doc, force=None):
    out = {}
    for b in branches(doc, force):
        out[b.record] = out.get(b.record, 0.0) + b.prob
    return out


def clbit_distribution(doc):
    """Exact distribution over the final classical bits (tuple indexed by clbit number)."""
    out = {}
    for b in branches(doc):
        out[b.clbits] = out.get(b.clbits, 0.0) + b.prob
    return out


def final_probabilities(doc):
    """Computational-basis probabilities of the final state of a measurement-free document,
    as a vector indexed little-endian."""
    bs = branches(doc)
    assert len(bs) == 1
    return np.abs(bs[0].state) ** 2


# ------------------------------------------------------------------ Qiskit side (construction only)
def _emit(qc, op):
    g = op["g"]
    if g == "measure":
        qc.measure(op["q"][0], op["c"])
    elif g == "if":
        cond = (qc.clbits[op["c"]], int(op["v"]))
        if op.get("else"):
            with qc.if_test(cond) as else_:
                for o in op["body"]:
                    _emit(qc, o)
            with else_:
                for o in op["else"]:
                    _emit(qc, o)
        else:
            with qc.if_test(cond):
                for o in op["body"]:
                    _emit(qc, o)
    else:
        getattr(qc, g)(*[float(p) for p in op.get("p", ())], *op["q"])


def to_qiskit(doc):
    from qiskit import QuantumCircuit

    qc = QuantumCircuit(int(doc["nq"]), int(doc.get("ncl", 0)))
    for op in doc["ops"]:
        _emit(qc, op)
    return qc


def deferred_qiskit_distribution(doc):
    """Cross-validation only: the record distribution of `doc` computed with Qiskit's
    Statevector by the deferred-measurement principle (a condition on a classical bit becomes
    a quantum control on the qubit whose measurement wrote the bit).  Applicable when no qubit
    is touched after its measurement and there is no measurement inside a conditional block;
    returns None otherwise."""
    from qiskit import QuantumCircuit
    from qiskit.circuit.library import (HGate, XGate, YGate, ZGate, RXGate, RYGate, RZGate, UGate, PhaseGate,
                                        CZGate, CXGate)
    from qiskit.quantum_info import Statevector

    lib = {"h": HGate, "x": XGate, "y": YGate, "z": ZGate, "rx": RXGate, "ry": RYGate, "rz": RZGate, "u": UGate,
           "p": PhaseGate, "cz": CZGate, "cx": CXGate}
    nq = int(doc["nq"])
    qc = QuantumCircuit(nq)
    measured = []            # qubits in measurement order
    writer = {}              # clbit -> qubit that wrote it last

    def emit(op, ctrl=None):
        g = op["g"]
        if any(q in measured for q in op.get("q", [])):
            raise LookupError
        gate = lib[g](*[float(p) for p in op.get("p", ())])
        if ctrl is None:
            qc.append(gate, list(op["q"]))
        else:
            cq, val = ctrl
            qc.append(gate.control(1, ctrl_state=int(val)), [cq] + list(op["q"]))

    try:
        for op in doc["ops"]:
            if op["g"] == "measure":
                if op["q"][0] in measured:
                    return None
                measured.append(op["q"][0])
                writer[op["c"]] = op["q"][0]
            elif op["g"] == "if":
                if op["c"] not in writer:
                    return None
                for o in op["body"]:
                    if o["g"] in ("measure", "if"):
                        return None
                    emit(o, (writer[op["c"]], op["v"]))
                for o in op.get("else") or []:
                    if o["g"] in ("measure", "if"):
                        return None
                    emit(o, (writer[op["c"]], 1 - op["v"]))
            else:
                emit(op)
    except LookupError:
        return None
    probs = Statevector.from_instruction(qc).probabilities()
    out = {}
    for i, p in enumerate(probs):
        rec = tuple((i >> q) & 1 for q in measured)
        out[rec] = out.get(rec, 0.0) + float(p)
    return out


def crosscheck(doc, atol=1e-12):
    """Compare this model with the Qiskit-based deferred-measurement evaluation.
    Returns None when not applicable, else the largest absolute difference; raises
    AssertionError when the two disagree (a harness bug, never a finding)."""
    q = deferred_qiskit_distribution(doc)
    if q is None:
        return None
    mine = record_distribution(doc)
    worst = 0.0
    for k in set(q) | set(mine):
        worst = max(worst, abs(q.get(k, 0.0) - mine.get(k, 0.0)))
    if worst > atol:
        raise AssertionError("qubit reference disagrees with Qiskit Statevector by %.3e on %r" % (worst, doc))
    return worst


# ------------------------------------------------------------------ self-test
def selftest(n=400, seed=0, verbose=True):
    """Validation of this model against qiskit.quantum_info (Operator / Statevector):
    1. every gate matrix equals Operator(gate) entry-wise (including global phase);
    2. endianness: x on qubit 0 of 3 moves |000> to index 1; cx(0,1) maps index 1 -> 3;
    3. random unitary circuits: the final probability vector equals Statevector's;
    4. random dynamic circuits (mid-circuit measurement, if/else): record distribution equals
       the deferred-measurement evaluation done with Qiskit;
    5. hand-computed dynamic examples (teleportation-style correction, overwritten clbit)."""
    from qiskit import QuantumCircuit
    from qiskit.quantum_info import Operator, Statevector

    rng = np.random.default_rng(seed)
    worst = 0.0
    # 1
    for g in ONE_QUBIT:
        for _ in range(5):
            ps = [float(x) for x in rng.uniform(-7, 7, size=NPARAMS[g])]
            qc = QuantumCircuit(1)
            getattr(qc, g)(*ps, 0)
            d = np.abs(Operator(qc).data - gate_matrix(g, ps)).max()
            assert d < 1e-14, (g, ps, d)
            worst = max(worst, d)
    # 1b two-qubit gates as 4x4 matrices on (q0,q1) little endian
    for g, qs in (("cx", [0, 1]), ("cx", [1, 0]), ("cz", [0, 1]), ("cz", [1, 0])):
        qc = QuantumCircuit(2)
        getattr(qc, g)(*qs)
        M = np.zeros((4, 4), dtype=complex)
        for i in range(4):
            e = np.zeros(4, dtype=complex)
            e[i] = 1
            M[:, i] = apply_gate(e, 2, {"g": g, "q": qs})
        assert np.abs(Operator(qc).data - M).max() < 1e-15, (g, qs)
    # 2
    e = np.zeros(8, dtype=complex)
    e[0] = 1
    assert np.argmax(np.abs(apply_gate(e, 3, {"g": "x", "q": [0]}))) == 1
    assert np.argmax(np.abs(apply_gate(e, 3, {"g": "x", "q": [2]}))) == 4
    e1 = np.zeros(8, dtype=complex)
    e1[1] = 1
    assert np.argmax(np.abs(apply_gate(e1, 3, {"g": "cx", "q": [0, 1]}))) == 3
    assert np.argmax(np.abs(apply_gate(e1, 3, {"g": "cx", "q": [1, 0]}))) == 1
    # 3 + 4
    from vf.checks import c19 as G

    n_unitary = n_dynamic = 0
    for i in range(n):
        doc = G.gen_case(rng, "thorough", allow_exotic=True, feasible=False)["circuit"]
        plain = {"nq": doc["nq"], "ncl": 0, "ops": [o for o in doc["ops"] if o["g"] not in ("measure", "if")]}
        sv = Statevector.from_instruction(to_qiskit(plain)).probabilities()
        d = np.abs(sv - final_probabilities(plain)).max()
        assert d < 1e-12, (plain, d)
        worst = max(worst, d)
        n_unitary += 1
        w = crosscheck(doc)
        if w is not None:
            n_dynamic += 1
            worst = max(worst, w)
    # 5 hand-computed
    doc = {"nq": 2, "ncl": 2, "ops": [{"g": "h", "q": [0]}, {"g": "measure", "q": [0], "c": 0},
                                       {"g": "if", "c": 0, "v": 1, "body": [{"g": "x", "q": [1]}]},
                                       {"g": "measure", "q": [1], "c": 1}]}
    r = record_distribution(doc)
    assert set(r) == {(0, 0), (1, 1)} and abs(r[(0, 0)] - 0.5) < 1e-15
    assert clbit_distribution(doc) == r
    doc = {"nq": 2, "ncl": 1, "ops": [{"g": "x", "q": [0]}, {"g": "measure", "q": [0], "c": 0},
                                       {"g": "measure", "q": [1], "c": 0},     # overwrites with 0
                                       ]}
    assert clbit_distribution(doc) == {(0,): 1.0} and record_distribution(doc) == {(1, 0): 1.0}
    doc = {"nq": 2, "ncl": 2, "ops": [{"g": "ry", "q": [0], "p": [2 * math.asin(math.sqrt(0.3))]},
                                       {"g": "measure", "q": [0], "c": 1},
                                       {"g": "if", "c": 1, "v": 0, "body": [{"g": "h", "q": [1]}], "else": [{"g": "x", "q": [1]}]},
                                       {"g": "measure", "q": [1], "c": 0}]}
    r = clbit_distribution(doc)   # clbits tuple = (c0, c1) = (qubit1 result, qubit0 result)
    assert abs(r[(0, 0)] - 0.35) < 1e-12 and abs(r[(1, 0)] - 0.35) < 1e-12 and abs(r[(1, 1)] - 0.3) < 1e-12 and (0, 1) not in r
    if verbose:
        print("qubit reference selftest ok: %d unitary circuits, %d dynamic circuits, worst difference %.2e"
              % (n_unitary, n_dynamic, worst))
    return {"unitary": n_unitary, "dynamic": n_dynamic, "worst": worst}


if __name__ == "__main__":
    from vf import boot  # noqa: F401  (qiskit lives in the same venv; piquasso is not needed here)

    selftest()
