"""Independent references for the matrix functions (C04), in extended precision.

All references evaluate the *defining sums* (coefficient extraction of the generating
polynomial for the permanent, perfect-matching sums for hafnians, subset sums of determinants
for torontonians, Laplace-type expansion for the Pfaffian) in numpy longdouble (64-bit
mantissa) or exact rational arithmetic, and return, next to the value, an *envelope*: the
sum of the absolute values of the addends of the algorithm-independent defining sum. A
double-precision evaluation by any backward-stable summation differs from the true value by
at most O(ops * eps * envelope).
"""

import itertools
from fractions import Fraction

import numpy as np

LD = np.longdouble
CLD = np.clongdouble


# ----------------------------------------------------------------------------- permanent
def perm_multiplicity(A, rows, cols):
    """Permanent of A with row multiplicities `rows`, column multiplicities `cols`:
         per = (prod_j c_j!) * [prod_j y_j^{c_j}]  prod_i (sum_j a_ij y_j)^{r_i}
    Returns (value, envelope) as (clongdouble, longdouble). Envelope = same expression with
    |a_ij| (it bounds the sum of |monomial contributions|)."""
    A = np.asarray(A)
    rows = [int(r) for r in rows]
    cols = [int(c) for c in cols]
    if sum(rows) != sum(cols):
        raise ValueError("row and column multiplicities must have equal sums")
    if sum(rows) == 0 or A.size == 0:
        return CLD(1), LD(1)
    keep_r = [i for i, r in enumerate(rows) if r > 0]
    keep_c = [j for j, c in enumerate(cols) if c > 0]
    A = A[np.ix_(keep_r, keep_c)].astype(CLD)
    rows = [rows[i] for i in keep_r]
    cols = [cols[j] for j in keep_c]
    m = len(cols)
    shape = tuple(c + 1 for c in cols)
    poly = np.zeros(shape, dtype=CLD)
    env = np.zeros(shape, dtype=LD)
    poly[(0,) * m] = 1
    env[(0,) * m] = 1
    absA = np.abs(A).astype(LD)
    for i, r in enumerate(rows):
        for _ in range(r):
            new = np.zeros(shape, dtype=CLD)
            newe = np.zeros(shape, dtype=LD)
            for j in range(m):
                if A[i, j] == 0:
                    continue
                src = [slice(None)] * m
                dst = [slice(None)] * m
                src[j] = slice(0, shape[j] - 1)
                dst[j] = slice(1, shape[j])
                new[tuple(dst)] += A[i, j] * poly[tuple(src)]
                newe[tuple(dst)] += absA[i, j] * env[tuple(src)]
            poly, env = new, newe
    fact = LD(1)
    for c in cols:
        for k in range(2, c + 1):
            fact *= k
    idx = tuple(c for c in cols)
    return poly[idx] * fact, env[idx] * fact


def glynn_envelope(A, rows, cols):
    """Sum of the absolute values of the addends of the Glynn/BBFG formula with repetitions
    (Eq. (8) of arXiv:2309.07027), one copy of the smallest repeated row kept with delta=+1:
        per = 2^{-(N-1)} sum_k prod_i C(r_i,k_i) (-1)^{sum k} prod_j (sum_i (r_i-2k_i) a_ij)^{c_j}
    A double-precision evaluation of that formula differs from the true value by O(eps * this)."""
    A = np.asarray(A).astype(np.complex128)
    rows = [int(r) for r in rows]
    cols = [int(c) for c in cols]
    N = sum(rows)
    if N == 0 or A.size == 0 or N != sum(cols):
        return LD(1)
    keep_r = [i for i, r in enumerate(rows) if r > 0]
    keep_c = [j for j, c in enumerate(cols) if c > 0]
    A = A[np.ix_(keep_r, keep_c)]
    rows = [rows[i] for i in keep_r]
    cols = np.array([cols[j] for j in keep_c])
    imin = int(np.argmin(rows))
    first = A[imin].copy()
    rows[imin] -= 1
    import math

    ranges = [range(r + 1) for r in rows]
    total = LD(0)
    for ks in itertools.product(*ranges):
        w = 1.0
        colsum = first.copy()
        for i, k in enumerate(ks):
            w *= math.comb(rows[i], k)
            colsum = colsum + (rows[i] - 2 * k) * A[i]
        total += LD(w) * LD(np.prod(np.abs(colsum).astype(LD) ** cols))
    return total / LD(2) ** (N - 1)


def perm_multiplicity_exact(A, rows, cols):
    """Same in exact rational arithmetic (validation of the longdouble reference)."""
    A = np.asarray(A)
    rows = [int(r) for r in rows]
    cols = [int(c) for c in cols]
    n, m = A.shape
    poly = {(0,) * m: (Fraction(1), Fraction(0))}
    for i in range(n):
        for _ in range(rows[i]):
            new = {}
            for mon, (re, im) in poly.items():
                for j in range(m):
                    if mon[j] + 1 > cols[j]:
                        continue
                    a = complex(A[i, j])
                    if a == 0:
                        continue
                    ar, ai = Fraction(a.real), Fraction(a.imag)
                    k = mon[:j] + (mon[j] + 1,) + mon[j + 1:]
                    pr, pi = new.get(k, (Fraction(0), Fraction(0)))
                    new[k] = (pr + re * ar - im * ai, pi + re * ai + im * ar)
            poly = new
    re, im = poly.get(tuple(cols), (Fraction(0), Fraction(0)))
    f = 1
    for c in cols:
        for k in range(2, c + 1):
            f *= k
    return re * f, im * f


def perm_laplace(A, rows, cols):
    """Vector of permanents with column multiplicities cols - e_j (rows fixed);
    sum(cols) = sum(rows) + 1. Entry j is None when cols[j] == 0."""
    out = []
    for j in range(len(cols)):
        if cols[j] == 0:
            out.append(None)
            continue
        c2 = list(cols)
        c2[j] -= 1
        out.append(perm_multiplicity(A, rows, c2))
    return out


# ----------------------------------------------------------------------------- hafnians
def _expand_indices(reduce_on):
    idx = []
    for i, n in enumerate(reduce_on):
        idx.extend([i] * int(n))
    return idx


def loop_hafnian(A, diag=None):
    """Loop hafnian of the (already expanded) symmetric matrix A with loop weights `diag`
    (diag=None: plain hafnian). Bitmask DP over perfect matchings with singletons.
    Returns (value, envelope)."""
    A = np.asarray(A).astype(CLD)
    n = A.shape[0]
    absA = np.abs(A).astype(LD)
    D = None if diag is None else np.asarray(diag).astype(CLD)
    absD = None if diag is None else np.abs(D).astype(LD)
    if n == 0:
        return CLD(1), LD(1)
    if D is None and n % 2 == 1:
        return CLD(0), LD(0)
    full = (1 << n) - 1
    memo = {0: (CLD(1), LD(1))}

    def f(mask):
        if mask in memo:
            return memo[mask]
        i = (mask & -mask).bit_length() - 1
        rest = mask & ~(1 << i)
        val = CLD(0)
        env = LD(0)
        if D is not None:
            v, e = f(rest)
            val += D[i] * v
            env += absD[i] * e
        r = rest
        while r:
            j = (r & -r).bit_length() - 1
            r &= r - 1
            v, e = f(rest & ~(1 << j))
            val += A[i, j] * v
            env += absA[i, j] * e
        memo[mask] = (val, env)
        return memo[mask]

    return f(full)


def _dense_envelope(n, amax, dmax=None):
    """(Loop) hafnian of the n x n matrix with every entry amax (loops dmax): the magnitude
    scale of the intermediate quantities of trace/Glynn-type algorithms, which do not see
    structural zeros."""
    J = np.full((n, n), float(amax))
    D = None if dmax is None else np.full(n, float(dmax))
    return loop_hafnian(J, D)[0].real


def hafnian_reduced(A, reduce_on):
    idx = _expand_indices(reduce_on)
    Ae = np.asarray(A)[np.ix_(idx, idx)]
    v, e = loop_hafnian(Ae, None)
    if len(idx) and len(idx) % 2 == 0:
        e = max(e, _dense_envelope(len(idx), np.abs(Ae).max()))
    return v, e


def loop_hafnian_reduced(A, diag, reduce_on):
    idx = _expand_indices(reduce_on)
    Ae = np.asarray(A)[np.ix_(idx, idx)]
    De = np.asarray(diag)[idx]
    v, e = loop_hafnian(Ae, De)
    if len(idx):
        e = max(e, _dense_envelope(len(idx), np.abs(Ae).max(), np.abs(De).max()))
    return v, e


# ----------------------------------------------------------------------------- torontonians
def _xpxp_subset(S):
    out = []
    for s in S:
        out += [2 * s, 2 * s + 1]
    return out


def torontonian(A, gamma=None):
    """tor(A) = sum_{S} (-1)^{d-|S|} / sqrt(det(1 - A_S))   (A in xpxp ordering)
       ltor(A, gamma) additionally carries exp(gamma_S^T (1 - A_S)^{-1} gamma_S / 2).
    Returns (value, envelope = sum of |summands|)."""
    A = np.asarray(A, dtype=np.float64)
    d = A.shape[0] // 2
    val = LD(0)
    env = LD(0)
    for k in range(d + 1):
        for S in itertools.combinations(range(d), k):
            idx = _xpxp_subset(S)
            if idx:
                Mx = np.eye(len(idx)) - A[np.ix_(idx, idx)]
                sign, logdet = np.linalg.slogdet(Mx)
                if sign <= 0:
                    return None, None  # outside the domain (1 - A_S must be positive definite)
                term = np.exp(LD(-0.5) * LD(logdet))
                if gamma is not None:
                    g = np.asarray(gamma, dtype=np.float64)[idx]
                    term = term * np.exp(LD(0.5) * LD(g @ np.linalg.solve(Mx, g)))
            else:
                term = LD(1)
            s = 1 if (d - k) % 2 == 0 else -1
            val += s * term
            env += term
    return val, env


# ----------------------------------------------------------------------------- pfaffian
def pfaffian(A):
    """Pfaffian by the recursive expansion along the first row (bitmask DP).
    Returns (value, envelope)."""
    A = np.asarray(A).astype(LD)
    n = A.shape[0]
    if n == 0:
        return LD(1), LD(1)
    if n % 2 == 1:
        return LD(0), LD(0)
    memo = {0: (LD(1), LD(1))}

    def f(mask):
        if mask in memo:
            return memo[mask]
        idx = [i for i in range(n) if mask >> i & 1]
        i = idx[0]
        val = LD(0)
        env = LD(0)
        for pos, j in enumerate(idx[1:]):
            v, e = f(mask & ~(1 << i) & ~(1 << j))
            s = 1 if pos % 2 == 0 else -1
            val += s * A[i, j] * v
            env += abs(A[i, j]) * e
        memo[mask] = (val, env)
        return memo[mask]

    return f((1 << n) - 1)
