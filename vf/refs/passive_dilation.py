"""Reference models for C05 (DESIGN §4 C05): what a lossy / partially distinguishable
boson-sampling state *means*, written as explicit lossless physics and executed on the pure
Fock simulator (an algorithm that shares nothing with piquasso/_simulators/passive).

(a) Unitary dilation. A transmission matrix T (d x d, singular values in [0, 1]) is completed
    to the 2d-mode unitary

        W = [[ T              , sqrt(1 - T T^+) ],
             [ sqrt(1 - T^+ T), -T^+            ]]      (built through the SVD T = A S B:
                                                         W = diag(A, B^+) [[S, C], [C, -S]] diag(B, A^+))

    The input lives on the first d modes, the d ancillas start in the vacuum, W runs on
    pq.PureFockSimulator (cutoff n + 1) and the ancillas are traced out by summing
    probabilities.

(b) Internal-mode model of partial distinguishability. The Gram matrix is factored
    G = V^+ V (V: k x n, k = rank G <= n); photon i is created in spatial mode m_i with internal
    state v_i = V[:, i], i.e. by the operator sum_a V[a, i] a^+_{(m_i, a)}; the (possibly
    dilated) interferometer acts as W (x) 1_k (one copy of W per internal label) and the
    detectors do not resolve the label, so probabilities are summed over internal labels (and
    ancillas). The input vector is normalised numerically (sum |amplitude|^2), which takes
    care of bunched inputs with non-orthogonal internal states.

Independent closed forms for the two ends of the overlap range: `ideal_distribution`
(permanent formula, indistinguishable, lossless) and `classical_distribution` (independent
particles: every photon of input mode m reaches output j with probability |T[j, m]|^2 and is lost
with the rest - a product of multinomials evaluated by direct convolution).

Conventions (the ones the simulators share, established by C01): an interferometer matrix M
acts as a^+_p -> sum_i M[i, p] a^+_i; photons of DistinguishableNumberState are ordered by
increasing input mode.
"""

import itertools
import math

import numpy as np


# --------------------------------------------------------------------------- transmission matrix
def beamsplitter_matrix(theta, phi):
    t = np.cos(theta)
    r = np.exp(1j * phi) * np.sin(theta)
    return np.array([[t, -np.conj(r)], [r, t]], dtype=complex)


def embed(d, block, modes):
    """d x d matrix acting as `block` on the ordered mode tuple `modes`, identity elsewhere."""
    block = np.asarray(block, dtype=complex)
    E = np.eye(d, dtype=complex)
    for a, ma in enumerate(modes):
        for b, mb in enumerate(modes):
            E[ma, mb] = block[a, b]
    return E


def dilation(T):
    """2d x 2d unitary whose upper-left block is T (singular values clipped into [0, 1])."""
    T = np.asarray(T, dtype=complex)
    d = T.shape[0]
    A, s, B = np.linalg.svd(T)
    s = np.clip(s, 0.0, 1.0)
    c = np.sqrt(np.clip(1.0 - s * s, 0.0, 1.0))
    S, C = np.diag(s).astype(complex), np.diag(c).astype(complex)
    Z = np.zeros((d, d), dtype=complex)
    left = np.block([[A, Z], [Z, B.conj().T]])
    mid = np.block([[S, C], [C, -S]])
    right = np.block([[B, Z], [Z, A.conj().T]])
    # W is unitary by construction; its upper-left block reproduces the given T to rounding
    # (dilation_defect measures both)
    return left @ mid @ right


def dilation_defect(W, T):
    d = T.shape[0]
    return float(max(np.abs(W.conj().T @ W - np.eye(2 * d)).max(), np.abs(W[:d, :d] - T).max()))


# --------------------------------------------------------------------------- running on PureFock
def _purefock_probabilities(pq, nmodes, cutoff, amp_map, gates):
    """gates: [(matrix, modes)]. Returns (basis array, probabilities)."""
    from piquasso._math.fock import get_fock_space_basis

    ins = [pq.FockStateVector({tuple(int(x) for x in k): complex(v) for k, v in amp_map.items()})]
    for mat, modes in gates:
        ins.append(pq.Interferometer(np.asarray(mat, dtype=complex)).on_modes(*[int(m) for m in modes]))
    sim = pq.PureFockSimulator(d=nmodes, config=pq.Config(cutoff=int(cutoff)))
    state = sim.execute(pq.Program(instructions=ins)).state
    probs = np.asarray(state.fock_probabilities, dtype=float)
    basis = np.asarray(get_fock_space_basis(nmodes, int(cutoff)), dtype=int)
    return basis, probs


def _collect(basis, probs, groups):
    """Sum probabilities over everything except the group sums: groups = list of lists of columns;
    the key is the tuple of column sums per group."""
    out = {}
    cols = np.stack([basis[:, g].sum(axis=1) if len(g) else np.zeros(len(basis), dtype=int) for g in groups], axis=1)
    for row, p in zip(cols, probs):
        if p == 0.0:
            continue
        k = tuple(int(x) for x in row)
        out[k] = out.get(k, 0.0) + float(p)
    return out


def dilation_distribution(pq, T, terms, lossless=False):
    """Distribution over the d spatial output modes of the input sum_i c_i |n_i> sent through T.
    terms = [(occupation, amplitude)]. Returns ({occupation tuple: probability}, info)."""
    T = np.asarray(T, dtype=complex)
    d = T.shape[0]
    nmax = max(int(sum(o)) for o, _ in terms)
    if lossless:
        W, D = T, d
    else:
        W, D = dilation(T), 2 * d
    amp = {}
    for o, c in terms:
        k = tuple(int(x) for x in o) + (0,) * (D - d)
        amp[k] = amp.get(k, 0.0) + complex(c)
    basis, probs = _purefock_probabilities(pq, D, nmax + 1, amp, [(W, list(range(D)))])
    return _collect(basis, probs, [[m] for m in range(d)]), {"modes": D, "dim": len(probs), "total": float(probs.sum())}


# --------------------------------------------------------------------------- internal modes
def factor_gram(G, tol=1e-13):
    """V (k x n) with V^+ V = G, k = number of eigenvalues above tol (dropping an eigenvalue
    <= tol changes G by <= tol)."""
    G = np.asarray(G, dtype=complex)
    G = (G + G.conj().T) / 2
    w, Q = np.linalg.eigh(G)
    keep = w > tol
    V = (np.sqrt(w[keep])[:, None]) * Q[:, keep].conj().T
    return V


def uniform_gram(n, x):
    return x * np.ones((n, n), dtype=complex) + (1.0 - x) * np.eye(n, dtype=complex)


def photon_modes(occ):
    return [m for m, c in enumerate(occ) for _ in range(int(c))]


def internal_input(occ, V, D):
    """Normalised amplitude map over D*k modes (index m*k + a) of prod_i sum_a V[a,i] a^+_{(m_i,a)} |0>.
    Returns (map, squared norm of the unnormalised vector)."""
    k = V.shape[0]
    modes = photon_modes(occ)
    state = {(0,) * (D * k): 1.0 + 0.0j}
    for i, m in enumerate(modes):
        new = {}
        for key, amp in state.items():
            for a in range(k):
                c = V[a, i]
                if c == 0:
                    continue
                q = m * k + a
                lst = list(key)
                lst[q] += 1
                kk = tuple(lst)
                new[kk] = new.get(kk, 0.0) + amp * c * math.sqrt(lst[q])
        state = new
    norm2 = float(sum(abs(a) ** 2 for a in state.values()))
    s = math.sqrt(norm2)
    return {k_: a / s for k_, a in state.items()}, norm2


def internal_mode_distribution(pq, T, occ, G, lossless=False):
    """Distribution over the d spatial output modes of labelled photons with Gram matrix G."""
    T = np.asarray(T, dtype=complex)
    d = T.shape[0]
    n = int(sum(occ))
    if n == 0:
        return {(0,) * d: 1.0}, {"modes": 0, "dim": 1, "k": 0, "norm2": 1.0, "total": 1.0}
    V = factor_gram(G)
    k = V.shape[0]
    if lossless:
        W, D = T, d
    else:
        W, D = dilation(T), 2 * d
    amp, norm2 = internal_input(occ, V, D)
    gates = [(W, [m * k + a for m in range(D)]) for a in range(k)]
    basis, probs = _purefock_probabilities(pq, D * k, n + 1, amp, gates)
    groups = [[m * k + a for a in range(k)] for m in range(d)]
    return _collect(basis, probs, groups), {"modes": D * k, "dim": len(probs), "k": k, "norm2": norm2, "total": float(probs.sum())}


# --------------------------------------------------------------------------- closed forms
def ideal_distribution(U, occ):
    """|per(U[s, occ])|^2 / (prod s! prod occ!) for every s with sum(s) = sum(occ) (lossless,
    indistinguishable)."""
    from vf.refs import combinatorial as CB

    U = np.asarray(U, dtype=complex)
    d = U.shape[0]
    n = int(sum(occ))
    fin = math.prod(math.factorial(int(c)) for c in occ)
    out = {}
    for s in compositions(n, d):
        val, _ = CB.perm_multiplicity(U, s, occ)
        out[s] = float(abs(complex(val)) ** 2) / (fin * math.prod(math.factorial(c) for c in s))
    return out


def classical_distribution(T, occ):
    """Independent (fully distinguishable) particles through the transmission matrix T."""
    T = np.asarray(T, dtype=complex)
    d = T.shape[0]
    dist = {(0,) * d: 1.0}
    for m in photon_modes(occ):
        p = np.abs(T[:, m]) ** 2
        lost = max(0.0, 1.0 - float(p.sum()))
        new = {}
        for key, w in dist.items():
            if lost:
                new[key] = new.get(key, 0.0) + w * lost
            for j in range(d):
                if p[j] == 0.0:
                    continue
                lst = list(key)
                lst[j] += 1
                kk = tuple(lst)
                new[kk] = new.get(kk, 0.0) + w * float(p[j])
        dist = new
    return dist


def compositions(n, d):
    """All d-tuples of non-negative integers with sum n."""
    if d == 0:
        return [()] if n == 0 else []
    out = []
    for c in itertools.combinations(range(n + d - 1), d - 1):
        prev = -1
        t = []
        for x in c:
            t.append(x - prev - 1)
            prev = x
        t.append(n + d - 2 - prev)
        out.append(tuple(t))
    return out


# --------------------------------------------------------------------------- views of a distribution
def postselect(dist, d, post):
    """post = {mode: count}. Distribution (not renormalised) over the remaining modes in
    increasing order, and the success probability."""
    rest = [m for m in range(d) if m not in post]
    out = {}
    for key, p in dist.items():
        if all(key[m] == c for m, c in post.items()):
            kk = tuple(key[m] for m in rest)
            out[kk] = out.get(kk, 0.0) + p
    return out, float(sum(out.values()))


def marginal(dist, modes):
    out = {}
    for key, p in dist.items():
        kk = tuple(key[m] for m in modes)
        out[kk] = out.get(kk, 0.0) + p
    return out
