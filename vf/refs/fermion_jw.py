"""Dense 2^d Jordan-Wigner reference for fermionic circuits on d <= 6 modes (harness-only).

Conventions (taken from the library documentation, not from the simulators):

* Basis: |n_0 n_1 ... n_{d-1}>, mode 0 is the left-most tensor factor; single-mode |0> = (1, 0),
  |1> = (0, 1); `f = |0><1|`; Jordan-Wigner strings of Z = diag(1, -1) on the modes to the left:
  f_k = Z^{(x) k} (x) f (x) I^{(x) (d-k-1)}     (piquasso/fermionic/_utils.py:_embed_f docstring).
  Hence |n_0 ... n_{d-1}> = (f_0^+)^{n_0} ... (f_{d-1}^+)^{n_{d-1}} |0>.
* Majorana operators x_k = f_k + f_k^+, p_k = -i (f_k - f_k^+) (fermionic package docstring); the
  covariance matrix is Sigma_ij = -i Tr(rho [m_i, m_j]) / 2. Both orderings are offered:
  "xpxp" m = [x_0, p_0, x_1, p_1, ...] (get_majorana_operators / _transform_to_majorana_basis /
  IsingXX docstrings) and "xxpp" m = [x_0..x_{d-1}, p_0..p_{d-1}] (Eq. `majorana` of the package doc).
* Passive linear gate with unitary U (docstring of gaussian.simulation_steps.passive_linear_gate:
  Gamma^{f+ f} -> conj(U) Gamma^{f+ f} U^T, i.e. Heisenberg picture f -> U f):
  V = exp(i sum_ab H_ab f_a^+ f_b) with U = exp(i H); then V^+ f_a V = sum_b U_ab f_b and
  V f_a^+ |0> = sum_b U_ba f_b^+ |0>.
* Squeezing2(r, phi) on modes (i, j): gates.Squeezing2 docstring: "the bosonic ladder operators are
  just exchanged to fermionic ones", with the explicit action
  S|00> = cos(r/2)|00> - e^{i phi} sin(r/2)|11>,  S|11> = cos(r/2)|11> + e^{-i phi} sin(r/2)|00>.
  The anti-Hermitian generator with this action is  (z^* f_j f_i - z f_i^+ f_j^+) / 2, z = r e^{i phi}
  (for bosons a_j a_i = a_i a_j, so this is the documented exponent). `squeezing2_documented_action`
  lets the caller verify the generator against the two documented equations.
* IsingXX(phi) on modes (i, j): exp(i phi XX), XX = -i m_2 m_3 for the two-mode Majorana operators
  m_1..m_4 = x_i, p_i, x_j, p_j (IsingXX docstring).
* GaussianHamiltonian(H): U = exp(i Hhat), Hhat = sum_ab H_ab c_a c_b^+ with c = [f_1..f_k, f_1^+..f_k^+]
  (piquasso/fermionic/_utils.py:get_fermionic_hamiltonian, "f H f^+").
* ParentHamiltonian(H): rho = e^{Hhat} / Tr e^{Hhat}, Hhat = sum_ab (c_a)^+ H_ab c_b with
  c = [f_1^+..f_d^+, f_1..f_d] (bold f of the fermionic package docstring, "f^+ H f").
"""

import itertools

import numpy as np
import scipy.linalg as sla

_Z = np.diag([1.0, -1.0]).astype(complex)
_I = np.eye(2, dtype=complex)
_F = np.array([[0, 1], [0, 0]], dtype=complex)  # |0><1|

_CACHE = {}


def _kron_all(ops):
    out = np.array([[1.0 + 0j]])
    for o in ops:
        out = np.kron(out, o)
    return out


def ladder(d):
    """(fs, fdags): lists of 2^d x 2^d annihilation / creation matrices."""
    if d not in _CACHE:
        fs = [_kron_all([_Z] * k + [_F] + [_I] * (d - k - 1)) for k in range(d)]
        _CACHE[d] = (fs, [f.conj().T for f in fs])
    return _CACHE[d]


def majoranas(d, order="xpxp"):
    fs, fd = ladder(d)
    xs = [fs[k] + fd[k] for k in range(d)]
    ps = [-1j * (fs[k] - fd[k]) for k in range(d)]
    if order == "xpxp":
        return [m for k in range(d) for m in (xs[k], ps[k])]
    return xs + ps


def occupations(d):
    return list(itertools.product((0, 1), repeat=d))


def index_of(occ):
    i = 0
    for n in occ:
        i = 2 * i + int(n)
    return i


def number_state_vector(occ):
    """(f_0^+)^{n_0} ... (f_{d-1}^+)^{n_{d-1}} |0> built with the ladder operators."""
    d = len(occ)
    fs, fd = ladder(d)
    v = np.zeros(2 ** d, dtype=complex)
    v[0] = 1.0
    for k in reversed(range(d)):
        if occ[k]:
            v = fd[k] @ v
    return v


def pure(v):
    return np.outer(v, v.conj())


# ------------------------------------------------------------------ gates
def hermitian_log(U):
    """Hermitian H with expm(iH) = U for a unitary U (complex Schur form of a normal matrix)."""
    U = np.asarray(U, dtype=complex)
    T, Q = sla.schur(U, output="complex")
    H = (Q * np.angle(np.diag(T))) @ Q.conj().T
    H = (H + H.conj().T) / 2
    err = np.abs(sla.expm(1j * H) - U).max()
    return H, err


def passive_unitary(d, U, modes):
    """Fock-space unitary of the passive gate with single-particle unitary U on `modes`."""
    fs, fd = ladder(d)
    H, err = hermitian_log(U)
    if err > 1e-12:
        raise ArithmeticError("hermitian_log failed: %g" % err)
    G = np.zeros((2 ** d, 2 ** d), dtype=complex)
    for a, ma in enumerate(modes):
        for b, mb in enumerate(modes):
            if H[a, b] != 0:
                G += H[a, b] * (fd[ma] @ fs[mb])
    return sla.expm(1j * G)


def passive_unitary_slater(d, U, modes):
    """Same operator from determinants: <S|V|T> = det U[S, T] on the chosen modes (validation only)."""
    U = np.asarray(U, dtype=complex)
    W = np.eye(d, dtype=complex)
    W[np.ix_(modes, modes)] = U
    occs = occupations(d)
    V = np.zeros((2 ** d, 2 ** d), dtype=complex)
    for T in occs:
        cols = [k for k in range(d) if T[k]]
        for S in occs:
            if sum(S) != sum(T):
                continue
            rows = [k for k in range(d) if S[k]]
            V[index_of(S), index_of(T)] = np.linalg.det(W[np.ix_(rows, cols)]) if rows else 1.0
    return V


def beamsplitter_matrix(theta, phi):
    """gates.Beamsplitter docstring: [[t, -conj(r)], [r, t]], t = cos(theta), r = e^{i phi} sin(theta)."""
    t = np.cos(theta)
    r = np.exp(1j * phi) * np.sin(theta)
    return np.array([[t, -np.conj(r)], [r, t]], dtype=complex)


def phaseshifter_matrix(phi):
    return np.array([[np.exp(1j * phi)]], dtype=complex)


def squeezing2_unitary(d, r, phi, modes):
    fs, fd = ladder(d)
    i, j = modes
    z = r * np.exp(1j * phi)
    G = 0.5 * (np.conj(z) * (fs[j] @ fs[i]) - z * (fd[i] @ fd[j]))
    return sla.expm(G)


def squeezing2_documented_action(r, phi):
    """Columns S|00>, S|11> in the basis (|00>, |01>, |10>, |11>) as printed in the docstring."""
    c, s = np.cos(r / 2), np.sin(r / 2)
    s00 = np.array([c, 0, 0, -np.exp(1j * phi) * s])
    s11 = np.array([np.exp(-1j * phi) * s, 0, 0, c])
    return s00, s11


def ising_xx_unitary(d, phi, modes):
    fs, fd = ladder(d)
    i, j = modes
    p_i = -1j * (fs[i] - fd[i])
    x_j = fs[j] + fd[j]
    XX = -1j * (p_i @ x_j)
    return np.cos(phi) * np.eye(2 ** d) + 1j * np.sin(phi) * XX


def gaussian_hamiltonian_operator(d, H, modes):
    """Hhat = sum_ab H_ab c_a c_b^+, c = [f_m1..f_mk, f_m1^+..f_mk^+]."""
    fs, fd = ladder(d)
    c = [fs[m] for m in modes] + [fd[m] for m in modes]
    G = np.zeros((2 ** d, 2 ** d), dtype=complex)
    for a in range(len(c)):
        for b in range(len(c)):
            if H[a, b] != 0:
                G += H[a, b] * (c[a] @ c[b].conj().T)
    return G


def gaussian_hamiltonian_unitary(d, H, modes):
    return sla.expm(1j * gaussian_hamiltonian_operator(d, np.asarray(H, dtype=complex), modes))


def parent_hamiltonian_state(d, H):
    """rho = e^{Hhat}/Tr e^{Hhat}, Hhat = sum_ab (c_a)^+ H_ab c_b, c = [f_1^+..f_d^+, f_1..f_d]."""
    fs, fd = ladder(d)
    c = list(fd) + list(fs)
    H = np.asarray(H, dtype=complex)
    G = np.zeros((2 ** d, 2 ** d), dtype=complex)
    for a in range(2 * d):
        for b in range(2 * d):
            if H[a, b] != 0:
                G += H[a, b] * (c[a].conj().T @ c[b])
    G = (G + G.conj().T) / 2
    w, v = np.linalg.eigh(G)
    w = np.exp(w - w.max())
    rho = (v * w) @ v.conj().T
    return rho / np.trace(rho).real


def apply(rho, V):
    return V @ rho @ V.conj().T


# ------------------------------------------------------------------ observables
def covariance(rho, order="xpxp"):
    d = int(np.log2(rho.shape[0]))
    ms = majoranas(d, order)
    n = 2 * d
    S = np.zeros((n, n))
    for a in range(n):
        for b in range(a + 1, n):
            c = ms[a] @ ms[b] - ms[b] @ ms[a]
            S[a, b] = (-1j * np.trace(rho @ c) / 2).real
            S[b, a] = -S[a, b]
    return S


def correlation(rho):
    """Gamma = [[<f+ f>, <f+ f+>], [<f f>, <f f+>]] (GaussianState.correlation_matrix docstring)."""
    d = int(np.log2(rho.shape[0]))
    fs, fd = ladder(d)
    left = list(fd) + list(fs)
    right = list(fs) + list(fd)
    G = np.zeros((2 * d, 2 * d), dtype=complex)
    for a in range(2 * d):
        for b in range(2 * d):
            G[a, b] = np.trace(rho @ left[a] @ right[b])
    return G


def probabilities(rho):
    d = int(np.log2(rho.shape[0]))
    diag = np.real(np.diag(rho))
    return {occ: float(diag[index_of(occ)]) for occ in occupations(d)}


def number_distribution(probs, d):
    out = np.zeros(d + 1)
    for occ, p in probs.items():
        out[sum(occ)] += p
    return out


def self_check(rng, d=3):
    """Internal consistency of the reference (CAR, documented Squeezing2 action, expm vs Slater). Returns max error."""
    fs, fd = ladder(d)
    worst = 0.0
    for a in range(d):
        for b in range(d):
            worst = max(worst, np.abs(fs[a] @ fd[b] + fd[b] @ fs[a] - (a == b) * np.eye(2 ** d)).max())
            worst = max(worst, np.abs(fs[a] @ fs[b] + fs[b] @ fs[a]).max())
    r, phi = float(rng.uniform(-2, 2)), float(rng.uniform(-3, 3))
    S = squeezing2_unitary(2, r, phi, (0, 1))
    s00, s11 = squeezing2_documented_action(r, phi)
    worst = max(worst, np.abs(S[:, 0] - s00).max(), np.abs(S[:, 3] - s11).max())
    z = (rng.normal(size=(d, d)) + 1j * rng.normal(size=(d, d)))
    q, _ = np.linalg.qr(z)
    modes = list(range(d))
    worst = max(worst, np.abs(passive_unitary(d, q, modes) - passive_unitary_slater(d, q, modes)).max())
    X = np.array([[0, 1], [1, 0]], dtype=complex)
    worst = max(worst, np.abs(ising_xx_unitary(2, 0.3, (0, 1)) - sla.expm(0.3j * np.kron(X, X))).max())
    return float(worst)
