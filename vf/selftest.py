"""Sensitivity self-test: run a check against a scratch copy of the repository with one
realistic single-edit break applied (VERIF_REPO), expecting exit 1.

  python -m vf.selftest C20            # all mutants registered for C20
  python -m vf.selftest C20 name       # one mutant
  python -m vf.selftest --patch /verif/seeded/x/patch.diff C12   # a seeded patch

The scratch copy lives under /tmp/vfmut/<pid>/ (outside /repo and /verif) and is removed
afterwards unless --keep. Mutants are registered in vf/mut/cNN.py.
Nothing here is part of a registered check.
"""

import argparse
import json
import os
import shutil
import subprocess
import sys
import time

VERIF = os.path.dirname(os.path.dirname(os.path.abspath(__file__)))
SCRATCH = "/tmp/vfmut/%d" % os.getpid()
LOG = os.path.join(VERIF, "selftest_log.jsonl")


def fresh_copy():
    os.makedirs(SCRATCH, exist_ok=True)
    dst = os.path.join(SCRATCH, "repo")
    os.makedirs(dst, exist_ok=True)
    for sub in ("piquasso", "src"):
        subprocess.run(["rsync", "-a", "--delete", "--exclude", "__pycache__", "/repo/%s/" % sub, "%s/%s/" % (dst, sub)], check=True)
    return dst


def apply_edit(repo, file, old, new, count=1):
    p = os.path.join(repo, file)
    s = open(p).read()
    if s.count(old) < 1:
        raise SystemExit("mutant does not apply: %r not in %s" % (old[:60], file))
    if count and s.count(old) != count:
        raise SystemExit("mutant ambiguous: %r occurs %d times in %s" % (old[:60], s.count(old), file))
    s = s.replace(old, new)
    open(p, "w").write(s)
    # make sure mtime moves so that numba / bytecode caches notice
    t = time.time()
    os.utime(p, (t, t))


def run_check(prop, repo, tier="quick", seed=None, timeout=3600):
    env = dict(os.environ)
    env["VERIF_REPO"] = repo
    if seed is not None:
        env["VERIF_SEED"] = str(seed)
    env["VERIF_EVIDENCE_DIR"] = os.path.join(SCRATCH, "evidence")
    t0 = time.time()
    r = subprocess.run([os.path.join(VERIF, "check"), prop, "--tier", tier], env=env, cwd=VERIF,
                       stdout=subprocess.PIPE, stderr=subprocess.STDOUT, text=True, timeout=timeout)
    return r.returncode, r.stdout, time.time() - t0


def main():
    ap = argparse.ArgumentParser()
    ap.add_argument("prop")
    ap.add_argument("names", nargs="*")
    ap.add_argument("--patch")
    ap.add_argument("--tier", default="quick")
    ap.add_argument("--keep", action="store_true")
    ap.add_argument("--clean", action="store_true", help="run on the unmodified scratch copy")
    a = ap.parse_args()
    prop = a.prop.upper()
    results = []
    if a.patch or a.clean:
        repo = fresh_copy()
        if a.patch:
            subprocess.run(["git", "init", "-q"], cwd=repo)
            r = subprocess.run(["git", "apply", "--include=piquasso/*", "--include=src/*", a.patch], cwd=repo)
            shutil.rmtree(os.path.join(repo, ".git"), ignore_errors=True)
            if r.returncode != 0:
                raise SystemExit("patch does not apply")
        rc, out, wall = run_check(prop, repo, a.tier)
        if rc == 1 and "VIOLATION property=" not in out:
            rc = 2  # exit 1 without a VIOLATION line is a harness failure, not a catch
        print(out[-3000:])
        print("RESULT %s patch=%s rc=%d wall=%.0fs" % (prop, a.patch, rc, wall))
        results.append({"prop": prop, "mutant": a.patch or "clean", "rc": rc, "wall": round(wall)})
    else:
        import importlib

        mm = importlib.import_module("vf.mut.%s" % prop.lower())
        todo = [m for m in mm.MUTANTS if not a.names or m["name"] in a.names]
        for m in todo:
            repo = fresh_copy()
            for ed in m["edits"]:
                apply_edit(repo, ed["file"], ed["old"], ed["new"], ed.get("count", 1))
            rc, out, wall = run_check(prop, repo, a.tier)
            lines = [l for l in out.splitlines() if l.startswith(("VIOLATION", "  mechanism", "VERDICT", "INCONCLUSIVE", "KNOWN"))]
            print("=== %s/%s rc=%d wall=%.0fs" % (prop, m["name"], rc, wall))
            print("\n".join(lines[:6] + lines[-2:]))
            results.append({"prop": prop, "mutant": m["name"], "rc": rc, "wall": round(wall),
                            "first": lines[1][:200] if len(lines) > 1 else ""})
    with open(LOG, "a") as fh:
        for r in results:
            r["when"] = time.strftime("%Y-%m-%dT%H:%M:%S")
            fh.write(json.dumps(r) + "\n")
    if not a.keep:
        shutil.rmtree(SCRATCH, ignore_errors=True)
    missed = [r for r in results if r["rc"] != 1 and r["mutant"] != "clean"]
    print("caught %d / %d" % (len(results) - len(missed), len(results)))
    return 1 if missed else 0


if __name__ == "__main__":
    sys.exit(main())
