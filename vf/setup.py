"""MANIFEST.setup_cmd: offline preparation after a fresh restore.
  * icontract/deal into /verif/.deps from the local wheelhouse
  * native modules (plain + asan) and the kernel drivers, from /repo's working tree
  * numba cache warm-up so that the first check does not pay the JIT compilation
Everything it produces is git-ignored and is rebuilt lazily by the checks if missing."""
import os
import subprocess
import sys
import time


def main():
    t0 = time.time()
    from vf import boot
    from vf.native import build

    boot.ensure_deps()
    print("deps ok", round(time.time() - t0, 1))
    for fl in ("plain", "asan"):
        build.build_modules(boot.REPO, fl)
    for fl in ("plain", "tsan"):
        build.build_driver(boot.REPO, fl)
    print("native ok", round(time.time() - t0, 1))
    env = boot.child_env()
    r = subprocess.run([boot.PYTHON, "-m", "vf.warmup"], env=env, cwd=boot.VERIF)
    if r.returncode == 0:
        open(os.path.join(boot.numba_cache_dir(), "WARMED"), "w").write("ok\n")
    print("warm-up rc=%s" % r.returncode, round(time.time() - t0, 1))
    return 0


if __name__ == "__main__":
    sys.exit(main())
