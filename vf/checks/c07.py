"""C07 - built-in linear gates are physical and act as documented.

Three monitors:

  (a) icontract post-conditions (error=BlockContractBroken, named condition functions) installed
      from the harness on `_get_passive_block` / `_get_active_block` of every built-in linear gate
      class. For concrete real parameters they evaluate
            P P^+ - A A^+ = 1      and      P A^T = A P^T      (A = 0 for passive gates)
      with the bound 1e-10 * max(1, |S|_2^2), S = [[P, A], [conj A, conj P]]. A parameter sweep
      (2 000 / 50 000 points per gate class) drives them; they stay installed during (b), (c).
  (b) Gaussian action: a step-hook subscriber snapshots (xxpp mean, xxpp covariance) before and
      after every step of random / systematic programs and compares with the congruence by the
      real symplectic matrix that *this file* builds from its own transcription of the documented
      S_(c) matrices, embedded on the addressed modes in the given order. Displacements must
      shift the means by sqrt(2 hbar) (Re alpha, Im alpha) and leave the covariance alone.
  (c) documented identities (Fourier, 50:50, Mach-Zehnder, two-mode squeezing) as block matrices
      of the real code and through the Gaussian simulator, and the S_(c) matrix of every gate's
      docstring, transcribed below, against the blocks the code returns.
"""

import itertools
import time

import numpy as np

ID = "C07"
LEVEL = "exploration"
TECHNIQUE = (
    "runtime monitoring: icontract post-conditions on every linear gate's block methods under a parameter sweep; "
    "step-hook snapshots of (mean, covariance) compared with the congruence by an independently embedded symplectic "
    "matrix; documented identities and docstring S_(c) matrices compared as matrices and through the Gaussian simulator"
)
DESIGN_REF = "DESIGN.md §4 C07"
LEVEL_TEXT = (
    "Every built-in linear gate class (12) is driven through its block methods at 2 000 (quick) / 50 000 (thorough) real "
    "parameter points (angles uniform in [-pi,pi], uniform in [-1e6,1e6], log-uniform 1e-12..1e6 and the special set "
    "{0,+-pi/4,+-pi/2,+-pi,2pi,1e-12}; |r|<=8; |s|<=1e3; generated unitaries / Bloch-Messiah blocks on 1-5 modes) with "
    "symplecticity post-conditions attached. The Gaussian simulator is run on d<=5 modes with every ordered mode subset "
    "of the right size for every gate class, and on random programs of 1-6 linear gates plus displacements, six values "
    "of hbar, random physical input states (Mean/Covariance or an initial GaussianTransform); every step is compared "
    "with the congruence by the documented matrix. The four documented decompositions and every docstring S_(c) matrix "
    "are compared on random parameters and mode tuples."
)
LEVEL_NOTE = (
    "'For all real parameters' is sampled, not established symbolically; ranges and point counts are in the counters. "
    "The reference matrices are transcriptions of the docstrings made for this file (the Mach-Zehnder docstring matrix "
    "omits its factor 1/2: the documented decomposition is used as the reference and the omission is recorded as an "
    "observation). Hamiltonian forms printed in the docstrings are not compared. float64 / NumpyConnector only."
)
RULE = (
    "cases = one per contract-monitored gate construction, per executed program, per identity instance and per docstring "
    "matrix comparison; non-trivial = the deciding comparison ran (contract evaluated / at least one gate step compared / "
    "identity compared); distinct_nontrivial = distinct (gate class, parameter regime) for contracts, distinct structural "
    "program classes (gate multiset, mode-order patterns, d, hbar, input kind) for programs, distinct (identity, mode "
    "pattern, hbar) for identities."
)
ASSUMPTIONS = [
    "numpy linear algebra (matmul, 2-norm) is correct to rounding",
    "the transcription of the docstring S_(c) matrices in this file is faithful",
    "piquasso's covariance convention sigma = <{Y_i,Y_j}> - 2<Y_i><Y_j> (vacuum = hbar*I) and the Mean/Covariance scaling (mean/sqrt(hbar), cov/hbar, xpxp order), verified by hand",
]
REQUIRED = [
    "contract_evaluations", "min_contract_evals_per_gate_class", "hook_steps", "gate_steps_compared",
    "displacement_steps_compared", "steps_with_auxiliary_modes", "end_to_end_compared", "ordered_subsets_exercised",
    "identities_block_compared", "identities_gaussian_compared", "docstring_matrices_compared",
]
WATCHDOG = {"quick": 900, "thorough": 3600}

EPS = float(np.finfo(float).eps)
PI = float(np.pi)
HBARS = [0.37, 0.5, 1.0, 2.0, 3.3, 10.0]
PASSIVE = ("Interferometer", "Beamsplitter", "Beamsplitter5050", "Phaseshifter", "MachZehnder", "Fourier")
ACTIVE = ("GaussianTransform", "Squeezing", "QuadraticPhase", "Squeezing2", "ControlledX", "ControlledZ")
LINEAR = PASSIVE + ACTIVE
DISPLACEMENTS = ("Displacement", "PositionDisplacement", "MomentumDisplacement")
ARITY = {"Beamsplitter": 2, "Beamsplitter5050": 2, "Phaseshifter": 1, "MachZehnder": 2, "Fourier": 1, "Squeezing": 1,
         "QuadraticPhase": 1, "Squeezing2": 2, "ControlledX": 2, "ControlledZ": 2, "Displacement": 1,
         "PositionDisplacement": 1, "MomentumDisplacement": 1}
SINGLE_THREAD = {"OMP_NUM_THREADS": "1", "OPENBLAS_NUM_THREADS": "1", "MKL_NUM_THREADS": "1"}


# =============================================================================================
# (a) contracts
# =============================================================================================
class BlockContractBroken(Exception):
    """Raised by the icontract post-conditions installed on the block methods."""


class ContractMonitor:
    def __init__(self):
        self.installed = False
        self.orig = {}
        self.classes = {}
        self.evals = {}
        self.skipped = 0
        self.partner_raised = 0
        self.max_ratio = 0.0
        self.max_ratio_case = None
        self.last = None          # details of the most recent evaluation
        self.memo = None
        # Interferometer / GaussianTransform return user data; the demand applies when the harness
        # generated the matrices itself (always the case inside this check)
        self.demand_user_matrices = True


MON = ContractMonitor()


def _is_real_scalar(v):
    return isinstance(v, (int, float, np.integer, np.floating)) and not isinstance(v, (bool, np.bool_))


def _concrete_real(self, connector):
    params = getattr(self, "_params", None) or {}
    for v in params.values():
        try:
            if connector.is_abstract(v):
                return False
        except Exception:
            return False
        if isinstance(v, np.ndarray):
            if v.dtype.kind not in "fciu":
                return False
        elif not _is_real_scalar(v):
            return False
    return True


def symplectic_residuals(P, A):
    """(res1, res2, |S|_2, tol): res1 = max|P P^+ - A A^+ - 1|, res2 = max|P A^T - A P^T|."""
    P = np.asarray(P)
    A = np.asarray(A)
    if P.ndim != 2 or P.shape[0] != P.shape[1] or A.shape != P.shape:
        return float("inf"), float("inf"), float("nan"), 0.0
    P = P.astype(complex)
    A = A.astype(complex)
    if not (np.isfinite(P).all() and np.isfinite(A).all()):
        return float("inf"), float("inf"), float("nan"), 0.0
    n = P.shape[0]
    r1 = float(np.abs(P @ P.conj().T - A @ A.conj().T - np.eye(n)).max())
    r2 = float(np.abs(P @ A.T - A @ P.T).max())
    S = np.block([[P, A], [A.conj(), P.conj()]])
    nrm = float(np.linalg.norm(S, 2))
    return r1, r2, nrm, 1e-10 * max(1.0, nrm * nrm)


def _evaluate(self, connector, config, result, which):
    """Residuals of the (P, A) pair to which `result` belongs; None when not applicable."""
    m = MON.memo  # strong references: ids cannot be recycled while the memo holds the objects
    if m is not None and m[0] is self and m[1] == which and m[2] is result:
        return m[3]
    cls = type(self).__name__
    out = None
    if not _concrete_real(self, connector):
        MON.skipped += 1
    elif cls in ("Interferometer", "GaussianTransform") and not MON.demand_user_matrices:
        MON.skipped += 1
    else:
        owner = MON.classes.get(cls)
        has_active = owner is not None and (cls, "_get_active_block") in MON.orig
        try:
            if which == "passive":
                P = result
                A = MON.orig[(cls, "_get_active_block")](self, connector, config) if has_active else np.zeros_like(np.asarray(result))
            else:
                A = result
                P = MON.orig[(cls, "_get_passive_block")](self, connector, config)
        except Exception:
            MON.partner_raised += 1
            MON.memo = (self, which, result, None)
            return None
        r1, r2, nrm, tol = symplectic_residuals(P, A)
        MON.evals[cls] = MON.evals.get(cls, 0) + 1
        ratio = max(r1, r2) / tol if tol > 0 else float("inf")
        out = {"cls": cls, "which": which, "res1": r1, "res2": r2, "norm": nrm, "tol": tol, "ratio": ratio}
        if ratio > MON.max_ratio and np.isfinite(ratio):
            MON.max_ratio = ratio
        MON.last = out
    MON.memo = (self, which, result, out)
    return out


def passive_block_satisfies_first_symplectic_condition(self, connector, config, result):
    """P P^+ - A A^+ = 1 (P unitary for passive gates) for the block just returned."""
    ev = _evaluate(self, connector, config, result, "passive")
    return ev is None or ev["res1"] <= ev["tol"]


def passive_block_satisfies_second_symplectic_condition(self, connector, config, result):
    """P A^T = A P^T for the block just returned."""
    ev = _evaluate(self, connector, config, result, "passive")
    return ev is None or ev["res2"] <= ev["tol"]


def active_block_satisfies_first_symplectic_condition(self, connector, config, result):
    """P P^+ - A A^+ = 1 with the active block just returned."""
    ev = _evaluate(self, connector, config, result, "active")
    return ev is None or ev["res1"] <= ev["tol"]


def active_block_satisfies_second_symplectic_condition(self, connector, config, result):
    """P A^T = A P^T with the active block just returned."""
    ev = _evaluate(self, connector, config, result, "active")
    return ev is None or ev["res2"] <= ev["tol"]


def linear_gate_classes(pq):
    from piquasso.instructions import gates

    out = {}
    stack = list(gates._PassiveLinearGate.__subclasses__()) + list(gates._ActiveLinearGate.__subclasses__())
    while stack:
        c = stack.pop()
        if c.__module__.startswith("piquasso.") and not getattr(c, "__abstractmethods__", None):
            out[c.__name__] = c
        stack.extend(c.__subclasses__())
    return out


def install_contracts(pq):
    """Idempotent; usable from other checks' workloads as well. Returns the monitor."""
    if MON.installed:
        return MON
    from vf import boot

    boot.ensure_deps()
    import icontract

    classes = linear_gate_classes(pq)
    MON.classes = classes
    for name, cls in sorted(classes.items()):
        for meth, conds in (("_get_passive_block", (passive_block_satisfies_second_symplectic_condition,
                                                    passive_block_satisfies_first_symplectic_condition)),
                            ("_get_active_block", (active_block_satisfies_second_symplectic_condition,
                                                   active_block_satisfies_first_symplectic_condition))):
            fn = None
            for k in cls.__mro__:  # the function object this class actually uses
                if meth in k.__dict__:
                    fn = k.__dict__[meth]
                    break
            if fn is None or getattr(fn, "__isabstractmethod__", False):
                continue
            MON.orig[(name, meth)] = fn
            wrapped = fn
            for cond in conds:
                wrapped = icontract.ensure(cond, error=BlockContractBroken)(wrapped)
            setattr(cls, meth, wrapped)
    MON.installed = True
    return MON


# =============================================================================================
# reference: S_(c) exactly as printed in the docstrings of piquasso/instructions/gates.py
# =============================================================================================
def _c(v):
    return np.array(v, dtype=complex)


def doc_matrix(t, p):
    """The S_(c) matrix printed in the docstring of gate `t` (transcribed by hand), parameters p."""
    if t == "Interferometer":
        U = _c(p["matrix"])
        Z = np.zeros_like(U)
        return np.block([[U, Z], [Z, U.conj()]])
    if t == "Beamsplitter":
        tt = np.cos(p["theta"])
        r = np.exp(1j * p["phi"]) * np.sin(p["theta"])
        rb = np.conj(r)
        return _c([[tt, -rb, 0, 0], [r, tt, 0, 0], [0, 0, tt, -r], [0, 0, rb, tt]])
    if t == "Beamsplitter5050":
        U = _c([[1, -1], [1, 1]]) / np.sqrt(2)  # the docstring prints U only
        Z = np.zeros((2, 2))
        return np.block([[U, Z], [Z, U.conj()]])
    if t == "Phaseshifter":
        return _c([[np.exp(1j * p["phi"]), 0], [0, np.exp(-1j * p["phi"])]])
    if t == "MachZehnder":
        ei, ee = np.exp(1j * p["int_"]), np.exp(1j * p["ext"])
        eim, eem = np.exp(-1j * p["int_"]), np.exp(-1j * p["ext"])
        return _c([[ee * (ei - 1), 1j * (ei + 1), 0, 0],
                   [1j * ee * (ei + 1), 1 - ei, 0, 0],
                   [0, 0, eem * (eim - 1), -1j * (eim + 1)],
                   [0, 0, -1j * eem * (eim + 1), 1 - eim]])
    if t == "Fourier":
        return _c([[1j, 0], [0, -1j]])
    if t == "GaussianTransform":
        P, A = _c(p["passive"]), _c(p["active"])
        return np.block([[P, A], [A.conj(), P.conj()]])
    if t == "Squeezing":
        ch, sh = np.cosh(p["r"]), np.sinh(p["r"])
        return _c([[ch, -np.exp(1j * p["phi"]) * sh], [-np.exp(-1j * p["phi"]) * sh, ch]])
    if t == "QuadraticPhase":
        s = p["s"]
        return _c([[1 + 1j * s / 2, 1j * s / 2], [-1j * s / 2, 1 - 1j * s / 2]])
    if t == "Squeezing2":
        ch, sh = np.cosh(p["r"]), np.sinh(p["r"])
        e, em = np.exp(1j * p["phi"]), np.exp(-1j * p["phi"])
        return _c([[ch, 0, 0, e * sh], [0, ch, e * sh, 0], [0, em * sh, ch, 0], [em * sh, 0, 0, ch]])
    if t == "ControlledX":
        h = p["s"] / 2
        return _c([[1, -h, 0, h], [h, 1, h, 0], [0, h, 1, -h], [h, 0, h, 1]])
    if t == "ControlledZ":
        h = 1j * p["s"] / 2
        return _c([[1, h, 0, h], [h, 1, h, 0], [0, -h, 1, -h], [-h, 0, -h, 1]])
    raise KeyError(t)


# The Mach-Zehnder docstring prints the matrix without its prefactor: the printed rows have norm 2,
# so it cannot be S_(c) of a unitary; the decomposition documented two lines above it gives exactly
# one half of the printed matrix (hand-checked). Recorded as an observation, never silently.
DOC_FACTOR = {"MachZehnder": 0.5}


def ref_blocks(t, p):
    """(P, A) of gate t from the documented matrix (upper half of S_(c))."""
    S = doc_matrix(t, p) * DOC_FACTOR.get(t, 1.0)
    n = S.shape[0] // 2
    return S[:n, :n].copy(), S[:n, n:].copy()


def embed(P, A, modes, d):
    Pf = np.eye(d, dtype=complex)
    Af = np.zeros((d, d), dtype=complex)
    ix = np.ix_(list(modes), list(modes))
    Pf[ix] = P
    Af[ix] = A
    return Pf, Af


def ref_displacement(t, p):
    if t == "Displacement":
        return p["r"] * np.exp(1j * p["phi"])
    if t == "PositionDisplacement":
        return complex(p["x"], 0.0)
    if t == "MomentumDisplacement":
        return complex(0.0, p["p"])
    raise KeyError(t)


# =============================================================================================
# generators
# =============================================================================================
SPECIAL_ANGLES = [0.0, PI / 4, -PI / 4, PI / 2, -PI / 2, PI, -PI, 2 * PI, 1e-12]


def g_angle(rng):
    k = rng.random()
    if k < 0.25:
        return float(rng.choice(SPECIAL_ANGLES))
    if k < 0.55:
        return float(rng.uniform(-PI, PI))
    if k < 0.75:
        return float(rng.uniform(-1e6, 1e6))
    return float(rng.choice([-1.0, 1.0]) * 10.0 ** rng.uniform(-12, 6))


def g_bounded(rng, vmax, special):
    k = rng.random()
    if k < 0.2:
        return float(rng.choice(special))
    if k < 0.7:
        return float(rng.uniform(-vmax, vmax))
    return float(rng.choice([-1.0, 1.0]) * 10.0 ** rng.uniform(-12, np.log10(vmax)))


def regime(v):
    a = abs(v)
    if a == 0:
        return "zero"
    if a <= 1e-9:
        return "tiny"
    if any(abs(a - s) < 1e-15 for s in (PI / 4, PI / 2, PI, 2 * PI)):
        return "special"
    if a <= 10:
        return "moderate"
    return "large"


def gen_params(rng, t, rmax=8.0, smax=1e3, kmax=5, k=None):
    """JSON-able parameter document of gate t (matrices encoded) and its parameter-regime label."""
    from vf.gen import matrices as M

    if t == "Interferometer":
        k = k or int(rng.integers(1, kmax + 1))
        u, kind = M.structured_unitary(rng, k)
        return {"matrix": M.enc(u)}, "k%d-%s" % (k, kind)
    if t == "GaussianTransform":
        k = k or int(rng.integers(1, kmax + 1))
        rm = float(rng.choice([0.3, 1.0, min(rmax, 3.0)]))
        deg = bool(rng.random() < 0.25)
        P, A = M.symplectic_blocks(rng, k, rmax=rm, degenerate=deg)
        return {"passive": M.enc(P), "active": M.enc(A)}, "k%d-r%g%s" % (k, rm, "-deg" if deg else "")
    if t == "Beamsplitter":
        p = {"theta": g_angle(rng), "phi": g_angle(rng)}
        return p, regime(p["theta"]) + "/" + regime(p["phi"])
    if t == "Phaseshifter":
        p = {"phi": g_angle(rng)}
        return p, regime(p["phi"])
    if t == "MachZehnder":
        p = {"int_": g_angle(rng), "ext": g_angle(rng)}
        return p, regime(p["int_"]) + "/" + regime(p["ext"])
    if t in ("Squeezing", "Squeezing2"):
        p = {"r": g_bounded(rng, rmax, [0.0, rmax, -rmax, 1e-12, 1.0, -1.0]), "phi": g_angle(rng)}
        return p, regime(p["r"]) + "/" + regime(p["phi"])
    if t in ("QuadraticPhase", "ControlledX", "ControlledZ"):
        p = {"s": g_bounded(rng, smax, [0.0, smax, -smax, 1e-12, 1.0, -1.0, 2.0, -2.0])}
        return p, regime(p["s"])
    if t in ("Beamsplitter5050", "Fourier"):
        return {}, "fixed"
    if t == "Displacement":
        p = {"r": g_bounded(rng, 2.0, [0.0, 1.0, 1e-12, -1.0]), "phi": g_angle(rng)}
        return p, regime(p["r"]) + "/" + regime(p["phi"])
    if t == "PositionDisplacement":
        p = {"x": g_bounded(rng, 2.0, [0.0, 1.0, 1e-12, -1.0])}
        return p, regime(p["x"])
    if t == "MomentumDisplacement":
        p = {"p": g_bounded(rng, 2.0, [0.0, 1.0, 1e-12, -1.0])}
        return p, regime(p["p"])
    raise KeyError(t)


def dec_params(p):
    from vf.gen import matrices as M

    return {k: M.dec(v) for k, v in p.items()}


def gen_state_doc(rng, d, hbar, pure=None):
    """Instruction documents preparing a random physical state (library convention: vacuum cov = hbar*1)."""
    from vf.gen import matrices as M

    mean, cov = M.physical_gaussian(rng, d, hbar, pure=pure, rmax=0.7)
    cov = 2.0 * cov  # physical_gaussian uses hbar/2 * S nu S^T; piquasso's sigma is twice that
    idx = M.xxpp_to_xpxp(d)
    return [
        {"t": "Vacuum", "m": None, "p": {}},
        {"t": "Mean", "m": None, "p": {"mean": M.enc(mean[idx] / np.sqrt(hbar))}},
        {"t": "Covariance", "m": None, "p": {"cov": M.enc(cov[np.ix_(idx, idx)] / hbar)}},
    ], mean, cov


def gen_gate_doc(rng, t, d, modes=None, moderate=True):
    from vf.gen import programs as G

    k = ARITY.get(t)
    if modes is not None:
        k = len(modes)
    elif k is None:
        k = int(rng.integers(1, d + 1))
    if k > d:
        return None
    if moderate:
        rmax = 3.0 if rng.random() < 0.1 else 1.5
        p, reg = gen_params(rng, t, rmax=rmax, smax=3.0, kmax=d, k=k)
    else:
        p, reg = gen_params(rng, t, kmax=d, k=k)
    if modes is None:
        modes = G.ordered_subset(rng, d, k)
    return {"t": t, "m": [int(m) for m in modes], "p": p}


def gen_program(rng, d=None, hbar=None):
    d = d or int(rng.choice([1, 2, 3, 3, 4, 4, 5, 5]))
    hbar = hbar or float(rng.choice(HBARS))
    k = rng.random()
    ins = []
    if k < 0.55:
        prep, _, _ = gen_state_doc(rng, d, hbar, pure=bool(rng.random() < 0.15))
        ins += prep
        kind = "mean-cov"
    elif k < 0.85:
        ins.append({"t": "Vacuum", "m": None, "p": {}})
        ins.append(gen_gate_doc(rng, "GaussianTransform", d, modes=[int(m) for m in rng.permutation(d)]))
        for m in range(d):
            if rng.random() < 0.7:
                ins.append(gen_gate_doc(rng, "Displacement", d, modes=[m]))
        kind = "initial-transform"
    else:
        ins.append({"t": "Vacuum", "m": None, "p": {}})
        kind = "vacuum"
    n = int(rng.integers(1, 7))
    pool = [t for t in LINEAR + DISPLACEMENTS if ARITY.get(t, 1) <= d]
    lin = [t for t in LINEAR if ARITY.get(t, 1) <= d]
    names = [str(rng.choice(pool)) for _ in range(n)]
    if not any(t in LINEAR for t in names):
        names[int(rng.integers(0, n))] = str(rng.choice(lin))
    for t in names:
        ins.append(gen_gate_doc(rng, t, d))
    return {"sim": "gaussian", "d": d, "config": {"hbar": hbar}, "ins": ins, "shots": 1, "input": kind}


# =============================================================================================
# (b) action monitor
# =============================================================================================
class Ctx:
    def __init__(self):
        self.violations = []
        self.c = {k: 0 for k in REQUIRED if not k.startswith("min_")}
        self.c.update({"programs_run": 0, "preparation_refused": 0, "by_gate": {}, "mode_patterns": {}, "hbar_seen": {},
                       "d_seen": {}, "identities": {}, "docstring_by_class": {}, "docstring_known_discrepancy": 0,
                       "contract_sweep_points": 0, "max_action_dev_over_tol": 0.0, "max_identity_dev_over_tol": 0.0,
                       "max_docstring_dev_over_tol": 0.0, "preparation_steps_checked": 0})
        self.classes = set()
        self.samples = []
        self.obs = set()
        self.evals = 0

    def viol(self, mech, msg, case):
        if len(self.violations) < 200:
            self.violations.append({"mechanism": mech, "message": msg[:900], "case": case})

    def bump(self, name, key):
        d = self.c[name]
        d[str(key)] = d.get(str(key), 0) + 1


class ActionMonitor:
    """Step-hook subscriber: compares every gate step with the documented congruence."""

    def __init__(self, ctx):
        self.ctx = ctx
        self.doc = None
        self.case = None
        self.reset(None, None)

    def reset(self, doc, case):
        self.doc = doc
        self.case = case
        self.pre = None
        self.expected = None      # (mean, cov, err_mean, err_cov) propagated from the prepared state
        self.final = None
        self.raised_at = None
        self.gate_steps = 0
        self.failed = False

    @staticmethod
    def _snap(state):
        return (np.array(state.xxpp_mean_vector, dtype=float, copy=True),
                np.array(state.xxpp_covariance_matrix, dtype=float, copy=True))

    def on_step_pre(self, run, idx, ins, state, shots):
        if self.doc is None or run.depth != 0:
            return
        self.pre = (idx,) + self._snap(state)

    def on_step_post(self, run, idx, ins, state, shots, sub, exc):
        if self.doc is None or run.depth != 0:
            return
        ctx = self.ctx
        ctx.c["hook_steps"] += 1
        idoc = self.doc["ins"][idx]
        t = idoc["t"]
        if type(ins).__name__ != t:
            raise RuntimeError("harness: step %d is %s, document says %s" % (idx, type(ins).__name__, t))
        if exc is not None:
            self.raised_at = t
            return
        st = sub[0].state if sub else state
        mean1, cov1 = self._snap(st)
        self.final = (mean1, cov1)
        d = self.doc["d"]
        hbar = float(self.doc["config"]["hbar"])
        if self.pre is None or self.pre[0] != idx:
            raise RuntimeError("harness: no pre-snapshot for step %d" % idx)
        _, mean0, cov0 = self.pre
        if t in ("Vacuum", "Mean", "Covariance"):
            ctx.c["preparation_steps_checked"] += 1
            self.expected = (mean1.copy(), cov1.copy(), 0.0, 0.0)
            return
        if self.expected is None:
            self.expected = (mean0.copy(), cov0.copy(), 0.0, 0.0)
        modes = list(idoc["m"])
        if tuple(ins.modes) != tuple(modes):
            ctx.obs.add("step saw modes %s for a %s addressed to %s" % (tuple(ins.modes), t, modes))
        p = dec_params(idoc["p"])
        me, ce, em, ec = self.expected
        ctx.bump("by_gate", t)
        from vf.gen import programs as G

        ctx.bump("mode_patterns", "%s@d%d" % (G.mode_pattern(modes), d))
        if t in DISPLACEMENTS:
            alpha = ref_displacement(t, p)
            shift = np.zeros(2 * d)
            shift[modes[0]] = np.sqrt(2 * hbar) * alpha.real
            shift[d + modes[0]] = np.sqrt(2 * hbar) * alpha.imag
            exp_mean = mean0 + shift
            exp_cov = cov0
            tol_m = 1e3 * EPS * max(np.linalg.norm(mean0), np.linalg.norm(shift), np.sqrt(hbar))
            tol_c = 1e3 * EPS * max(np.linalg.norm(cov0, 2), hbar)
            self.expected = (me + shift, ce, em + tol_m, ec)
            ctx.c["displacement_steps_compared"] += 1
            mech = "gaussian-displacement"
        else:
            P, A = ref_blocks(t, p)
            from vf.gen import matrices as M

            S = M.real_symplectic_xxpp(*embed(P, A, modes, d))
            sn = float(np.linalg.norm(S, 2))
            exp_mean = S @ mean0
            exp_cov = S @ cov0 @ S.T
            tol_m = 1e3 * EPS * sn * max(np.linalg.norm(mean0), np.sqrt(hbar))
            tol_c = 1e3 * EPS * sn * sn * max(np.linalg.norm(cov0, 2), hbar)
            tm_e = 1e3 * EPS * sn * max(np.linalg.norm(me), np.sqrt(hbar))
            tc_e = 1e3 * EPS * sn * sn * max(np.linalg.norm(ce, 2), hbar)
            self.expected = (S @ me, S @ ce @ S.T, sn * em + tm_e, sn * sn * ec + tc_e)
            ctx.c["gate_steps_compared"] += 1
            self.gate_steps += 1
            if len(modes) < d:
                ctx.c["steps_with_auxiliary_modes"] += 1
            mech = "gaussian-action"
        dm = float(np.abs(mean1 - exp_mean).max()) if np.isfinite(mean1).all() else float("inf")
        dc = float(np.abs(cov1 - exp_cov).max()) if np.isfinite(cov1).all() else float("inf")
        ctx.c["max_action_dev_over_tol"] = max(ctx.c["max_action_dev_over_tol"], min(dm / tol_m, 1e300), min(dc / tol_c, 1e300))
        aux = "aux" if len(modes) < d else "all-modes"
        if dm > tol_m:
            self.failed = True
            ctx.viol("%s-mean:%s" % (mech, t),
                     "%s on modes %s (d=%d, hbar=%g, step %d): xxpp mean after the step differs from the documented "
                     "action by %.3e (tolerance %.1e, %s); got %s expected %s" % (
                         t, modes, d, hbar, idx, dm, tol_m, aux, np.round(mean1, 6).tolist(), np.round(exp_mean, 6).tolist()),
                     self.case)
        if dc > tol_c:
            self.failed = True
            ctx.viol("%s-cov:%s" % (mech, t),
                     "%s on modes %s (d=%d, hbar=%g, step %d): xxpp covariance after the step differs from the "
                     "documented congruence by %.3e (tolerance %.1e, %s, pattern %s)" % (
                         t, modes, d, hbar, idx, dc, tol_c, aux, G.mode_pattern(modes)),
                     self.case)


class Env:
    """Per-process objects: piquasso, hook, monitor, connector/config for direct block calls."""

    def __init__(self, ctx):
        from vf import boot
        from vf.monitors import stephook

        self.pq = boot.import_piquasso()
        install_contracts(self.pq)
        self.hook = stephook.get().install()
        self.mon = self.hook.subscribe(ActionMonitor(ctx))
        self.connector = self.pq.NumpyConnector()
        self.config = self.pq.Config()
        self.ctx = ctx


def run_program(env, doc, case, judge_end_to_end=True):
    """Execute a program document under the monitors; returns final (mean, cov) or None."""
    from vf.gen import programs as G
    from piquasso.api.exceptions import InvalidState

    ctx = env.ctx
    pq = env.pq
    mon = env.mon
    sim, prog = G.build(pq, doc)
    mon.reset(doc, case)
    try:
        try:
            res = sim.execute(prog, shots=1)
        except BlockContractBroken as e:
            last = MON.last or {}
            ctx.viol("block-contract:%s" % (mon.raised_at or last.get("cls")),
                     "post-condition broken while the Gaussian simulator executed %s: %s | residuals %s" % (
                         mon.raised_at, str(e)[:300], {k: last.get(k) for k in ("res1", "res2", "tol", "which")}), case)
            return None
        except InvalidState as e:
            if mon.raised_at in ("Mean", "Covariance"):
                ctx.c["preparation_refused"] += 1
                ctx.obs.add("a generated physical input state was refused by %s: %s" % (mon.raised_at, str(e)[:80]))
                return None
            ctx.viol("gaussian-gate-raised:%s:%s" % (mon.raised_at, type(e).__name__),
                     "%s raised %s: %s" % (mon.raised_at, type(e).__name__, str(e)[:300]), case)
            return None
        except Exception as e:
            ctx.viol("gaussian-gate-raised:%s:%s" % (mon.raised_at, type(e).__name__),
                     "executing the program raised %s at step type %s: %s" % (type(e).__name__, mon.raised_at, str(e)[:300]), case)
            return None
        ctx.c["programs_run"] += 1
        st = res.state
        fm, fc = ActionMonitor._snap(st)
        if mon.final is None:
            raise RuntimeError("harness: the step hook saw no step")
        if judge_end_to_end and mon.expected is not None and mon.gate_steps > 0 and not mon.failed:
            me, ce, em, ec = mon.expected
            hbar = float(doc["config"]["hbar"])
            em = em + 1e3 * EPS * max(np.linalg.norm(me), np.sqrt(hbar))
            ec = ec + 1e3 * EPS * max(np.linalg.norm(ce, 2), hbar)
            dm = float(np.abs(fm - me).max())
            dc = float(np.abs(fc - ce).max())
            ctx.c["end_to_end_compared"] += 1
            ctx.c["max_action_dev_over_tol"] = max(ctx.c["max_action_dev_over_tol"], dm / em, dc / ec)
            if not (dm <= em and dc <= ec):
                ctx.viol("gaussian-action-end-to-end",
                         "state returned by execute differs from the composition of the documented actions applied to the "
                         "prepared state: mean %.3e (bound %.1e), cov %.3e (bound %.1e); every single step agreed" % (dm, em, dc, ec),
                         case)
        return fm, fc
    finally:
        mon.reset(None, None)


def program_case(ctx, env, doc, origin):
    from vf.gen import programs as G

    ctx.evals += 1
    case = {"kind": "program", "doc": doc, "origin": origin}
    steps0 = ctx.c["gate_steps_compared"]
    out = run_program(env, doc, case)
    if ctx.c["gate_steps_compared"] > steps0:
        ctx.classes.add(G.class_key(doc, "|" + doc.get("input", "")))
        ctx.bump("hbar_seen", doc["config"]["hbar"])
        ctx.bump("d_seen", doc["d"])
    return out


# =============================================================================================
# (c) identities and docstring matrices
# =============================================================================================
def code_blocks(env, t, p):
    """(P, A) returned by the real code (contracts attached)."""
    ins = getattr(env.pq, t)(**dec_params(p))
    P = np.asarray(ins._get_passive_block(env.connector, env.config)).astype(complex)
    if hasattr(ins, "_get_active_block"):
        A = np.asarray(ins._get_active_block(env.connector, env.config)).astype(complex)
    else:
        A = np.zeros_like(P)
    return P, A


def identity_sides(name, rng):
    """(lhs, rhs, label): lists of (gate, params, local modes) in *operator order* (leftmost factor first)."""
    if name == "fourier":
        return [("Fourier", {}, [0])], [("Phaseshifter", {"phi": PI / 2}, [0])], 1
    if name == "bs5050":
        return [("Beamsplitter5050", {}, [0, 1])], [("Beamsplitter", {"theta": PI / 4, "phi": 0.0}, [0, 1])], 2
    if name == "machzehnder":
        a, b = g_angle(rng), g_angle(rng)
        B = ("Beamsplitter", {"theta": PI / 4, "phi": PI / 2}, [0, 1])
        return ([("MachZehnder", {"int_": a, "ext": b}, [0, 1])],
                [B, ("Phaseshifter", {"phi": a}, [0]), B, ("Phaseshifter", {"phi": b}, [0])], 2)
    if name == "squeezing2":
        r = g_bounded(rng, 3.0, [0.0, 1.0, -1.0, 1e-12, 3.0])
        phi = g_angle(rng)
        # -z is written either as (-r, phi) (exact) or as (r, phi + pi); the latter rounds phi + pi to a
        # double, an input error of ulp(phi) that is not the library's: used only for |phi| <= 10
        minus_z = {"r": -r, "phi": phi} if (rng.random() < 0.5 or abs(phi) > 10) else {"r": r, "phi": phi + PI}
        return ([("Squeezing2", {"r": r, "phi": phi}, [0, 1])],
                [("Beamsplitter", {"theta": PI / 4, "phi": 0.0}, [0, 1]), ("Squeezing", minus_z, [0]),
                 ("Squeezing", {"r": r, "phi": phi}, [1]), ("Beamsplitter", {"theta": -PI / 4, "phi": 0.0}, [0, 1])], 2)
    raise KeyError(name)


IDENTITIES = ("fourier", "bs5050", "machzehnder", "squeezing2")


def compose_operator_order(env, side, k):
    """S_(c) on k local modes of a product of gates written in operator order, blocks from the real code."""
    from vf.gen import matrices as M

    S = np.eye(2 * k, dtype=complex)
    for t, p, lm in side:
        P, A = code_blocks(env, t, p)
        S = S @ M.complex_symplectic(*embed(P, A, lm, k))
    return S


def identity_case(ctx, env, case):
    """case: {'kind':'identity','name','lhs','rhs','k','d','hbar','modes','prep'}"""
    from vf.gen import programs as G

    name = case["name"]
    ctx.evals += 1
    lhs = [tuple(x) for x in case["lhs"]]
    rhs = [tuple(x) for x in case["rhs"]]
    k = case["k"]
    try:
        SL = compose_operator_order(env, lhs, k)
        SR = compose_operator_order(env, rhs, k)
    except BlockContractBroken as e:
        last = MON.last or {}
        ctx.viol("block-contract:%s" % last.get("cls"), "post-condition broken in identity %s: %s" % (name, str(e)[:300]), case)
        return
    nrm = max(np.linalg.norm(SL, 2), np.linalg.norm(SR, 2), 1.0)
    tol = 1e3 * EPS * nrm * nrm  # covers the ulp(phi + pi) <= 4 eps input rounding of the (r, phi + pi) form
    dev = float(np.abs(SL - SR).max())
    ctx.c["identities_block_compared"] += 1
    ctx.bump("identities", name + ":blocks")
    ctx.c["max_identity_dev_over_tol"] = max(ctx.c["max_identity_dev_over_tol"], dev / tol)
    if not dev <= tol:
        ctx.viol("identity-blocks:%s" % name,
                 "documented identity %s fails as block matrices of the code: max deviation %.3e (tolerance %.1e); lhs %s rhs %s" % (
                     name, dev, tol, [(t, p) for t, p, _ in lhs], [(t, p) for t, p, _ in rhs]), case)
    # through the Gaussian simulator: program order is the reverse of operator order
    modes = case["modes"]
    d, hbar = case["d"], case["hbar"]

    def prog(side):
        ins = list(case["prep"])
        for t, p, lm in reversed(side):
            ins.append({"t": t, "m": [modes[i] for i in lm], "p": p})
        return {"sim": "gaussian", "d": d, "config": {"hbar": hbar}, "ins": ins, "shots": 1}

    viol0 = len(ctx.violations)
    outL = run_program(env, prog(lhs), case, judge_end_to_end=False)
    outR = run_program(env, prog(rhs), case, judge_end_to_end=False)
    if outL is None or outR is None:
        return
    scale_c = max(np.linalg.norm(outL[1], 2), np.linalg.norm(outR[1], 2), hbar)
    scale_m = max(np.linalg.norm(outL[0]), np.linalg.norm(outR[0]), np.sqrt(hbar))
    # both sides carry a rounding error of c*eps*|S|^2*|cov_in|; |cov_out| >= |cov_in|/|S|^2
    tol_c = 4e3 * EPS * nrm ** 4 * scale_c
    tol_m = 4e3 * EPS * nrm ** 2 * scale_m
    dm = float(np.abs(outL[0] - outR[0]).max())
    dc = float(np.abs(outL[1] - outR[1]).max())
    ctx.c["identities_gaussian_compared"] += 1
    ctx.bump("identities", name + ":gaussian")
    ctx.c["max_identity_dev_over_tol"] = max(ctx.c["max_identity_dev_over_tol"], dm / tol_m, dc / tol_c)
    ctx.classes.add("identity:%s:%s:d%d:h%g" % (name, G.mode_pattern(modes), d, hbar))
    if not (dm <= tol_m and dc <= tol_c) and len(ctx.violations) == viol0:
        ctx.viol("identity-gaussian:%s" % name,
                 "documented identity %s fails through the Gaussian simulator on modes %s (d=%d, hbar=%g): mean differs by "
                 "%.3e (tol %.1e), covariance by %.3e (tol %.1e)" % (name, modes, d, hbar, dm, tol_m, dc, tol_c), case)


def gen_identity_case(rng, name):
    from vf.gen import programs as G

    lhs, rhs, k = identity_sides(name, rng)
    d = int(rng.integers(k, 6))
    hbar = float(rng.choice(HBARS))
    modes = G.ordered_subset(rng, d, k)
    prep, _, _ = gen_state_doc(rng, d, hbar, pure=False)
    return {"kind": "identity", "name": name, "lhs": [list(x) for x in lhs], "rhs": [list(x) for x in rhs], "k": k,
            "d": d, "hbar": hbar, "modes": modes, "prep": prep}


def docmatrix_case(ctx, env, t, p, reg):
    from vf.gen import matrices as M

    ctx.evals += 1
    case = {"kind": "docmatrix", "gate": t, "p": p}
    try:
        P, A = code_blocks(env, t, p)
    except BlockContractBroken as e:
        ctx.viol("block-contract:%s" % t, "post-condition broken for %s(%s): %s" % (t, _short(p), str(e)[:300]), case)
        return
    S = M.complex_symplectic(P, A)
    D = doc_matrix(t, dec_params(p))
    if D.shape != S.shape:
        ctx.viol("docstring-matrix:%s" % t, "%s: code blocks have shape %s, documented S_(c) %s" % (t, S.shape, D.shape), case)
        return
    nrm = max(1.0, float(np.linalg.norm(S, 2)))
    tol = 1e3 * EPS * nrm * nrm
    dev = float(np.abs(S - D).max())
    ctx.c["docstring_matrices_compared"] += 1
    ctx.bump("docstring_by_class", t)
    ctx.classes.add("docmatrix:%s:%s" % (t, reg))
    if dev > tol and t in DOC_FACTOR:
        dev2 = float(np.abs(S - DOC_FACTOR[t] * D).max())
        if dev2 <= tol:
            ctx.c["docstring_known_discrepancy"] += 1
            ctx.obs.add("%s: the S_(c) matrix printed in the docstring omits the factor %g; the code equals %g x printed matrix "
                        "(= the documented decomposition)" % (t, DOC_FACTOR[t], DOC_FACTOR[t]))
            dev = dev2
    ctx.c["max_docstring_dev_over_tol"] = max(ctx.c["max_docstring_dev_over_tol"], dev / tol)
    if not dev <= tol:
        ctx.viol("docstring-matrix:%s" % t,
                 "%s(%s): [[P,A],[conj A,conj P]] from the code differs from the S_(c) matrix printed in its docstring by %.3e "
                 "(tolerance %.1e)" % (t, _short(p), dev, tol), case)


def _condition_name(e):
    """icontract's message is 'File ..., line N in ...:\n<condition name>:\n<values>'."""
    lines = str(e).splitlines()
    return "post-condition %s broken" % (lines[1].rstrip(":") if len(lines) > 1 else lines[0])[:120]


def _short(p):
    return {k: (v if not isinstance(v, dict) else "<matrix>") for k, v in p.items()}


# =============================================================================================
# (a) sweep driver
# =============================================================================================
def contract_case(ctx, env, t, p, reg):
    ctx.evals += 1
    case = {"kind": "contract", "gate": t, "p": p}
    n0 = MON.evals.get(t, 0)
    try:
        ins = getattr(env.pq, t)(**dec_params(p))
    except Exception as e:
        ctx.viol("gate-construction-raised:%s:%s" % (t, type(e).__name__), "%s(%s) raised %s: %s" % (t, _short(p), type(e).__name__, e), case)
        return
    for meth in ("_get_passive_block", "_get_active_block"):
        if not hasattr(ins, meth):
            continue
        try:
            getattr(ins, meth)(env.connector, env.config)
        except BlockContractBroken as e:
            last = MON.last or {}
            kind = "not-unitary" if t in PASSIVE else "not-symplectic"
            ctx.viol("block-%s:%s" % (kind, t),
                     "%s(%s).%s: %s; P P^+ - A A^+ - 1 = %.3e, P A^T - A P^T = %.3e, |S| = %.3e, tolerance %.1e" % (
                         t, _short(p), meth, _condition_name(e), last.get("res1", float("nan")), last.get("res2", float("nan")),
                         last.get("norm", float("nan")), last.get("tol", float("nan"))), case)
            break
        except Exception as e:
            ctx.viol("block-method-raised:%s:%s" % (t, type(e).__name__), "%s(%s).%s raised %s: %s" % (t, _short(p), meth, type(e).__name__, e), case)
            break
    if MON.evals.get(t, 0) > n0:
        ctx.classes.add("contract:%s:%s" % (t, reg))
    ctx.c["contract_sweep_points"] += 1


# =============================================================================================
# protocol
# =============================================================================================
def plan(tier, seed):
    specs = []
    if tier == "quick":
        nsweep, pts = 4, 500
        nprog, progs = 6, 500
        nid, ids, docs = 2, 120, 150
    else:
        nsweep, pts = 8, 6250
        nprog, progs = 8, 3000
        nid, ids, docs = 4, 600, 1500
    for i in range(nsweep):
        specs.append({"name": "sweep-%d" % i, "kind": "sweep", "shard": i, "points": pts, "env": dict(SINGLE_THREAD)})
    for i in range(2):
        specs.append({"name": "subsets-%d" % i, "kind": "subsets", "shard": 20 + i, "part": i, "parts": 2,
                      "env": dict(SINGLE_THREAD)})
    for i in range(nprog):
        specs.append({"name": "programs-%d" % i, "kind": "programs", "shard": 40 + i, "programs": progs,
                      "env": dict(SINGLE_THREAD)})
    for i in range(nid):
        specs.append({"name": "identities-%d" % i, "kind": "identities", "shard": 60 + i, "per_identity": ids,
                      "doc_points": docs, "env": dict(SINGLE_THREAD)})
    # interleave the kinds: the runner keeps the first sample of the first shards
    order = {"sweep": 0, "programs": 1, "identities": 2, "subsets": 3}
    by_kind = {}
    for sp in specs:
        by_kind.setdefault(sp["kind"], []).append(sp)
    out = []
    while any(by_kind.values()):
        for k in sorted(by_kind, key=order.get):
            if by_kind[k]:
                out.append(by_kind[k].pop(0))
    return out


def all_subset_cases(tier):
    """(gate, d, modes, hbar index) for every ordered subset of the right size on d <= 5."""
    out = []
    n = 0
    for t in LINEAR + DISPLACEMENTS:
        for d in range(1, 6):
            sizes = [ARITY[t]] if t in ARITY else list(range(1, d + 1))
            for k in sizes:
                if k > d:
                    continue
                for modes in itertools.permutations(range(d), k):
                    hs = range(len(HBARS)) if tier == "thorough" and k <= 3 else [(n + n // len(HBARS)) % len(HBARS)]
                    for h in hs:
                        out.append((t, d, list(modes), h))
                    n += 1
    return out


def _finish(ctx, extra_counters=None):
    ctx.c["contract_evaluations"] = int(sum(MON.evals.values()))
    ctx.c["contract_by_class"] = dict(MON.evals)
    ctx.c["contract_skipped_nonconcrete"] = MON.skipped
    ctx.c["contract_partner_raised"] = MON.partner_raised
    ctx.c["max_contract_residual_over_tol"] = MON.max_ratio
    if extra_counters:
        ctx.c.update(extra_counters)
    return {"evaluations": ctx.evals, "classes": sorted(ctx.classes), "violations": ctx.violations,
            "counters": ctx.c, "samples": ctx.samples[:6], "observations": sorted(ctx.obs)[:25]}


def run_shard(spec):
    ctx = Ctx()
    env = Env(ctx)
    rng = np.random.default_rng([int(spec["seed"]), 7, int(spec["shard"])])
    t0 = time.time()
    tier = spec["tier"]
    kind = spec["kind"]
    extra = {}
    missing = [t for t in LINEAR if t not in MON.classes]
    if missing:
        raise RuntimeError("harness: built-in linear gate classes not found: %s" % missing)
    unknown = sorted(set(MON.classes) - set(LINEAR))
    if unknown:
        ctx.obs.add("linear gate classes without a parameter generator (contracts installed, not swept): %s" % unknown)
    if kind == "sweep":
        budget = 240 if tier == "quick" else 1500
        stopped = False
        for i in range(int(spec["points"])):
            if time.time() - t0 > budget:
                ctx.obs.add("sweep shard stopped by its time budget after %d points per class" % i)
                stopped = True
                break
            for t in LINEAR:
                p, reg = gen_params(rng, t)
                contract_case(ctx, env, t, p, reg)
                if i == 0 and t == LINEAR[(int(spec["shard"]) * 5 + 9) % len(LINEAR)] and MON.last and MON.last.get("cls") == t:
                    ctx.samples.append({"contract": t, "params": _short(p), "residuals": {k: MON.last.get(k) for k in ("res1", "res2", "norm", "tol")}})
        extra["min_contract_evals_per_gate_class"] = int(min(MON.evals.get(t, 0) for t in LINEAR))
    elif kind == "subsets":
        budget = 300 if tier == "quick" else 1800
        cases = all_subset_cases(tier)
        mine = cases[int(spec["part"])::int(spec["parts"])]
        done = 0
        for t, d, modes, h in mine:
            if time.time() - t0 > budget:
                ctx.obs.add("subset shard stopped by its time budget after %d of %d tuples" % (done, len(mine)))
                break
            hbar = HBARS[h]
            prep, _, _ = gen_state_doc(rng, d, hbar, pure=False)
            g = gen_gate_doc(rng, t, d, modes=modes)
            doc = {"sim": "gaussian", "d": d, "config": {"hbar": hbar}, "ins": prep + [g], "shots": 1, "input": "mean-cov"}
            n0 = ctx.c["gate_steps_compared"] + ctx.c["displacement_steps_compared"]
            program_case(ctx, env, doc, [int(spec["seed"]), 7, int(spec["shard"]), done])
            if ctx.c["gate_steps_compared"] + ctx.c["displacement_steps_compared"] > n0:
                ctx.c["ordered_subsets_exercised"] += 1
                ctx.classes.add("subset:%s:d%d:%s" % (t, d, "".join(map(str, modes))))
                if not ctx.samples and t == "ControlledX" and d == 4 and modes[0] > modes[1]:
                    ctx.samples.append({"ordered_subset": [t, g["p"], modes], "d": d, "hbar": hbar,
                                        "max_action_dev_over_tol_so_far": ctx.c["max_action_dev_over_tol"]})
            done += 1
        extra["ordered_subsets_planned"] = len(mine)
    elif kind == "programs":
        budget = 240 if tier == "quick" else 1500
        for i in range(int(spec["programs"])):
            if time.time() - t0 > budget:
                ctx.obs.add("program shard stopped by its time budget after %d programs" % i)
                break
            doc = gen_program(rng)
            program_case(ctx, env, doc, [int(spec["seed"]), 7, int(spec["shard"]), i])
            if len(ctx.samples) < 2 and i in (3, 11):
                ctx.samples.append({"program": [[x["t"], x.get("m")] for x in doc["ins"]], "d": doc["d"], "hbar": doc["config"]["hbar"],
                                    "max_action_dev_over_tol_so_far": ctx.c["max_action_dev_over_tol"]})
    elif kind == "identities":
        budget = 240 if tier == "quick" else 1500
        for i in range(int(spec["per_identity"])):
            if time.time() - t0 > budget:
                ctx.obs.add("identity shard stopped by its time budget after %d rounds" % i)
                break
            for name in IDENTITIES:
                case = gen_identity_case(rng, name)
                identity_case(ctx, env, case)
                if i == 0 and name == ("machzehnder", "squeezing2", "bs5050", "fourier")[int(spec["shard"]) % 4]:
                    ctx.samples.append({"identity": name, "lhs": case["lhs"], "rhs": case["rhs"], "modes": case["modes"], "d": case["d"],
                                        "hbar": case["hbar"], "max_identity_dev_over_tol_so_far": ctx.c["max_identity_dev_over_tol"]})
        for i in range(int(spec["doc_points"])):
            if time.time() - t0 > 2 * budget:
                break
            for t in LINEAR:
                p, reg = gen_params(rng, t)
                docmatrix_case(ctx, env, t, p, reg)
    else:
        raise KeyError(kind)
    return _finish(ctx, extra)


def replay(case):
    ctx = Ctx()
    env = Env(ctx)
    kind = case.get("kind")
    if kind == "contract":
        contract_case(ctx, env, case["gate"], case["p"], "replay")
    elif kind == "program":
        program_case(ctx, env, case["doc"], case.get("origin"))
    elif kind == "identity":
        identity_case(ctx, env, case)
    elif kind == "docmatrix":
        docmatrix_case(ctx, env, case["gate"], case["p"], "replay")
    else:
        raise KeyError(kind)
    return ctx.violations
