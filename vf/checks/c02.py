"""C02 - measurement samples follow the Born rule of the measured state.

Monitor: sample recorder on Result.samples; the exact law of the measured state is computed
independently (permanent reference for ideal boson sampling, thinning for uniform loss, amplitude
marginals of the hooked pre-measurement state vector, Gaussian moments, Hermite-function
densities) or from single-outcome interfaces cross-validated by C01/C05/C17.
Oracle : support check (deterministic), arity / order check (deterministic), Pearson
chi-square, z-tests on means and variances, Kolmogorov-Smirnov; alpha=1e-10 + confirmation run.
"""

import itertools
import json
import time

import numpy as np

ID = "C02"
LEVEL = "exploration"
TECHNIQUE = "runtime monitoring: sample recorder + statistical oracle (support/arity checks deterministic; chi-square, moment and KS tests at alpha=1e-10 with a confirmation run) against independently computed exact outcome laws"
DESIGN_REF = "DESIGN.md §4 C02"
LEVEL_TEXT = (
    "Every sampler (passive: ideal / loss / post-selection / distinguishability / subsets / dask; Gaussian: particle number, "
    "threshold with hafnian and torontonian, homodyne, heterodyne, general-dyne; pure and mixed Fock: particle number on "
    "subsets, homodyne; fermionic) is run with 2500 (quick) or 40000 (thorough) shots on generated states; every sample must "
    "lie in the support of the exact law with the right arity and order, and the empirical law must pass chi-square / moment / "
    "KS tests at alpha=1e-10, a failure being reported only if a confirmation run with a fresh seed and 4x the shots fails at "
    "alpha=1e-6."
)
LEVEL_NOTE = (
    "A distributional law is only tested statistically: with 2500 shots total-variation distances of about 0.1 are resolved, "
    "with 40000 about 0.025. Truncation of the Gaussian particle-number sampler (measurement_cutoff) is kept below 1e-6 by "
    "construction of the workload."
)
RULE = (
    "cases = (state, measurement, seed) sampling runs; non-trivial = at least one statistical or support decision was made on "
    ">= 1000 samples with a law of >= 2 outcomes (or a continuous law); distinct_nontrivial = distinct (simulator, measurement, "
    "feature flags, d, measured-mode pattern) classes."
)
ASSUMPTIONS = ["exact laws of lossy / partially distinguishable passive states are taken from get_particle_detection_probability (validated against a unitary dilation by C05)"]
REQUIRED = ["sampling_runs", "samples_recorded", "support_checks", "chi_square_tests", "moment_tests", "ks_tests"]
WATCHDOG = {"quick": 1200, "thorough": 7200}


class Ctx:
    def __init__(self):
        self.violations = []
        self.c = {k: 0 for k in REQUIRED}
        self.c.update({"confirmation_runs": 0, "min_p_value": 1.0, "max_tv_observed": 0.0, "by_kind": {}, "sampler_raises": 0})
        self.classes = set()
        self.samples = []
        self.obs = set()
        self.evals = 0

    def viol(self, mech, msg, case):
        if len(self.violations) < 120:
            self.violations.append({"mechanism": mech, "message": msg[:800], "case": case})


# ------------------------------------------------------------------------------ helpers
def run_samples(pq, doc, seed, shots, capture=None):
    """Execute a program document with a seeded Config; returns list of sample tuples.
    `capture`: optional dict filled with the pre-measurement state of the LAST measurement."""
    from vf.gen import programs as G
    from vf.monitors import stephook

    d2 = dict(doc)
    d2["config"] = dict(doc.get("config", {}), seed_sequence=int(seed))
    sim, prog = G.build_adaptive(pq, d2)
    hook = stephook.get().install()

    class Cap:
        def on_step_pre(self, run, idx, ins, state, shots_):
            if capture is not None and run.depth == 0 and type(ins).__name__.endswith("Measurement"):
                try:
                    capture["state"] = state.copy()
                    capture["modes"] = tuple(ins.modes)
                except Exception:
                    pass

    cap = hook.subscribe(Cap())
    try:
        res = sim.execute(prog, shots=shots)
    finally:
        hook.unsubscribe(cap)
    return [tuple(s) for s in res.samples]


def counts_of(samples):
    c = {}
    for s in samples:
        k = tuple(int(round(float(v))) for v in s)
        c[k] = c.get(k, 0) + 1
    return c


def judge_discrete(ctx, pq, doc, law, kind, cls, shots, seed, arity, mech_prefix, base_prefix=None):
    """law: {outcome tuple: probability}. Runs the sampler, checks arity/support, chi-square with confirmation.
    base_prefix: set when mech_prefix is the key of the known hbar-normalisation finding; the key is then only used when the
    same program at hbar = 2 *does* follow the law (symptom predicate: 'right at hbar = 2 only'), see _hbar_key."""
    from vf import stats as S

    case = {"doc": doc, "seed": int(seed), "shots": shots, "kind": kind}

    def _hbar_key(default_suffix):
        """Mechanism key for a failed comparison of a case classified under the known hbar-normalisation finding."""
        if not mech_prefix.endswith("hbar-normalisation"):
            return "%s-%s" % (mech_prefix, default_suffix)
        if base_prefix is None:
            return mech_prefix
        doc2 = json.loads(json.dumps(doc))
        doc2["config"]["hbar"] = 2.0
        ctx.c["hbar2_control_runs"] = ctx.c.get("hbar2_control_runs", 0) + 1
        try:
            s3 = run_samples(pq, doc2, seed + 104729, shots * 4)
            r3 = S.chi_square(counts_of(s3), law, len(s3))
            right_at_2 = (not r3["support_violations"]) and r3["p_value"] >= S.ALPHA_CONFIRM
        except Exception:
            right_at_2 = False
        if right_at_2:
            return mech_prefix
        case["hbar2_control"] = "the same program at hbar = 2 does not follow the law either"
        return "%s-%s" % (base_prefix, default_suffix)
    ctx.evals += 1
    try:
        samples = run_samples(pq, doc, seed, shots)
    except Exception as e:
        ctx.c["sampler_raises"] += 1
        ctx.viol("%s-sampler-raises:%s" % (mech_prefix, type(e).__name__), "%s sampler raised %s: %s" % (kind, type(e).__name__, str(e)[:200]), case)
        return
    ctx.c["sampling_runs"] += 1
    ctx.c["samples_recorded"] += len(samples)
    ctx.c["by_kind"][kind] = ctx.c["by_kind"].get(kind, 0) + 1
    if len(samples) != shots:
        ctx.viol("%s-sample-count" % mech_prefix, "%d samples for %d shots" % (len(samples), shots), case)
    bad = [s for s in samples[:200] if len(s) != arity]
    if bad:
        ctx.viol("%s-sample-arity" % mech_prefix, "%s: sample %s has %d entries, %d quantities were measured" % (kind, bad[0], len(bad[0]), arity), case)
        return
    cnt = counts_of(samples)
    res = S.chi_square(cnt, law, len(samples))
    ctx.c["support_checks"] += 1
    if res["support_violations"]:
        o = res["support_violations"][0]
        ctx.viol(_hbar_key("outcome-outside-support"), "%s: outcome %s was sampled %d time(s) but has exact probability %.3e" % (kind, o, cnt[o], law.get(o, 0.0)), case)
        return
    if len([p for p in law.values() if p > 1e-9]) < 2:
        ctx.classes.add(cls + "|deterministic")
        return
    ctx.c["chi_square_tests"] += 1
    ctx.c["min_p_value"] = min(ctx.c["min_p_value"], res["p_value"])
    ctx.c["max_tv_observed"] = max(ctx.c["max_tv_observed"], res["tv"])
    ctx.classes.add(cls)
    if len(ctx.samples) < 4:
        top = sorted(law.items(), key=lambda kv: -kv[1])[:4]
        ctx.samples.append({"kind": kind, "shots": shots, "p_value": res["p_value"], "tv": res["tv"],
                            "top_outcomes": [[list(o), p, cnt.get(o, 0) / len(samples)] for o, p in top]})
    if res["p_value"] < S.ALPHA:
        # confirmation run: fresh seed, 4x shots
        ctx.c["confirmation_runs"] += 1
        try:
            s2 = run_samples(pq, doc, seed + 7919, shots * 4)
        except Exception as e:
            ctx.viol("%s-sampler-raises:%s" % (mech_prefix, type(e).__name__), "%s sampler raised in the confirmation run: %s" % (kind, e), case)
            return
        r2 = S.chi_square(counts_of(s2), law, len(s2))
        if r2["p_value"] < S.ALPHA_CONFIRM:
            worst = max(law, key=lambda o: abs(counts_of(s2).get(o, 0) / len(s2) - law[o]))
            ctx.viol(_hbar_key("law-differs"),
                     "%s: empirical law differs from the exact one (chi-square p=%.1e with %d shots, p=%.1e in the confirmation run with %d; TV %.3f; "
                     "e.g. outcome %s: exact %.4f, observed %.4f)" % (kind, res["p_value"], shots, r2["p_value"], len(s2), r2["tv"], worst, law[worst],
                                                                      counts_of(s2).get(worst, 0) / len(s2)), case)


# ------------------------------------------------------------------------------ exact laws
def passive_ideal_law(U, occ, modes=None):
    """|Per(U[s|t])|^2 / (prod s! prod t!) over all outputs with the same photon number."""
    from vf.refs import combinatorial as R
    import math

    d = len(occ)
    n = sum(occ)
    law = {}
    for s in itertools.product(range(n + 1), repeat=d):
        if sum(s) != n:
            continue
        v, _ = R.perm_multiplicity(U, np.array(s), np.array(occ))
        p = abs(complex(v)) ** 2
        for k in list(s) + list(occ):
            p /= math.factorial(k)
        key = tuple(s[m] for m in modes) if modes is not None else tuple(s)
        law[key] = law.get(key, 0.0) + float(p)
    return law


def thin_law(law, tau):
    """Independent loss of each detected photon with survival probability tau."""
    from math import comb

    out = {}
    for s, p in law.items():
        ranges = [range(k + 1) for k in s]
        for t in itertools.product(*ranges):
            w = p
            for k, j in zip(s, t):
                w *= comb(k, j) * tau ** j * (1 - tau) ** (k - j)
            out[t] = out.get(t, 0.0) + w
    return out


def embedded_unitary(d, gates):
    """Total single-particle unitary of a list of passive gate documents (harness-side)."""
    from vf.gen import matrices as M

    U = np.eye(d, dtype=complex)
    for g in gates:
        m = g["m"]
        if g["t"] == "Interferometer":
            u = M.dec(g["p"]["matrix"])
        elif g["t"] == "Beamsplitter":
            th, ph = g["p"]["theta"], g["p"]["phi"]
            u = np.array([[np.cos(th), -np.exp(-1j * ph) * np.sin(th)], [np.exp(1j * ph) * np.sin(th), np.cos(th)]])
        elif g["t"] == "Phaseshifter":
            u = np.array([[np.exp(1j * g["p"]["phi"])]])
        else:
            raise KeyError(g["t"])
        E = np.eye(d, dtype=complex)
        E[np.ix_(m, m)] = u
        U = E @ U
    return U


# ------------------------------------------------------------------------------ workloads
def wl_passive_bunched_distinguishable(ctx, pq, rng, shots):
    """Focused cases: bunched inputs on >= 2 occupied modes with scalar overlap strictly between 0 and 1
    (the sector weights C(n,k) x^k (1-x)^(n-k) k! of the partially distinguishable sampler), many shots."""
    wl_passive(ctx, pq, rng, shots * 3, force="distinguishable-bunched")


def wl_passive(ctx, pq, rng, shots, force=None):
    from vf.gen import programs as G
    from vf.gen import matrices as M

    d = int(rng.integers(2, 5))
    n = int(rng.integers(1, 5 if d < 4 else 4))
    occ = G.number_state(rng, d, n, bunched=rng.random() < 0.3)
    if force == "distinguishable-bunched":
        d = int(rng.integers(2, 4))
        occ = [0] * d
        occ[0], occ[1] = 2, int(rng.integers(1, 3))
    if sum(occ) == 0:
        occ[0] = 1
    gates = []
    for _ in range(int(rng.integers(1, 4))):
        name = str(rng.choice(["Interferometer", "Interferometer", "Beamsplitter", "Phaseshifter"]))
        gates.append(G.gate(rng, name, d))
    if not any(g["t"] == "Interferometer" and len(g["m"]) == d for g in gates):
        gates.append({"t": "Interferometer", "m": G.ordered_subset(rng, d, d), "p": {"matrix": M.enc(M.haar_unitary(rng, d))}})
    variant = str(rng.choice(["ideal", "ideal-subset", "uniform-loss", "loss", "lossy-interferometer", "postselect", "distinguishable", "dask"],
                             p=[0.1, 0.12, 0.12, 0.12, 0.1, 0.12, 0.24, 0.08]))
    if force == "distinguishable-bunched":
        variant = "distinguishable"
    ins = [{"t": "NumberState", "m": None, "p": {"occupation_numbers": occ}}] + gates
    cfg = {}
    modes = None
    law = None
    U = embedded_unitary(d, gates)
    if variant in ("ideal", "dask"):
        if variant == "dask":
            cfg["use_dask"] = True
        # explicit ascending tuple or Q(): both cover all modes in natural order
        law = passive_ideal_law(U, occ)
        ins.append({"t": "ParticleNumberMeasurement", "m": None, "p": {}})
        arity = d
    elif variant == "ideal-subset":
        k = int(rng.integers(1, d))
        modes = G.ordered_subset(rng, d, k)
        law = passive_ideal_law(U, occ, modes)
        ins.append({"t": "ParticleNumberMeasurement", "m": modes, "p": {}})
        arity = k
    elif variant == "uniform-loss":
        t = float(rng.choice([0.5, 0.8, 0.95]))
        ins.append({"t": "UniformLoss", "m": None, "p": {"transmissivity": t}})
        law = thin_law(passive_ideal_law(U, occ), t * t)
        ins.append({"t": "ParticleNumberMeasurement", "m": None, "p": {}})
        arity = d
    else:
        # laws from the single-outcome interface of the state (C05 validates it against a dilation)
        if variant == "loss":
            ins.append({"t": "Loss", "m": [int(rng.integers(0, d))], "p": {"transmissivity": float(rng.choice([0.3, 0.7, 0.9]))}})
            ins.append(G.gate(rng, "Beamsplitter", d))
        elif variant == "lossy-interferometer":
            T, s = M.transmission_matrix(rng, d)
            ins.append({"t": "LossyInterferometer", "m": None, "p": {"matrix": M.enc(T)}})
        elif variant == "distinguishable":
            ov = float(rng.choice([0.0, 0.3, 0.6, 0.7, 1.0])) if force is None else float(rng.choice([0.3, 0.5, 0.6, 0.7]))
            if max(occ) < 2 and d >= 2 and rng.random() < 0.6:
                # bunched inputs on >= 2 occupied modes: the sector weights of partial distinguishability matter
                occ = [0] * d
                occ[0], occ[1] = 2, int(rng.integers(1, 3))
                ins[0] = {"t": "NumberState", "m": None, "p": {"occupation_numbers": occ}}
            ins[0] = {"t": "DistinguishableNumberState", "m": None, "p": {"occupation_numbers": occ, "particle_overlap": ov}}
            cfg["cutoff"] = sum(occ) + 1
        elif variant == "postselect":
            pm = [int(rng.integers(0, d))]
            ins.append({"t": "PostSelectPhotons", "m": pm, "p": {"photon_counts": [int(rng.integers(0, 2))]}})
        state_doc = {"sim": "passive", "d": d, "config": dict(cfg), "ins": list(ins), "shots": 1}
        try:
            st = G.build_adaptive(pq, state_doc)
            state = st[0].execute(st[1]).state
            dd = state.d
            from piquasso._math.fock import get_fock_space_basis

            basis = np.asarray(get_fock_space_basis(dd, sum(occ) + 1))
            law = {}
            for b in basis:
                p = float(np.real(state.get_particle_detection_probability(tuple(int(v) for v in b))))
                law[tuple(int(v) for v in b)] = max(p, 0.0)
            tot = sum(law.values())
            if tot < 1e-6:
                return  # post-selection of probability ~0: nothing to sample
            law = {k: v / tot for k, v in law.items()}
            arity = dd
        except Exception as e:
            ctx.obs.add("passive law not available for variant %s: %s" % (variant, type(e).__name__))
            return
        ins.append({"t": "ParticleNumberMeasurement", "m": None, "p": {}})
    doc = {"sim": "passive", "d": d, "config": cfg, "ins": ins, "shots": shots}
    cls = "passive|%s|d%d|n%d|%s|%s" % (variant, d, sum(occ), "bunched" if max(occ) > 1 else "spread", G.mode_pattern(modes) if modes else "all")
    # passive sampling is cheap: three times the base number of shots (resolves TV ~0.05 in the quick tier)
    judge_discrete(ctx, pq, doc, law, "passive/" + variant, cls, shots * 3, int(rng.integers(1, 2 ** 31)), arity, "passive-" + variant)


def gaussian_state_doc(rng, d, hbar, small=True):
    from vf.gen import programs as G

    ins = [{"t": "Vacuum", "m": None, "p": {}}]
    for m in range(d):
        if rng.random() < 0.8:
            ins.append({"t": "Squeezing", "m": [m], "p": {"r": float(rng.uniform(0.1, 0.45 if small else 0.8)), "phi": G.angle(rng)}})
        if rng.random() < 0.5:
            ins.append({"t": "Displacement", "m": [m], "p": {"r": float(rng.uniform(0.0, 0.5 if small else 1.0)), "phi": G.angle(rng)}})
    for _ in range(int(rng.integers(1, 3))):
        ins.append(G.gate(rng, str(rng.choice(["Interferometer", "Beamsplitter"])), d))
    if rng.random() < 0.4:
        # mixed states: loss on one mode (the samplers draw a random pure-state mean per shot then)
        ins.append({"t": "Attenuator", "m": [int(rng.integers(0, d))], "p": {"theta": float(rng.uniform(0.3, 0.9))}})
    return [i for i in ins if i is not None]


def wl_gaussian_discrete(ctx, pq, rng, shots):
    from vf.gen import programs as G

    d = int(rng.integers(1, 4))
    hbar = float(rng.choice([1.0, 2.0, 3.3]))
    ins = gaussian_state_doc(rng, d, hbar)
    kind = str(rng.choice(["pnm", "threshold", "threshold-torontonian"]))
    k = int(rng.integers(1, d + 1))
    modes = sorted(G.ordered_subset(rng, d, k)) if rng.random() < 0.5 else G.ordered_subset(rng, d, k)
    cfg = {"hbar": hbar, "measurement_cutoff": 8}
    if kind == "threshold-torontonian":
        cfg["use_torontonian"] = True
    sim, prog = G.build_adaptive(pq, {"sim": "gaussian", "d": d, "config": cfg, "ins": ins, "shots": 1})
    state = sim.execute(prog).state
    red = state.reduced(tuple(modes))
    law = {}
    try:
        if kind == "pnm":
            for o in itertools.product(range(8), repeat=k):
                if sum(o) <= 9:
                    law[o] = max(0.0, float(np.real(red.get_particle_detection_probability(tuple(o)))))
            tail = 1.0 - sum(law.values())
            if tail > 1e-4:
                return  # truncation would matter: not a case for the statistical oracle
        else:
            for o in itertools.product(range(2), repeat=k):
                law[o] = max(0.0, float(np.real(red.get_threshold_detection_probability(tuple(o)))))
    except Exception as e:
        ctx.obs.add("gaussian law not available: %s" % type(e).__name__)
        return
    mt = "ParticleNumberMeasurement" if kind == "pnm" else "ThresholdMeasurement"
    doc = {"sim": "gaussian", "d": d, "config": cfg, "ins": ins + [{"t": mt, "m": modes, "p": {}}], "shots": shots}
    cls = "gaussian|%s|d%d|k%d|h%s|%s" % (kind, d, k, hbar, G.mode_pattern(modes))
    prefix = "gaussian-" + kind
    base = None
    if kind in ("pnm", "threshold") and hbar != 2.0:
        # known defect: the particle-number sampler (also used for threshold detection without the
        # torontonian) normalises mean/covariance as if hbar were 2; the key is used only when the same program
        # follows the law at hbar = 2 (otherwise it is a different violation and reported as such)
        prefix, base = "gaussian-particle-number-sampling-hbar-normalisation", prefix
    judge_discrete(ctx, pq, doc, law, "gaussian/" + kind, cls, shots if kind != "pnm" else min(shots, 1500), int(rng.integers(1, 2 ** 31)), k, prefix,
                   base_prefix=base)


def wl_gaussian_dyne(ctx, pq, rng, shots):
    """Homodyne / heterodyne / general-dyne on Gaussian states: arity, mean, covariance."""
    from vf.gen import programs as G
    from vf.gen import matrices as M
    from vf import stats as S

    d = int(rng.integers(1, 4))
    hbar = float(rng.choice([1.0, 2.0, 3.3]))
    ins = gaussian_state_doc(rng, d, hbar, small=False)
    kind = str(rng.choice(["homodyne", "heterodyne", "generaldyne"]))
    k = int(rng.integers(1, d + 1))
    modes = G.ordered_subset(rng, d, k)
    cfg = {"hbar": hbar}
    sim, prog = G.build_adaptive(pq, {"sim": "gaussian", "d": d, "config": cfg, "ins": ins, "shots": 1})
    state = sim.execute(prog).state
    red = state.reduced(tuple(modes))
    if kind == "homodyne":
        phi = G.angle(rng)
        mdoc = {"t": "HomodyneMeasurement", "m": modes, "p": {"phi": phi, "z": 1e-4}}
        rot = red.rotated(phi) if hasattr(red, "rotated") else red
        mean = np.asarray(rot.xpxp_mean_vector)[0::2]
        cov = np.asarray(rot.xpxp_covariance_matrix)[0::2, 0::2] / 2.0  # (sigma + sigma_m)/2 with sigma_m -> 0 on x
        arity = k
    else:
        if kind == "heterodyne":
            mdoc = {"t": "HeterodyneMeasurement", "m": modes, "p": {}}
            sm = np.eye(2 * k) * hbar
        else:
            a = rng.normal(size=(2, 2))
            dc = a @ a.T + np.eye(2) * 0.2
            dc = dc / np.sqrt(np.linalg.det(dc))
            mdoc = {"t": "GeneraldyneMeasurement", "m": modes, "p": {"detection_covariance": M.enc(dc)}}
            sm = np.kron(np.eye(k), dc) * hbar
        mean = np.asarray(red.xpxp_mean_vector)
        cov = (np.asarray(red.xpxp_covariance_matrix) + sm) / 2.0
        arity = 2 * k
    doc = {"sim": "gaussian", "d": d, "config": cfg, "ins": ins + [mdoc], "shots": shots}
    seed = int(rng.integers(1, 2 ** 31))
    case = {"doc": doc, "seed": seed, "shots": shots, "kind": "gaussian/" + kind}
    ctx.evals += 1
    try:
        samples = np.array(run_samples(pq, doc, seed, shots), dtype=float)
    except Exception as e:
        ctx.c["sampler_raises"] += 1
        ctx.viol("gaussian-%s-sampler-raises:%s" % (kind, type(e).__name__), "%s sampler raised %s: %s" % (kind, type(e).__name__, str(e)[:200]), case)
        return
    ctx.c["sampling_runs"] += 1
    ctx.c["samples_recorded"] += len(samples)
    ctx.c["by_kind"]["gaussian/" + kind] = ctx.c["by_kind"].get("gaussian/" + kind, 0) + 1
    ctx.classes.add("gaussian|%s|d%d|k%d|h%s|%s" % (kind, d, k, hbar, G.mode_pattern(modes)))
    ctx.c["support_checks"] += 1
    if samples.shape[1] != arity:
        mech = "gaussian-%s-sample-arity" % kind
        if kind == "homodyne" and samples.shape[1] == 2 * k:
            mech = "gaussian-homodyne-two-entries"
        ctx.viol(mech, "%s on %d mode(s): every sample has %d entries, %d quantities are measured" % (kind, k, samples.shape[1], arity), case)
        if kind == "homodyne" and samples.shape[1] == 2 * k:
            samples = samples[:, 0::2]  # keep judging the measured quadrature
        else:
            return
    # means
    for j in range(arity):
        ctx.c["moment_tests"] += 1
        z, p = S.mean_test(samples[:, j], mean[j], max(cov[j, j], float(np.var(samples[:, j]))))
        ctx.c["min_p_value"] = min(ctx.c["min_p_value"], p)
        if p < S.ALPHA:
            ctx.viol("gaussian-%s-mean" % kind, "%s: sample mean of entry %d is %.4f, exact %.4f (z=%.1f, %d shots)" % (kind, j, samples[:, j].mean(), mean[j], z, len(samples)), case)
    # variances
    ratios = []
    for j in range(arity):
        ctx.c["moment_tests"] += 1
        ratio, z, p = S.variance_ratio(samples[:, j], cov[j, j])
        ratios.append(ratio)
        ctx.c["min_p_value"] = min(ctx.c["min_p_value"], p)
    bad = [j for j in range(arity) if abs(ratios[j] - 1.0) > 7 * np.sqrt(2.0 / (len(samples) - 1))]
    if bad:
        se = np.sqrt(2.0 / (len(samples) - 1))
        if all(abs(r / 2.0 - 1.0) <= 7 * se for r in ratios):  # statistically consistent with exactly twice the variance
            mech = "gaussian-generaldyne-covariance-x2"
        else:
            mech = "gaussian-%s-variance" % kind
        ctx.viol(mech, "%s: sample variance / ((sigma+sigma_m)/2) = %s (%d shots)" % (kind, np.round(ratios, 3).tolist(), len(samples)), case)


def wl_fock(ctx, pq, rng, shots):
    """Particle-number sampling on PureFock / Fock / fermionic Fock: law from the hooked snapshot."""
    from vf.gen import programs as G
    from vf.monitors import physical as P

    sim = str(rng.choice(["purefock", "purefock", "fock", "ffock", "fgaussian"]))
    d = int(rng.integers(2, 4))
    if sim in ("ffock", "fgaussian"):
        occ = [int(v) for v in rng.integers(0, 2, size=d)]
        if sum(occ) == 0:
            occ[0] = 1
        ins = [{"t": "NumberState", "m": None, "p": {"occupation_numbers": occ}}]
        for _ in range(int(rng.integers(1, 4))):
            g = G.gate(rng, str(rng.choice(["Beamsplitter", "Interferometer", "Squeezing2", "Phaseshifter"])), d, active_scale=0.5)
            kk = len(g["m"])
            st = int(rng.integers(0, d - kk + 1))
            g["m"] = list(range(st, st + kk))
            ins.append(g)
        cfg = {"cutoff": d + 1}
        modes = None
        k = d
    else:
        cutoff = int(rng.integers(4, 7))
        if sim == "purefock":
            sp, occs, amps = G.superposition(rng, d, 2, terms=3)
            ins = [sp]
        else:
            ins = [{"t": "Vacuum", "m": None, "p": {}}]
        for _ in range(int(rng.integers(1, 4))):
            g = G.gate(rng, str(rng.choice(["Beamsplitter", "Interferometer", "Squeezing", "Displacement", "Phaseshifter", "Kerr"])), d, active_scale=0.3, disp_scale=0.5)
            ins.append(g)
        cfg = {"cutoff": cutoff}
        k = int(rng.integers(1, d + 1))
        modes = G.ordered_subset(rng, d, k) if (sim == "purefock" or k == d) else G.ordered_subset(rng, d, k)
    state_doc = {"sim": sim, "d": d, "config": cfg, "ins": ins, "shots": 1}
    try:
        s, p = G.build_adaptive(pq, state_doc)
        state = s.execute(p).state
    except Exception as e:
        ctx.obs.add("%s state preparation raised %s" % (sim, type(e).__name__))
        return
    law = {}
    try:
        if sim in ("purefock", "ffock"):
            from vf.checks import c03

            vec = np.asarray(state.state_vector, dtype=complex)
            basis = c03._basis(sim, d, cfg["cutoff"])
            mm = modes if modes is not None else list(range(d))
            norm2 = float(np.real(np.vdot(vec, vec)))
            for b, a in zip(basis, vec):
                key = tuple(int(b[m]) for m in mm)
                law[key] = law.get(key, 0.0) + float(abs(a) ** 2) / norm2
        elif sim == "fock":
            rho = np.asarray(state.density_matrix)
            from piquasso._math.fock import get_fock_space_basis

            basis = np.asarray(get_fock_space_basis(d, cfg["cutoff"]))
            tr = float(np.real(np.trace(rho)))
            mm = modes if modes is not None else list(range(d))
            for i, b in enumerate(basis):
                key = tuple(int(b[m]) for m in mm)
                law[key] = law.get(key, 0.0) + float(np.real(rho[i, i])) / tr
        else:
            for o in itertools.product(range(2), repeat=d):
                law[o] = max(0.0, float(np.real(state.get_particle_detection_probability(np.array(o)))))
    except Exception as e:
        ctx.obs.add("%s law not available: %s" % (sim, type(e).__name__))
        return
    doc = dict(state_doc, ins=ins + [{"t": "ParticleNumberMeasurement", "m": modes, "p": {}}], shots=shots)
    cls = "%s|pnm|d%d|k%d|%s" % (sim, d, k, G.mode_pattern(modes) if modes else "all")
    judge_discrete(ctx, pq, doc, law, sim + "/pnm", cls, shots, int(rng.integers(1, 2 ** 31)), k, sim + "-pnm")


def wl_fock_homodyne(ctx, pq, rng, shots):
    """Homodyne on the pure Fock simulator: KS test of each mode's marginal against the Hermite-function density."""
    from vf.gen import programs as G
    from vf import stats as S

    d = int(rng.integers(1, 3))
    hbar = float(rng.choice([1.0, 2.0]))
    cutoff = int(rng.integers(5, 9))
    sp, occs, amps = G.superposition(rng, d, 2, terms=3)
    ins = [sp]
    for _ in range(int(rng.integers(0, 3))):
        ins.append(G.gate(rng, str(rng.choice(["Squeezing", "Displacement", "Phaseshifter", "Beamsplitter"])), d, active_scale=0.3, disp_scale=0.5))
    ins = [i for i in ins if i is not None]
    k = int(rng.integers(1, d + 1))
    modes = G.ordered_subset(rng, d, k)
    phi = 0.0  # a rotated homodyne angle is explicitly "not yet supported" on the pure Fock simulator
    cfg = {"cutoff": cutoff, "hbar": hbar}
    s, p = G.build_adaptive(pq, {"sim": "purefock", "d": d, "config": cfg, "ins": ins, "shots": 1})
    state = s.execute(p).state
    doc = {"sim": "purefock", "d": d, "config": cfg, "ins": ins + [{"t": "HomodyneMeasurement", "m": modes, "p": {"phi": phi}}], "shots": shots}
    seed = int(rng.integers(1, 2 ** 31))
    case = {"doc": doc, "seed": seed, "shots": shots, "kind": "purefock/homodyne"}
    ctx.evals += 1
    try:
        samples = np.array(run_samples(pq, doc, seed, shots), dtype=float)
    except Exception as e:
        ctx.c["sampler_raises"] += 1
        ctx.viol("purefock-homodyne-sampler-raises:%s" % type(e).__name__, "homodyne sampler raised %s: %s" % (type(e).__name__, str(e)[:200]), case)
        return
    ctx.c["sampling_runs"] += 1
    ctx.c["samples_recorded"] += len(samples)
    ctx.c["by_kind"]["purefock/homodyne"] = ctx.c["by_kind"].get("purefock/homodyne", 0) + 1
    ctx.c["support_checks"] += 1
    ctx.classes.add("purefock|homodyne|d%d|k%d|h%s|phi%s|%s" % (d, k, hbar, "0" if phi == 0.0 else "x", G.mode_pattern(modes)))
    if samples.ndim != 2 or samples.shape[1] != k:
        ctx.viol("purefock-homodyne-sample-arity", "homodyne on %d mode(s): samples have shape %s" % (k, samples.shape), case)
        return
    for j, m in enumerate(modes):
        rho = np.asarray(state.reduced((m,)).density_matrix)
        cdf, mu, var, total = S.quadrature_cdf(rho, hbar, phi)
        ctx.c["ks_tests"] += 1
        dstat, pval = S.ks_test(samples[:, j], cdf)
        ctx.c["min_p_value"] = min(ctx.c["min_p_value"], pval)
        ctx.c["moment_tests"] += 1
        z, pm = S.mean_test(samples[:, j], mu, var)
        if pval < S.ALPHA or pm < S.ALPHA:
            # confirmation
            ctx.c["confirmation_runs"] += 1
            s2 = np.array(run_samples(pq, doc, seed + 7919, shots * 4), dtype=float)
            d2, p2 = S.ks_test(s2[:, j], cdf)
            z2, pm2 = S.mean_test(s2[:, j], mu, var)
            if p2 < S.ALPHA_CONFIRM or pm2 < S.ALPHA_CONFIRM:
                mech = "purefock-homodyne-marginal-law:first-mode" if j == 0 else "purefock-homodyne-marginal-law:later-mode"
                if j > 0 and _explained_by_unnormalised_hermite_terms(pq, doc, seed + 7919, shots * 4, j, cdf, mu, var):
                    ctx.c["hermite_terms_attributions"] = ctx.c.get("hermite_terms_attributions", 0) + 1
                    mech = "purefock-homodyne-conditional-hermite-terms-unnormalised"
                ctx.viol(mech, "homodyne marginal of measured mode #%d (mode %d): KS D=%.3f p=%.1e (confirmation D=%.3f p=%.1e), sample mean %.3f vs exact %.3f" % (
                    j, m, dstat, pval, d2, p2, s2[:, j].mean(), mu), case)


def _explained_by_unnormalised_hermite_terms(pq, doc, seed, shots, j, cdf, mu, var):
    """Symptom predicate of one known defect: the multi-mode Fock homodyne sampler conditions the next mode on the
    positions already drawn with the bare Hermite values H_n(x) instead of H_n(x) / sqrt(2^n n!). The sampler is re-run
    (same seed) with the normalised terms installed in this harness process only; the deviation is attributed to the defect
    when that run follows the exact marginal law."""
    from vf import stats as S
    from piquasso._simulators.fock.pure.simulation_steps import homodyne as H

    original = H.get_hermite_terms

    def corrected(hermites, positions, space, current_d, cutoff):
        terms = np.asarray(original(hermites, positions, space, current_d, cutoff), dtype=float).copy()
        occ = np.asarray(space)[:, : current_d - 1].astype(float)
        from scipy.special import gammaln

        lognorm = 0.5 * (occ * np.log(2.0) + gammaln(occ + 1.0)).sum(axis=1)
        return terms / np.exp(lognorm)

    H.get_hermite_terms = corrected
    try:
        s3 = np.array(run_samples(pq, doc, seed, shots), dtype=float)
    except Exception:
        return False
    finally:
        H.get_hermite_terms = original
    d3, p3 = S.ks_test(s3[:, j], cdf)
    z3, pm3 = S.mean_test(s3[:, j], mu, var)
    return bool(p3 >= S.ALPHA_CONFIRM and pm3 >= S.ALPHA_CONFIRM)


WORKLOADS = [("passive", wl_passive, 4), ("passive-bunched-distinguishable", wl_passive_bunched_distinguishable, 2), ("gaussian-discrete", wl_gaussian_discrete, 5), ("gaussian-dyne", wl_gaussian_dyne, 3), ("fock", wl_fock, 3),
             ("fock-homodyne", wl_fock_homodyne, 2)]


def plan(tier, seed):
    specs = []
    idx = 0
    for name, _, nshards in WORKLOADS:
        for j in range(nshards):
            specs.append({"name": "%s-%d" % (name, j), "workload": name, "shard": idx, "cases": (8 if name == "gaussian-discrete" else 6) if tier == "quick" else 30,
                          # thorough: 4x the shots and 5x the cases of the quick tier; 40000 shots x 40 cases (first version) ran for
                          # more than 80 minutes in one passive shard (samplers cost ~10 ms per shot) and was never completed
                          "shots": 2500 if tier == "quick" else 10000,
                          "env": {"OPENBLAS_NUM_THREADS": "1", "OMP_NUM_THREADS": "2", "NUMBA_NUM_THREADS": "2"}})
            idx += 1
    return specs


def run_shard(spec):
    from vf import boot

    pq = boot.import_piquasso()
    rng = np.random.default_rng([int(spec["seed"]), 2, int(spec["shard"])])
    ctx = Ctx()
    fn = dict((n, f) for n, f, _ in WORKLOADS)[spec["workload"]]
    t0 = time.time()
    budget = 200 if spec["tier"] == "quick" else 2400
    for i in range(int(spec["cases"])):
        if time.time() - t0 > budget:
            ctx.obs.add("shard stopped by time budget after %d cases" % i)
            break
        fn(ctx, pq, rng, int(spec["shots"]))
    return {"evaluations": ctx.evals, "classes": sorted(ctx.classes), "violations": ctx.violations,
            "counters": ctx.c, "samples": ctx.samples, "observations": sorted(ctx.obs)[:20]}


def replay(case):
    """Re-samples the recorded program with the recorded seed and re-judges it against the law recomputed
    from the state's exact interfaces."""
    from vf import boot

    pq = boot.import_piquasso()
    ctx = Ctx()
    doc = case["doc"]
    samples = run_samples(pq, doc, case["seed"], case["shots"])
    meas = doc["ins"][-1]
    k = len(meas["m"]) if meas.get("m") else doc["d"]
    if samples and len(samples[0]) != (k * (2 if meas["t"] in ("HeterodyneMeasurement", "GeneraldyneMeasurement") else 1)):
        ctx.viol("sample-arity", "sample %s has %d entries for %d measured modes (%s)" % (samples[0], len(samples[0]), k, meas["t"]), case)
    return ctx.violations
