"""C06 - Fock-basis enumeration and index functions are mutually inverse.

The real functions are called exhaustively over the stated ranges; every returned array is
checked by an independent big-int ranking (math.comb) and by ordering/uniqueness/count
monitors; cached basis arrays are checksummed and re-verified at quiescent points.
"""

import hashlib
import itertools
import math
import time

import numpy as np

ID = "C06"
LEVEL = "exploration"
EXHAUSTIVE = True
TECHNIQUE = "runtime monitoring: exhaustive calls of the real basis/index functions under an independent big-int ranking oracle; cache-integrity checksums at quiescent points"
DESIGN_REF = "DESIGN.md §4 C06"
LEVEL_TEXT = (
    "All (d, cutoff) in the stated ranges are enumerated completely (bosonic d<=7, c<=9 thorough / d<=5, c<=7 quick; "
    "fermionic d<=10 / d<=8) and every basis row, scalar index, vectorised index, sub-space index, dimension formula, "
    "partition list, projection index list and PureFockState.__getitem__ key form is compared with an independent "
    "ranking; random occupation vectors probe ranks up to 2^31-1. Exhaustive over the enumerated ranges, sampled beyond."
)
LEVEL_NOTE = (
    "Trusts math.comb and the small ranking function in this file; beyond the enumerated ranges only random vectors "
    "are tried; ranks >= 2^31 are outside the property and not judged."
)
RULE = (
    "cases = one per (function family, d, cutoff) pair plus one per random large occupation vector / key form; "
    "distinct_nontrivial = number of distinct (family, d, cutoff) pairs with basis size >= 2 whose every row was "
    "compared with the independent ranking, plus distinct (d, total) classes of the random vectors."
)
ASSUMPTIONS = ["math.comb is correct", "anti-lexicographic = descending lexicographic order of occupation vectors within a sector"]
REQUIRED = ["rows_checked", "scalar_index_calls", "array_index_calls", "fermionic_rows_checked", "getitem_keys",
            "projection_lists", "random_large_vectors", "cache_rechecks"]
WATCHDOG = {"quick": 600, "thorough": 3600}


# ---------------------------------------------------------------- independent oracle
def sector_rank(v):
    """Position of v among all vectors with the same total, in descending-lexicographic order."""
    d = len(v)
    rem = int(sum(v))
    r = 0
    for i in range(d - 1):
        boxes_left = d - i - 1
        for a in range(int(v[i]) + 1, rem + 1):
            r += math.comb(rem - a + boxes_left - 1, boxes_left - 1)
        rem -= int(v[i])
    return r


def full_rank(v):
    d = len(v)
    n = int(sum(v))
    return math.comb(d + n - 1, d) + sector_rank(v)  # sum_{m<n} C(d+m-1, m) = C(d+n-1, d)


def expected_basis(d, cutoff):
    rows = []
    for n in range(cutoff):
        sector = [v for v in itertools.product(range(n + 1), repeat=d) if sum(v) == n]
        sector.sort(reverse=True)
        rows.extend(sector)
    return rows


class Ctx:
    def __init__(self):
        self.violations = []
        self.c = {k: 0 for k in REQUIRED}
        self.c.update({"pairs": 0, "partition_lists": 0, "bounded_partition_lists": 0, "dimension_calls": 0,
                       "max_rank_seen": 0, "out_of_scope_rank": 0})
        self.classes = set()
        self.samples = []
        self.evals = 0
        self.obs = set()

    def viol(self, mech, msg, case):
        if len(self.violations) < 100:
            self.violations.append({"mechanism": mech, "message": msg, "case": case})


def _digest(a):
    a = np.ascontiguousarray(a)
    return hashlib.sha1(a.tobytes() + str(a.shape).encode() + str(a.dtype).encode()).hexdigest()


def check_bosonic_pair(ctx, d, c, mods, exhaustive_oracle=True):
    fock, indices, comb_mod = mods
    case = {"family": "bosonic", "d": d, "cutoff": c}
    ctx.evals += 1
    ctx.c["pairs"] += 1
    basis = fock.get_fock_space_basis(d, c)
    fresh = fock.nb_get_fock_space_basis(d, c)
    size = math.comb(d + c - 1, d)
    if basis.shape != (size, d):
        ctx.viol("basis-shape", "get_fock_space_basis(%d,%d).shape=%s expected %s" % (d, c, basis.shape, (size, d)), case)
        return
    if not np.array_equal(basis, fresh):
        ctx.viol("cached-basis-differs", "cached basis differs from a fresh enumeration for d=%d c=%d" % (d, c), case)
    b = np.asarray(basis).astype(np.int64)
    if (b < 0).any() or (b.sum(axis=1) >= c).any():
        ctx.viol("basis-row-invalid", "a row of the basis d=%d c=%d has a negative entry or total >= cutoff" % (d, c), case)
    # ordering monitor: totals non-decreasing, strictly descending lexicographic inside a sector
    tot = b.sum(axis=1)
    for i in range(len(b) - 1):
        if tot[i + 1] < tot[i] or (tot[i + 1] == tot[i] and not tuple(b[i]) > tuple(b[i + 1])):
            ctx.viol("basis-order", "basis d=%d c=%d: rows %d,%d out of order: %s %s" % (d, c, i, i + 1, b[i], b[i + 1]), case)
            break
    if exhaustive_oracle and size <= 20000:
        exp = expected_basis(d, c)
        if [tuple(r) for r in b.tolist()] != exp:
            ctx.viol("basis-enumeration", "basis d=%d c=%d differs from the brute-force enumeration" % (d, c), case)
    # dimension formulas
    ctx.c["dimension_calls"] += 3
    if int(fock.cutoff_fock_space_dim(cutoff=c, d=d)) != size:
        ctx.viol("dimension-formula", "cutoff_fock_space_dim(%d,%d)=%s expected %d" % (c, d, fock.cutoff_fock_space_dim(cutoff=c, d=d), size), case)
    for n in range(c):
        if int(fock.symmetric_subspace_cardinality(d, n)) != math.comb(d + n - 1, n):
            ctx.viol("dimension-formula", "symmetric_subspace_cardinality(%d,%d) wrong" % (d, n), case)
    # index functions, every row
    arr = indices.get_index_in_fock_space_array(basis)
    ctx.c["array_index_calls"] += 1
    if not np.array_equal(np.asarray(arr).astype(np.int64), np.arange(size)):
        bad = int(np.nonzero(np.asarray(arr) != np.arange(size))[0][0])
        ctx.viol("array-index", "get_index_in_fock_space_array(basis d=%d c=%d)[%d]=%s" % (d, c, bad, arr[bad]), case)
    arr64 = indices.get_index_in_fock_space_array(b)
    if not np.array_equal(np.asarray(arr64).astype(np.int64), np.arange(size)):
        ctx.viol("array-index", "get_index_in_fock_space_array(int64 basis d=%d c=%d) wrong" % (d, c), case)
    sub = indices.get_index_in_fock_subspace_array(basis)
    ctx.c["array_index_calls"] += 1
    for i in range(size):
        row = basis[i]
        ctx.c["rows_checked"] += 1
        r_ind = full_rank(b[i])
        if r_ind != i:
            ctx.viol("basis-enumeration", "independent rank of row %d (%s) is %d (d=%d c=%d)" % (i, b[i], r_ind, d, c), case)
            break
        got = int(indices.get_index_in_fock_space(row))
        ctx.c["scalar_index_calls"] += 1
        if got != i:
            ctx.viol("scalar-index", "get_index_in_fock_space(%s)=%d expected %d" % (b[i], got, i), case)
            break
        if i % 7 == 0:
            got_t = int(indices.get_index_in_fock_space(tuple(int(t) for t in b[i])))
            got_64 = int(indices.get_index_in_fock_space(b[i]))
            ctx.c["scalar_index_calls"] += 2
            if got_t != i or got_64 != i:
                ctx.viol("scalar-index", "get_index_in_fock_space(tuple/int64 %s)=%d/%d expected %d" % (b[i], got_t, got_64, i), case)
                break
        sr = sector_rank(b[i])
        gs = int(indices.get_index_in_fock_subspace(row))
        if gs != sr or int(sub[i]) != sr:
            ctx.viol("subspace-index", "get_index_in_fock_subspace(%s)=%d array=%d expected %d" % (b[i], gs, int(sub[i]), sr), case)
            break
    # partitions == sectors
    for n in range(c):
        ctx.c["partition_lists"] += 1
        p = comb_mod.partitions(d, n)
        lo = math.comb(d + n - 1, d)
        hi = lo + math.comb(d + n - 1, n)
        if not np.array_equal(np.asarray(p), basis[lo:hi]):
            ctx.viol("partitions", "partitions(%d,%d) differs from the sector of the basis" % (d, n), case)
    if size >= 2:
        ctx.classes.add("bosonic:d%d:c%d" % (d, c))
    if len(ctx.samples) < 3 and d == 3 and c == 3:
        ctx.samples.append({"family": "bosonic", "d": d, "cutoff": c, "basis": b.tolist(), "index_of_rows": np.asarray(arr).tolist()})


def check_bounded_partitions(ctx, rng, d, n, comb_mod):
    if d < 1:
        return
    k = int(rng.integers(1, min(d, 3) + 1))
    boxes = sorted(rng.choice(d, size=k, replace=False).tolist())
    maxes = [int(rng.integers(0, n + 2)) for _ in boxes]
    k_limit = int(rng.integers(0, sum(maxes) + 2))
    ctx.evals += 1
    ctx.c["bounded_partition_lists"] += 1
    case = {"family": "partitions_bounded_k", "d": d, "n": n, "boxes": boxes, "max": maxes, "k_limit": k_limit}
    got = comb_mod.partitions_bounded_k(d, n, boxes, maxes, k_limit)
    allp = np.asarray(comb_mod.partitions(d, n)).astype(np.int64)
    keep = []
    for row in allp:
        ok = all(row[bx] <= m for bx, m in zip(boxes, maxes))
        if ok and sum(m - row[bx] for bx, m in zip(boxes, maxes)) <= k_limit:
            keep.append(row.tolist())
    if np.asarray(got).astype(np.int64).tolist() != keep:
        ctx.viol("partitions-bounded", "partitions_bounded_k(%s) differs from the filtered partitions (%d vs %d rows)" % (case, len(got), len(keep)), case)
    ctx.classes.add("pbk:d%d:n%d:k%d" % (d, n, len(boxes)))


def check_projection(ctx, rng, d, c, fock, fsteps):
    if d < 1 or c < 1:
        return
    k = int(rng.integers(1, d + 1))
    modes = tuple(int(m) for m in rng.permutation(d)[:k])
    vec = []
    left = c - 1
    for _ in modes:
        a = int(rng.integers(0, left + 1))
        vec.append(a)
        left -= a
    case = {"family": "projection", "d": d, "cutoff": c, "modes": list(modes), "vector": vec}
    ctx.evals += 1
    ctx.c["projection_lists"] += 1
    got = fsteps.get_projection_operator_indices(d, c, modes, np.array(vec))
    basis = np.asarray(fock.get_fock_space_basis(d, c)).astype(np.int64)
    exp = [i for i, row in enumerate(basis) if all(row[m] == a for m, a in zip(modes, vec))]
    if np.asarray(got).astype(np.int64).tolist() != exp:
        ctx.viol("projection-indices", "get_projection_operator_indices(%s): %s expected %s" % (case, np.asarray(got).tolist()[:12], exp[:12]), case)
    ctx.classes.add("proj:d%d:c%d:k%d:%s" % (d, c, k, "asc" if list(modes) == sorted(modes) else "perm"))


def check_getitem(ctx, rng, pq, d, c):
    size = math.comb(d + c - 1, d)
    vec = rng.normal(size=size) + 1j * rng.normal(size=size)
    vec /= np.linalg.norm(vec)
    state = pq.PureFockState(d=d, connector=pq.NumpyConnector(), config=pq.Config(cutoff=c))
    state.state_vector = vec.copy()
    basis = [v for v in expected_basis(d, c)]
    case = {"family": "getitem", "d": d, "cutoff": c}
    ctx.evals += 1

    def expect(v):
        return vec[full_rank(v)]

    picks = [basis[int(i)] for i in rng.integers(0, len(basis), size=min(12, len(basis)))]
    for v in picks:
        ctx.c["getitem_keys"] += 1
        forms = [tuple(v), list(v), np.array(v), np.array(v, dtype=np.int32)]
        if d == 1:
            forms.append(int(v[0]))
        for key in forms:
            try:
                got = state[key]
            except Exception as e:
                ctx.viol("getitem", "state[%r] raised %s: %s (d=%d c=%d)" % (key, type(e).__name__, e, d, c), dict(case, key=list(v)))
                break
            if not np.isclose(got, expect(v), rtol=0, atol=0):
                ctx.viol("getitem", "state[%r]=%s expected %s (d=%d c=%d)" % (key, got, expect(v), d, c), dict(case, key=list(v)))
                break
    # 2-D key
    if len(picks) >= 2:
        ctx.c["getitem_keys"] += 1
        got = state[np.array(picks)]
        exp = np.array([expect(v) for v in picks])
        if not np.array_equal(np.asarray(got), exp):
            ctx.viol("getitem", "state[2-D occupations] wrong (d=%d c=%d)" % (d, c), case)
    # one slice pattern
    if d >= 1:
        pos = int(rng.integers(0, d))
        fixed = []
        left = c - 1
        for i in range(d):
            if i == pos:
                fixed.append(None)
            else:
                a = int(rng.integers(0, left + 1)) if rng.random() < 0.6 else 0
                fixed.append(a)
                left -= a
        ftot = sum(a for a in fixed if a is not None)
        sl = [slice(None), slice(1, None), slice(None, None, 2), slice(0, 2)][int(rng.integers(0, 4))]
        key = tuple(sl if a is None else a for a in fixed)
        ctx.c["getitem_keys"] += 1
        try:
            got = state[key if d > 1 else key[0]]
            vals = list(range(c - ftot))[sl]
            exp = np.array([expect([v if a is None else a for a in fixed]) for v in vals]) if d > 1 else vec[sl]
            if not np.array_equal(np.asarray(got), np.asarray(exp)):
                ctx.viol("getitem", "state[%r] (slice) wrong (d=%d c=%d)" % (key, d, c), dict(case, key=repr(key)))
        except Exception as e:
            ctx.viol("getitem", "state[%r] raised %s: %s" % (key, type(e).__name__, e), dict(case, key=repr(key)))
    ctx.classes.add("getitem:d%d:c%d" % (d, c))
    # observables that temporarily edit the cached basis
    try:
        for m in range(d):
            state.mean_position(m)
    except Exception as e:
        ctx.obs.add("mean_position raised %s at d=%d c=%d" % (type(e).__name__, d, c))


def check_fermionic(ctx, d, cutoff, futils):
    case = {"family": "fermionic", "d": d, "cutoff": cutoff}
    ctx.evals += 1
    basis = np.asarray(futils.get_fock_space_basis(d, cutoff)).astype(np.int64)
    size = sum(math.comb(d, k) for k in range(cutoff))
    if basis.shape != (size, d):
        ctx.viol("fermionic-basis-shape", "fermionic basis(%d,%d).shape=%s expected %s" % (d, cutoff, basis.shape, (size, d)), case)
        return
    if int(futils.get_cutoff_fock_space_dimension(d, cutoff)) != size:
        ctx.viol("fermionic-dimension", "get_cutoff_fock_space_dimension(%d,%d) wrong" % (d, cutoff), case)
    dims = futils.cutoff_fock_space_dim_array(np.array([cutoff, 1], dtype=np.int64), d)
    if int(dims[0]) != size or int(dims[1]) != 1:
        ctx.viol("fermionic-dimension", "fermionic cutoff_fock_space_dim_array wrong", case)
    if ((basis != 0) & (basis != 1)).any():
        ctx.viol("fermionic-occupation", "fermionic basis has an occupation other than 0/1", case)
    tot = basis.sum(axis=1)
    for i in range(size - 1):
        if tot[i + 1] < tot[i] or (tot[i + 1] == tot[i] and not tuple(basis[i]) > tuple(basis[i + 1])):
            ctx.viol("fermionic-basis-order", "fermionic basis d=%d: rows %d,%d out of order %s %s" % (d, i, i + 1, basis[i], basis[i + 1]), case)
            break
    offs = 0
    sector_start = {}
    for k in range(cutoff):
        sector_start[k] = offs
        offs += math.comb(d, k)
    for i in range(size):
        ctx.c["fermionic_rows_checked"] += 1
        row = basis[i]
        gi = int(futils.get_fock_space_index(row))
        gs = int(futils.get_fock_subspace_index(row))
        if gi != i or gs != i - sector_start[int(tot[i])]:
            ctx.viol("fermionic-index", "fermionic index(%s)=%d sub=%d expected %d/%d" % (row, gi, gs, i, i - sector_start[int(tot[i])]), case)
            break
        fq = np.nonzero(row)[0].astype(np.int64)
        if int(futils.get_fock_subspace_index_first_quantized(fq, d)) != i - sector_start[int(tot[i])]:
            ctx.viol("fermionic-index", "get_fock_subspace_index_first_quantized(%s) wrong" % fq, case)
            break
        if i + 1 < size:
            nx = np.asarray(futils.next_first_quantized(fq.copy(), d))
            exp = np.nonzero(basis[i + 1])[0]
            if nx.tolist() != exp.tolist():
                ctx.viol("fermionic-successor", "next_first_quantized(%s)=%s expected %s" % (fq, nx, exp), case)
                break
    if cutoff == d + 1:
        b2f = np.asarray(futils.binary_to_fock_indices(d))
        pw = 2 ** (d - 1 - np.arange(d))
        exp = (basis * pw).sum(axis=1)
        if b2f.tolist() != exp.tolist():
            ctx.viol("fermionic-binary-map", "binary_to_fock_indices(%d) wrong" % d, case)
        f2b = np.asarray(futils.fock_to_binary_indices(d))
        if f2b[b2f].tolist() != list(range(size)):
            ctx.viol("fermionic-binary-map", "fock_to_binary_indices(%d) is not the inverse" % d, case)
    if size >= 2:
        ctx.classes.add("fermionic:d%d:c%d" % (d, cutoff))
    if len(ctx.samples) < 4 and d == 3 and cutoff == 4:
        ctx.samples.append({"family": "fermionic", "d": d, "cutoff": cutoff, "basis": basis.tolist()})


def check_random_large(ctx, rng, indices, fock):
    d = int(rng.integers(1, 13))
    # choose a total so that the rank is close to, but below, 2^31
    lim = 2 ** 31 - 1
    hi = 1
    while math.comb(d + hi, d) <= lim and hi < 70000:
        hi *= 2
    lo_n, hi_n = 0, hi
    while lo_n < hi_n:  # largest n with C(d+n, d) <= lim  (all vectors of total n have rank < C(d+n,d))
        mid = (lo_n + hi_n + 1) // 2
        if math.comb(d + mid, d) <= lim:
            lo_n = mid
        else:
            hi_n = mid - 1
    nmax = lo_n
    n = int(nmax - rng.integers(0, 3)) if rng.random() < 0.6 else int(rng.integers(0, nmax + 1))
    n = max(n, 0)
    cuts = np.sort(rng.integers(0, n + 1, size=d - 1)) if d > 1 else np.array([], dtype=int)
    v = np.diff(np.concatenate([[0], cuts, [n]])).astype(np.int64)
    if rng.random() < 0.3:
        v = np.zeros(d, dtype=np.int64)
        v[int(rng.integers(0, d))] = n
    exp = full_rank(v)
    case = {"family": "random-large", "vector": v.tolist()}
    ctx.evals += 1
    if exp > lim:
        ctx.c["out_of_scope_rank"] += 1
        return
    ctx.c["random_large_vectors"] += 1
    ctx.c["max_rank_seen"] = max(ctx.c["max_rank_seen"], exp)
    got = int(indices.get_index_in_fock_space(v))
    if got != exp:
        ctx.viol("scalar-index-large", "get_index_in_fock_space(%s)=%d expected %d" % (v.tolist(), got, exp), case)
    got32 = int(indices.get_index_in_fock_space(v.astype(np.int32)))
    if got32 != exp:
        ctx.viol("scalar-index-large", "get_index_in_fock_space(int32 %s)=%d expected %d" % (v.tolist(), got32, exp), case)
    arr = indices.get_index_in_fock_space_array(np.stack([v, v[::-1].copy()]))
    exp2 = full_rank(v[::-1])
    if int(arr[0]) != exp or (exp2 <= lim and int(arr[1]) != exp2):
        ctx.viol("array-index-large", "get_index_in_fock_space_array(%s)=%s expected %d,%d" % (v.tolist(), np.asarray(arr).tolist(), exp, exp2), case)
    sub = int(indices.get_index_in_fock_subspace(v))
    if sub != sector_rank(v):
        ctx.viol("subspace-index-large", "get_index_in_fock_subspace(%s)=%d expected %d" % (v.tolist(), sub, sector_rank(v)), case)
    # dimension formulas at the same scale
    c = n + 1
    dim = math.comb(d + c - 1, d)
    if dim <= lim:
        ctx.c["dimension_calls"] += 2
        if int(fock.cutoff_fock_space_dim(cutoff=c, d=d)) != dim:
            ctx.viol("dimension-formula", "cutoff_fock_space_dim(cutoff=%d,d=%d) wrong" % (c, d), case)
        da = fock.cutoff_fock_space_dim_array(np.array([c, 1, 2]), d)
        if [int(t) for t in da] != [dim, 1, d + 1]:
            ctx.viol("dimension-formula", "cutoff_fock_space_dim_array([%d,1,2], %d)=%s" % (c, d, np.asarray(da).tolist()), case)
    ctx.classes.add("large:d%d:n~2^%d" % (d, int(math.log2(n + 1))))


def plan(tier, seed):
    if tier == "quick":
        dmax, cmax, fmax = 5, 7, 8
    else:
        dmax, cmax, fmax = 7, 9, 10
    specs = []
    pairs = [(d, c) for d in range(1, dmax + 1) for c in range(1, cmax + 1)]
    pairs.sort(key=lambda dc: -math.comb(dc[0] + dc[1] - 1, dc[0]))
    nsh = 12
    buckets = [[] for _ in range(nsh)]
    loads = [0] * nsh
    for dc in pairs:  # greedy balance
        i = loads.index(min(loads))
        buckets[i].append(dc)
        loads[i] += math.comb(dc[0] + dc[1] - 1, dc[0])
    for i, b in enumerate(buckets):
        specs.append({"name": "bosonic-%d" % i, "kind": "bosonic", "pairs": b, "shard": i})
    specs.append({"name": "fermionic", "kind": "fermionic", "dmax": fmax, "shard": 50})
    for i in range(3):
        specs.append({"name": "random-%d" % i, "kind": "random", "count": 1500 if tier == "quick" else 20000, "shard": 60 + i,
                      "dmax": dmax, "cmax": cmax})
    return specs


def run_shard(spec):
    from vf import boot

    pq = boot.import_piquasso()
    from piquasso._math import fock, indices, combinatorics
    from piquasso._simulators.fock import simulation_steps as fsteps
    from piquasso.fermionic import _utils as futils

    rng = np.random.default_rng([int(spec["seed"]), 6, int(spec["shard"])])
    ctx = Ctx()
    mods = (fock, indices, combinatorics)
    seen_pairs = set()
    if spec["kind"] == "bosonic":
        for d, c in spec["pairs"]:
            check_bosonic_pair(ctx, d, c, mods)
            seen_pairs.add((d, c))
            for _ in range(3):
                check_projection(ctx, rng, d, c, fock, fsteps)
            if math.comb(d + c - 1, d) <= 3000:
                check_getitem(ctx, rng, pq, d, c)
            for n in range(min(c, 5)):
                check_bounded_partitions(ctx, rng, d, n, combinatorics)
        # edge cases of partitions
        for boxes, particles in [(1, 0), (1, 5), (2, 0), (0, 0), (3, 1)]:
            p = np.asarray(combinatorics.partitions(boxes, particles))
            if boxes == 0:
                continue
            exp = [list(v) for v in sorted([v for v in itertools.product(range(particles + 1), repeat=boxes) if sum(v) == particles], reverse=True)]
            if p.tolist() != exp:
                ctx.viol("partitions", "partitions(%d,%d)=%s" % (boxes, particles, p.tolist()), {"family": "partitions", "boxes": boxes, "particles": particles})
    elif spec["kind"] == "fermionic":
        for d in range(1, int(spec["dmax"]) + 1):
            for cutoff in range(1, d + 2):
                check_fermionic(ctx, d, cutoff, futils)
    else:
        for i in range(int(spec["count"])):
            check_random_large(ctx, rng, indices, fock)
            if i % 10 == 0:
                d = int(rng.integers(1, spec["dmax"] + 1))
                c = int(rng.integers(1, spec["cmax"] + 1))
                if math.comb(d + c - 1, d) <= 3000:
                    check_projection(ctx, rng, d, c, fock, fsteps)
                    seen_pairs.add((d, c))
                    if i % 50 == 0:
                        check_getitem(ctx, rng, pq, d, c)
    # quiescent point: cached basis arrays must still be what a fresh enumeration gives
    for d, c in sorted(seen_pairs):
        ctx.c["cache_rechecks"] += 1
        if not np.array_equal(fock.get_fock_space_basis(d, c), fock.nb_get_fock_space_basis(d, c)):
            ctx.viol("cached-basis-corrupted", "cached get_fock_space_basis(%d,%d) was modified in place during the run" % (d, c),
                     {"family": "cache", "d": d, "cutoff": c})
    if spec["kind"] == "fermionic":
        ctx.c["cache_rechecks"] += 1  # fermionic basis is not cached; counted so that REQUIRED is per-run
    return {"evaluations": ctx.evals, "classes": sorted(ctx.classes), "violations": ctx.violations,
            "counters": ctx.c, "samples": ctx.samples, "observations": sorted(ctx.obs)}


def replay(case):
    from vf import boot

    pq = boot.import_piquasso()
    from piquasso._math import fock, indices, combinatorics
    from piquasso._simulators.fock import simulation_steps as fsteps
    from piquasso.fermionic import _utils as futils

    ctx = Ctx()
    rng = np.random.default_rng(0)
    fam = case.get("family")
    if fam == "bosonic":
        check_bosonic_pair(ctx, case["d"], case["cutoff"], (fock, indices, combinatorics))
    elif fam == "fermionic":
        check_fermionic(ctx, case["d"], case["cutoff"], futils)
    elif fam == "random-large":
        v = np.array(case["vector"], dtype=np.int64)
        if int(indices.get_index_in_fock_space(v)) != full_rank(v):
            ctx.viol("scalar-index-large", "index(%s) wrong" % v.tolist(), case)
        arr = indices.get_index_in_fock_space_array(np.stack([v, v]))
        if int(arr[0]) != full_rank(v):
            ctx.viol("array-index-large", "array index(%s) wrong" % v.tolist(), case)
    elif fam == "projection":
        got = fsteps.get_projection_operator_indices(case["d"], case["cutoff"], tuple(case["modes"]), np.array(case["vector"]))
        basis = np.asarray(fock.get_fock_space_basis(case["d"], case["cutoff"])).astype(np.int64)
        exp = [i for i, row in enumerate(basis) if all(row[m] == a for m, a in zip(case["modes"], case["vector"]))]
        if np.asarray(got).tolist() != exp:
            ctx.viol("projection-indices", "projection indices wrong", case)
    else:
        for _ in range(20):
            if fam == "getitem":
                check_getitem(ctx, rng, pq, case["d"], case["cutoff"])
            elif fam == "partitions_bounded_k":
                check_bounded_partitions(ctx, rng, case["d"], case["n"], combinatorics)
    return ctx.violations
