"""C19 - dual-rail translation preserves qubit-circuit statistics.

Workload: random Qiskit circuits (rebuilt from a JSON circuit document) on 1-3 qubits with up
to 8 gates from h,x,y,z,rx,ry,rz,u,p,cz,cx, mid-circuit and terminal measurements, `if_test`
blocks on earlier classical bits.
Monitor : dual_rail_encode_from_qiskit -> PureFockSimulator.execute(shots=None); the exact
branch map is restricted to the dual-rail code space (every measured rail pair holds exactly
one photon; the ancilla pattern [1,1] of each CZ is imposed by the program's own
PostSelectPhotons), renormalised, decoded (own decoder + get_bosonic_qubit_samples) and
compared with the independent state-vector model vf/refs/qubit.py.

Tolerances (derivation)
-----------------------
Let s^2 = 2/27 be the success probability of Knill's heralded CZ.  The encoder writes the
four beamsplitter angles of a CZ block as 54.74, 54.74, -54.74 and 17.63 degrees; the exact
ones are T1 = arccos(1/sqrt 3) = 54.735610..., T2 = arccos(sqrt((3+sqrt 6)/6)) = 17.632194...
degrees, i.e. eps1 = 7.66e-5 rad, eps2 = 3.83e-5 rad (both below the 0.005 degree rounding
unit of a two-decimal value).  Two comparisons are made for a circuit with k entangling gates:

(A) *exact-angle variant*: the emitted program with those four angles of each CZ block
    replaced by T1/-T1/T2 (only when the emitted value is within 0.005 degrees of the exact
    one; everything else is left untouched).  With exact angles the KLM gate is exact, so the
    only error left is floating point: tolerance 1e-9 on unnormalised probabilities, i.e.
    1e-9 * (27/2)^k after renormalisation by the success probability (k = 0: 1e-9; this is
    4.5e6 * eps(float64), >= 1e3 * eps * (number of 2x2 rotations <= 60) with margin).
    The relative error of the success probability S / (2/27)^k' - 1 has the same tolerance, where
    S is the code-space mass of the branch map and k' counts the entangling gates *before the
    last measurement* (PostSelectPhotons leaves the state unnormalised and the next measurement
    folds that norm into the branch frequency; a herald after the last measurement is invisible).
(B) *the program as emitted*: a beamsplitter whose angle is off by eps changes the n-photon
    unitary by at most n * eps in operator norm (the generator theta * i(a^dag b - a b^dag) has
    spectrum {-n..n}).  Every other step (gate, herald projection, measurement isometry,
    restriction to the code space) is a contraction, so by telescoping the unnormalised final
    vector satisfies |Psi - Psi_exact| <= Delta := sum_j s^(j-1) (N - 2(j-1)) E_j, where E_j is
    the sum of the four angle errors of block j, N the photon number and s^(j-1) the norm of
    the exact state entering block j.  With eta = Delta / s^k: the normalised vectors differ
    by <= 2 eta, every record probability (indeed their L1 sum) by <= 4 eta, and
    |S / s^(2k) - 1| <= 2 eta + eta^2.  Numbers: k=1, N=4: 4 eta = 1.6e-2;  k=2, N=7: 0.12;
    k=3, N=8: 0.53.  This bound is rigorous but loose (observed deviations are ~3e-5 per CZ,
    recorded as max_dev_emitted); the sharp sensitivity comes from (A).
Both add the mass of records that `execute(shots=None)` drops by design: a measurement
outcome is filtered out when its (unnormalised) probability is np.isclose to 0 (<= 1e-8); a
reference record whose smallest step probability times (2/27)^(entangling gates since the
previous measurement) is <= 1e-8 may therefore be absent.

Conditional-block shapes: 10 % of the circuits use a shape of `if_test` beyond "one block, one
qubit, clbit index == position of the measurement" (permuted clbits, a body on two qubits, an
else body).  A failing case of that kind is re-run as the equivalent circuit in the plain shape
(one single-gate block per body gate, else body as a block on the complementary value, clbits
renumbered); if that passes, the violation gets the mechanism key of the shape, otherwise it is
shrunk (remove one op at a time, <= 30 runs) and keyed by symptom + gate names of the smallest
failing circuit.  VERIF_C19_NO_EXOTIC=1 leaves those shapes out (mutation self-test aid).

Finite shots (a sample of cases, shots=2000) only check support: without entangling gates one
sample outside the reference support is a violation; with entangling gates the angle rounding
gives outcomes of exact probability p_out ~ 1e-9 outside the support, so the count must stay
below the 1e-10 quantile of Binomial(shots, p_out + 1e-6).
"""

import copy
import json
import math
import os
import time

import numpy as np

ID = "C19"
LEVEL = "exploration"
TECHNIQUE = ("runtime monitoring: differential oracle - the emitted photonic program is executed exactly "
             "(shots=None), post-selected on the dual-rail code space and compared with an independent qubit "
             "state-vector model; metamorphic exact-angle variant of every KLM CZ block")
DESIGN_REF = "DESIGN.md §4 C19"
LEVEL_TEXT = (
    "Random circuits (1-3 qubits, <=8 gates from h,x,y,z,rx,ry,rz,u,p,cz,cx, angle mixture incl. 0, +-pi/2, +-pi, "
    "pi/4, 1e-12, uniform; mid-circuit and terminal measurements; if_test blocks on earlier bits; <=2 entangling "
    "gates quick, <=3 thorough) are encoded by the real encoder and executed on the real PureFockSimulator; every "
    "record probability and the heralding success probability are compared with the reference. Held = no "
    "disagreement on the circuits generated."
)
LEVEL_NOTE = (
    "Trusts vf/refs/qubit.py (cross-checked against qiskit.quantum_info on every case, never used as oracle) and "
    "that Knill's CZ with exact angles is exact; circuits that touch a qubit after its measurement, measurements "
    "inside conditional blocks, entangling gates inside conditional blocks, register-valued conditions, 3 qubits "
    "with 3 entangling gates (1.4 TB dense creation operator) and 3 qubits with 2 entangling gates preceded by a "
    "measurement (6 GB density matrix) are not generated; the rigorous tolerance for emitted angles is loose "
    "(1.6e-2 .. 0.53), the sharp comparison runs on the exact-angle variant of the emitted program."
)
RULE = (
    "cases = one per generated circuit document (plus its exact-angle variant and, for a sample, a 2000-shot run); "
    "distinct_nontrivial = number of distinct structural classes (qubits, entangling gates, sorted gate multiset, "
    "mid-measure / if_test / exotic flags) among circuits whose record distribution reached the comparison with "
    "the reference."
)
ASSUMPTIONS = [
    "vf/refs/qubit.py implements Qiskit's gate conventions (validated against qiskit.quantum_info.Operator/Statevector; Qiskit is not the oracle)",
    "Knill's heralded CZ with exact angles arccos(1/sqrt3), arccos(sqrt((3+sqrt6)/6)) acts as CZ with success probability 2/27 for every input",
    "the k-th measured rail pair of a branch outcome belongs to the k-th measure instruction of the circuit",
]
REQUIRED = ["comparisons", "records_compared", "circuits_with_entangling", "circuits_with_mid_measure",
            "circuits_with_if_test", "exact_angle_comparisons", "finite_shot_samples_checked", "reference_crosschecks",
            "success_probability_checks", "decoder_crosschecks"]
WATCHDOG = {"quick": 900, "thorough": 3000}

T1 = math.acos(1.0 / math.sqrt(3.0))
T2 = math.acos(math.sqrt((3.0 + math.sqrt(6.0)) / 6.0))
ROUND_UNIT = math.radians(0.005) * (1 + 1e-9)   # half a unit of the second decimal in degrees
S2 = 2.0 / 27.0
TOL0 = 1e-9
ISCLOSE_ATOL = 1e-8                              # np.isclose(p, 0.0) in sample_from_probability_map
SHOTS = 2000
MAX_DIM = {"quick": 5000, "thorough": 50000}    # Fock-space dimension (Create builds a dense dim x dim operator)
MAX_MEASURE_DIM = 3500                           # dense density matrix at a measurement: 3500^2 * 16 B = 196 MB
BIG_DIM = 5000                                   # cases above this dimension are rationed per shard

ONE_Q = ("h", "x", "y", "z", "rx", "ry", "rz", "u", "p")
NPAR = {"h": 0, "x": 0, "y": 0, "z": 0, "rx": 1, "ry": 1, "rz": 1, "u": 3, "p": 1}
SELFTEST_MODE = {"on": False}   # VERIF_C19_NO_EXOTIC=1: leave out the findings of the unchanged tree (mutation self-test aid)
EXOTIC = ("clbit-permuted", "multi-qubit-body", "else-body")
EXOTIC_KEY = {
    "clbit-permuted": "if_test-clbit-index-used-as-measurement-position",
    "multi-qubit-body": "if_test-body-on-several-qubits-mapped-to-first-qubit",
    "else-body": "if_test-else-body-dropped",
}


# ------------------------------------------------------------------ generator
def gen_angle(rng):
    r = rng.random()
    if r < 0.07:
        return 0.0
    if r < 0.22:
        return float(rng.choice([-1, 1])) * math.pi / 2
    if r < 0.36:
        return float(rng.choice([-1, 1])) * math.pi
    if r < 0.44:
        return math.pi / 4
    if r < 0.50:
        return 1e-12
    return float(rng.uniform(-2 * math.pi, 2 * math.pi))


def gen_1q(rng, q):
    g = ONE_Q[int(rng.integers(0, len(ONE_Q)))]
    op = {"g": g, "q": [int(q)]}
    if NPAR[g]:
        op["p"] = [gen_angle(rng) for _ in range(NPAR[g])]
    return op


def fock_dim(d, c):
    return math.comb(d + c - 1, d)


def gen_case(rng, tier, allow_exotic=True, feasible=True, force_k=None):
    """One case document. Qubits are never touched after their measurement (the photonic
    measurement consumes the rail pair); conditions refer to bits written earlier."""
    exotic = None
    if allow_exotic and rng.random() < 0.10:
        exotic = EXOTIC[int(rng.integers(0, len(EXOTIC)))]
    nq = int(rng.choice([1, 2, 3], p=[0.15, 0.45, 0.40]))
    if exotic and nq == 1:
        nq = 2
    if exotic == "multi-qubit-body":
        nq = 3
    kmax = 2 if tier == "quick" else 3
    if nq == 1:
        k = 0
    else:
        pk = {2: [0.40, 0.35, 0.25], 3: [0.34, 0.30, 0.22, 0.14]}[kmax]
        k = int(rng.choice(len(pk), p=pk))
    if force_k is not None:
        k = force_k if nq > 1 else 0
    if nq == 3 and k == 3 and feasible:
        k = 2
    ngates = int(rng.integers(max(1, k), 9))
    want_mid = nq >= 2 and (rng.random() < 0.5 or exotic is not None)
    mid_pos = []
    if want_mid:
        n_mid = int(rng.integers(1, nq))
        hi = max(1, ngates // 2) if exotic else ngates
        mid_pos = sorted(int(x) for x in rng.integers(0, hi, size=n_mid))
    want_if = bool(mid_pos) and (rng.random() < 0.8 or exotic is not None)
    ops = []
    alive = list(range(nq))
    written = []          # clbits written so far (clbit == measurement position)
    ent_left = k
    nmeas = 0
    slot = 0
    while slot < ngates and alive:
        while mid_pos and mid_pos[0] <= slot and len(alive) >= 2:
            if ent_left > 0 and len(alive) == 2:
                break     # keep two rail pairs for the entangling gates still to come
            mid_pos.pop(0)
            q = alive[int(rng.integers(0, len(alive)))]
            ops.append({"g": "measure", "q": [int(q)], "c": nmeas})
            written.append(nmeas)
            nmeas += 1
            alive.remove(q)
        left = ngates - slot
        r = rng.random()
        if ent_left > 0 and len(alive) >= 2 and (r < 0.35 or ent_left >= left):
            a, b = [int(x) for x in rng.permutation(alive)[:2]]
            ops.append({"g": "cz" if rng.random() < 0.5 else "cx", "q": [a, b]})
            ent_left -= 1
            slot += 1
            continue
        if written and want_if and rng.random() < 0.5:
            room = left - (ent_left if len(alive) >= 2 else 0)
            nb = int(min(room, rng.integers(1, 4)))
            if exotic == "multi-qubit-body" and room >= 2:
                nb = max(nb, 2)
            ne = 1 if (exotic == "else-body" and room - nb >= 1) else 0
            if nb >= 1:
                c = written[int(rng.integers(0, len(written)))]
                v = int(rng.integers(0, 2))
                if exotic == "multi-qubit-body" and len(alive) >= 2 and nb >= 2:
                    qs = [alive[int(rng.integers(0, len(alive)))] for _ in range(nb)]
                    if len(set(qs)) == 1:
                        qs[-1] = [a for a in alive if a != qs[0]][0]
                else:
                    qs = [alive[int(rng.integers(0, len(alive)))]] * nb
                op = {"g": "if", "c": int(c), "v": v, "body": [gen_1q(rng, q) for q in qs]}
                if ne:
                    op["else"] = [gen_1q(rng, qs[0])]
                ops.append(op)
                slot += nb + ne
                continue
        q = alive[int(rng.integers(0, len(alive)))]
        ops.append(gen_1q(rng, q))
        slot += 1
    # terminal measurements
    order = [int(x) for x in rng.permutation(alive)]
    for q in order:
        if rng.random() < 0.92 or nmeas == 0:
            ops.append({"g": "measure", "q": [q], "c": nmeas})
            nmeas += 1
    doc = {"nq": nq, "ncl": max(nmeas, 1), "ops": ops}
    if exotic == "clbit-permuted" and nmeas >= 2:
        perm = [int(x) for x in rng.permutation(nmeas)]
        if perm == sorted(perm):
            perm = perm[1:] + perm[:1]
        for op in ops:
            if op["g"] in ("measure", "if"):
                op["c"] = perm[op["c"]]
    case = {"circuit": doc, "cutoff_extra": 0, "shots": 0}
    d, N, c = layout(doc, 0)
    if d <= 6 and rng.random() < 0.5:
        extra = int(rng.integers(1, 3))
        if fock_dim(d, c + extra) <= 3000:
            case["cutoff_extra"] = extra
    return case


def features(doc):
    ops = doc["ops"]
    k = sum(1 for o in ops if o["g"] in ("cz", "cx"))
    meas_idx = [i for i, o in enumerate(ops) if o["g"] == "measure"]
    gate_idx = [i for i, o in enumerate(ops) if o["g"] != "measure"]
    mid = bool(meas_idx and gate_idx and min(meas_idx) < max(gate_idx))
    ifs = [o for o in ops if o["g"] == "if"]
    ex = set()
    pos = 0
    aligned = True
    for o in ops:
        if o["g"] == "measure":
            if o["c"] != pos:
                aligned = False
            pos += 1
    if ifs and not aligned:
        ex.add("clbit-permuted")
    for o in ifs:
        if len({b["q"][0] for b in o["body"]}) > 1:
            ex.add("multi-qubit-body")
        if o.get("else"):
            ex.add("else-body")
    names = []
    for o in ops:
        if o["g"] == "if":
            names.extend("if:" + b["g"] for b in o["body"])
            names.extend("else:" + b["g"] for b in o.get("else") or [])
        elif o["g"] != "measure":
            names.append(o["g"])
    return {"nq": doc["nq"], "k": k, "mid": mid, "if": bool(ifs), "n_if": len(ifs), "exotic": sorted(ex),
            "names": names, "n_meas": len(meas_idx), "aligned": aligned}


def class_key(doc, f=None):
    f = f or features(doc)
    return "q%d:k%d:%s:%s%s%s" % (f["nq"], f["k"], ",".join(sorted(f["names"])), "M" if f["mid"] else "",
                                   "I" if f["if"] else "", ("X" + "+".join(f["exotic"])) if f["exotic"] else "")


def layout(doc, extra):
    """(modes, photons, cutoff) of the documented layout: 2 modes + 1 photon per qubit, 2 ancilla
    modes + 2 photons per top-level entangling gate; cutoff = photons+1, raised so that the
    branch cutoff stays >= 3 at every gate after mid-circuit measurements (each detects one
    photon and lowers the cutoff by one; passive gates at cutoff <= 2 are C01/C13's finding)."""
    ops = doc["ops"]
    k = sum(1 for o in ops if o["g"] in ("cz", "cx"))
    d = 2 * doc["nq"] + 2 * k
    N = doc["nq"] + 2 * k
    m = 0
    mg = 0
    for o in ops:
        if o["g"] == "measure":
            m += 1
        else:
            mg = m
    return d, N, max(N + 1, mg + 3) + int(extra)


def resources(doc, extra):
    """(dimension at Create, largest dimension at a measurement). Create builds a dense
    dim x dim operator (virtual memory only: untouched zero pages) and every measurement a dense
    dim x dim density matrix (real memory), so both are capped by the generator."""
    d, N, c = layout(doc, extra)
    dd, cc, worst = d, c, 0
    for o in doc["ops"]:
        if o["g"] in ("cz", "cx"):
            dd -= 2
        elif o["g"] == "measure":
            worst = max(worst, fock_dim(dd, cc))
            dd -= 2
            cc -= 1
    return fock_dim(d, c), worst


def affordable(doc, extra, tier):
    a, b = resources(doc, extra)
    return a <= MAX_DIM[tier if tier in MAX_DIM else "thorough"] and b <= MAX_MEASURE_DIM


def realign(doc):
    """Equivalent document in the shape the encoder supports: clbit == measurement position,
    one conditional block per body gate, else-body as a block on the complementary value."""
    ops = []
    writer_pos = {}
    pos = 0
    for o in doc["ops"]:
        if o["g"] == "measure":
            writer_pos[o["c"]] = pos
            ops.append({"g": "measure", "q": list(o["q"]), "c": pos})
            pos += 1
        elif o["g"] == "if":
            if o["c"] not in writer_pos:
                return None
            c = writer_pos[o["c"]]
            for b in o["body"]:
                ops.append({"g": "if", "c": c, "v": o["v"], "body": [copy.deepcopy(b)]})
            for b in o.get("else") or []:
                ops.append({"g": "if", "c": c, "v": 1 - o["v"], "body": [copy.deepcopy(b)]})
        else:
            ops.append(copy.deepcopy(o))
    return {"nq": doc["nq"], "ncl": max(pos, 1), "ops": ops}


def valid(doc):
    alive = set(range(doc["nq"]))
    written = set()
    nmeas = 0
    for o in doc["ops"]:
        if o["g"] == "measure":
            if o["q"][0] not in alive:
                return False
            alive.discard(o["q"][0])
            written.add(o["c"])
            nmeas += 1
        elif o["g"] == "if":
            if o["c"] not in written or not o["body"]:
                return False
            for b in o["body"] + (o.get("else") or []):
                if b["q"][0] not in alive:
                    return False
        else:
            if any(q not in alive for q in o["q"]):
                return False
    return nmeas >= 1


# ------------------------------------------------------------------ photonic side
def decode_pair(a, b):
    """Documented encoding: |0> = |1,0>, |1> = |0,1>; anything else is outside the code space."""
    if (a, b) == (1, 0):
        return 0
    if (a, b) == (0, 1):
        return 1
    return None


class Phot:
    pass


def exact_angle_program(pq, prog):
    """Copy of the emitted program with the four beamsplitter angles of every CZ block (the four
    instructions before a PostSelectPhotons) replaced by the exact KLM values when the emitted
    value is a two-decimal rounding of them. Returns (program, per-block angle errors, notes)."""
    ins = list(prog.instructions)
    new = list(ins)
    blocks = []
    notes = []
    for j, inst in enumerate(ins):
        if not isinstance(inst, pq.PostSelectPhotons):
            continue
        errs = []
        bs = ins[max(0, j - 4):j]
        if len(bs) != 4 or not all(isinstance(b, pq.Beamsplitter) and not getattr(b, "_condition", None) for b in bs):
            notes.append("cz-block-shape-unrecognised")
            blocks.append(None)
            continue
        ok = True
        for off, b in enumerate(bs):
            th = float(b.params["theta"])
            best = min((T1, -T1, T2, -T2), key=lambda e: abs(th - e))
            if abs(th - best) <= ROUND_UNIT:
                errs.append(abs(th - best))
                new[j - 4 + off] = pq.Beamsplitter(theta=best, phi=b.params["phi"]).on_modes(*b.modes)
            else:
                ok = False
                notes.append("cz-angle-not-a-rounded-klm-angle")
        blocks.append(errs if ok else None)
    return pq.Program(instructions=new), blocks, notes


def tolerance_emitted(blocks, N):
    """4*eta and 2*eta+eta^2 of the module docstring; None when a block was not recognised."""
    if any(b is None for b in blocks):
        return None, None
    k = len(blocks)
    s = math.sqrt(S2)
    delta = 0.0
    for j, errs in enumerate(blocks):
        delta += s ** j * max(N - 2 * j, 0) * sum(errs)
    eta = delta / s ** k
    return 4 * eta, 2 * eta + eta * eta


def run_program(pq, prog, d, cutoff, shots=None, seed=None):
    ph = Phot()
    ph.error = None
    ph.map = {}
    try:
        cfg = pq.Config(cutoff=cutoff) if seed is None else pq.Config(cutoff=cutoff, seed_sequence=seed)
        sim = pq.PureFockSimulator(d=d, config=cfg)
        res = sim.execute(prog, shots=shots)
        for b in res.branches:
            key = tuple(int(v) for v in b.outcome)
            ph.map[key] = ph.map.get(key, 0.0) + float(b.frequency)
    except MemoryError as e:
        ph.error = ("resource", "MemoryError: %s" % e)
    except Exception as e:  # the call under test
        root = e
        while root.__cause__ is not None:
            root = root.__cause__
        cause = "" if root is e else " [root cause %s: %s]" % (type(root).__name__, str(root)[:160])
        ph.error = ("execute-raises:%s" % type(e).__name__, "%s%s: %s" % (type(e).__name__, cause, str(e)[:300]))
    return ph


def split_code_space(pq_dre, bmap, n_meas, ctx):
    """records -> unnormalised probability, leak mass, malformed outcomes."""
    code = {}
    leak = 0.0
    bad = []
    for out, fr in bmap.items():
        if len(out) != 2 * n_meas:
            bad.append(out)
            continue
        rec = tuple(decode_pair(out[2 * i], out[2 * i + 1]) for i in range(n_meas))
        if any(r is None for r in rec):
            leak += fr
            try:
                pq_dre.get_bosonic_qubit_samples([out])
                ctx.decoder_disagree.append((out, "accepted an outcome outside the code space"))
            except ValueError:
                pass
            ctx.c["decoder_crosschecks"] += 1
            continue
        try:
            got = pq_dre.get_bosonic_qubit_samples([out])
        except Exception as e:  # the call under test
            got = "raised %s: %s" % (type(e).__name__, e)
        ctx.c["decoder_crosschecks"] += 1
        if got != [rec]:
            ctx.decoder_disagree.append((out, "decoded to %r, documented encoding gives %r" % (got, rec)))
        code[rec] = code.get(rec, 0.0) + fr
    return code, leak, bad


def drop_metric(br):
    return min((pc * S2 ** ent for pc, ent in br.steps), default=1.0)


def compare(ref_branches, code, k, tol_p, tol_s, slack):
    """Returns dict(dev, dev_s, allowance, problems[list of (kind, message)]).
    k = number of entangling gates *before the last measurement*: PostSelectPhotons leaves the
    state unnormalised and the next measurement folds that norm into the branch frequency, so
    only those heralds show up in the code-space mass."""
    S = sum(code.values())
    out = {"S": S, "problems": [], "dev": 0.0, "dev_s": 0.0, "allow": 0.0, "n": 0}
    if S <= 0.0:
        out["problems"].append(("no-code-space-branch", "no branch of the exact branch map lies in the code space"))
        return out
    ref = {}
    allow = 0.0
    for b in ref_branches:
        ref[b.record] = ref.get(b.record, 0.0) + b.prob
        if b.record not in code and drop_metric(b) <= ISCLOSE_ATOL * (1 + slack):
            allow += b.prob
    out["allow"] = allow
    worst = (0.0, None)
    for rec in set(ref) | set(code):
        p = code.get(rec, 0.0) / S
        r = ref.get(rec, 0.0)
        out["n"] += 1
        dv = abs(p - r)
        if rec not in code and r <= allow:
            continue
        if dv > worst[0]:
            worst = (dv, (rec, p, r))
    out["dev"] = worst[0]
    if worst[0] > tol_p + allow:
        rec, p, r = worst[1]
        out["problems"].append(("distribution-mismatch", "record %r: photonic %.12g, qubit reference %.12g (|diff| %.3e > tol %.3e)"
                                % (rec, p, r, worst[0], tol_p + allow)))
    rel = abs(S / S2 ** k - 1.0)
    out["dev_s"] = rel
    if rel > tol_s + allow:
        out["problems"].append(("success-probability", "code-space mass %.12g vs (2/27)^%d = %.12g (relative %.3e > tol %.3e)"
                                % (S, k, S2 ** k, rel, tol_s + allow)))
    return out


class Ctx:
    def __init__(self):
        self.violations = []
        self.obs = set()
        self.c = {k: 0 for k in REQUIRED}
        self.c.update({"circuits": 0, "encode_calls": 0, "execute_calls": 0, "emitted_angle_comparisons": 0,
                       "finite_shot_runs": 0, "if_test_effective_cases": 0, "cases_with_record_below_branch_filter": 0,
                       "comparisons_failed": 0, "unshrunk_failures": 0, "shrunk_failures": 0, "big_cases_rationed": 0, "cases_skipped_by_pacing": 0,
                       "resource_skips": 0, "exotic_cases": 0, "shrink_runs": 0, "cz_blocks_recognised": 0,
                       "max_dev_exact_over_tol": 0.0, "max_dev_emitted_over_tol": 0.0, "max_dev_exact": 0.0,
                       "max_dev_emitted": 0.0, "max_success_dev_exact": 0.0, "max_success_dev_emitted": 0.0,
                       "max_leak_fraction": 0.0, "max_fock_dim": 0, "max_crosscheck_diff": 0.0,
                       "max_tol_emitted": 0.0})
        self.by_qubits = {}
        self.by_ent = {}
        self.by_gate = {}
        self.by_cutoff = {}
        self.classes = set()
        self.samples = []
        self.evals = 0
        self.decoder_disagree = []
        self.worst_emitted = (0.0, None)

    def viol(self, mech, msg, case):
        if len(self.violations) < 60:
            self.violations.append({"mechanism": mech, "message": msg, "case": case})


def note(ctx, which, cmp, tol_p, tol_s, clean=True):
    """Counters of one comparison; the max_* deviations are taken over cases without any problem."""
    ctx.c["comparisons"] += 1
    ctx.c["records_compared"] += cmp["n"]
    ctx.c["success_probability_checks"] += 1
    ctx.c["%s_angle_comparisons" % which] += 1
    if cmp["allow"] > 0:
        ctx.c["cases_with_record_below_branch_filter"] += 1
    if cmp["problems"]:
        ctx.c["comparisons_failed"] += 1
    if cmp["problems"] or not clean:
        return
    ctx.c["max_dev_%s" % which] = max(ctx.c["max_dev_%s" % which], cmp["dev"])
    ctx.c["max_success_dev_%s" % which] = max(ctx.c["max_success_dev_%s" % which], cmp["dev_s"])
    # the mass of records dropped by the simulator's branch filter (allow) explains itself; the ratio is on the rest
    ctx.c["max_dev_%s_over_tol" % which] = max(ctx.c["max_dev_%s_over_tol" % which], max(cmp["dev"] - cmp["allow"], 0.0) / tol_p,
                                               max(cmp["dev_s"] - cmp["allow"], 0.0) / tol_s)


def evaluate(pq, ctx, case, tier="quick", count=True):
    """Run one case through encoder + simulator and compare with the reference.
    Returns list of (kind, message); kinds are symptom names (no random values)."""
    from vf.refs import qubit as Q
    import piquasso.dual_rail_encoding as dre

    doc = case["circuit"]
    f = features(doc)
    k = f["k"]
    problems = []
    d, N, cutoff = layout(doc, case.get("cutoff_extra", 0))
    dim = fock_dim(d, cutoff)
    if not affordable(doc, case.get("cutoff_extra", 0), tier):
        ctx.c["resource_skips"] += 1
        return [("skipped", "fock dimension %d" % dim)]
    ref = Q.branches(doc)
    if count:
        w = Q.crosscheck(doc)   # harness self-validation; AssertionError = harness bug (crashes the shard)
        if w is not None:
            ctx.c["reference_crosschecks"] += 1
            ctx.c["max_crosscheck_diff"] = max(ctx.c["max_crosscheck_diff"], w)
    qc = Q.to_qiskit(doc)
    ctx.c["encode_calls"] += 1
    try:
        prog = dre.dual_rail_encode_from_qiskit(qc)
    except Exception as e:
        return [("encode-raises:%s" % type(e).__name__, "dual_rail_encode_from_qiskit raised %s: %s" % (type(e).__name__, str(e)[:300]))]
    # observed layout
    modes = [m for i in prog.instructions for m in i.modes]
    d_obs = (max(modes) + 1) if modes else d
    n_obs = sum(len(i.modes) for i in prog.instructions if isinstance(i, pq.Create))
    if (d_obs, n_obs) != (d, N):
        ctx.obs.add("emitted layout (modes=%d, photons=%d) differs from the documented 2q+2k / q+2k (%d, %d)" % (d_obs, n_obs, d, N))
        d, N = max(d, d_obs), n_obs
        cutoff = max(cutoff, N + 1)
    n_post = sum(1 for i in prog.instructions if isinstance(i, pq.PostSelectPhotons))
    n_meas = f["n_meas"]
    last_meas = max(i for i, o in enumerate(doc["ops"]) if o["g"] == "measure")
    k_seen = sum(1 for o in doc["ops"][:last_meas] if o["g"] in ("cz", "cx"))   # heralds folded into frequencies
    ctx.c["max_fock_dim"] = max(ctx.c["max_fock_dim"], dim)

    # ---- (B) the program as emitted
    ctx.c["execute_calls"] += 1
    ph = run_program(pq, prog, d, cutoff)
    if ph.error:
        if ph.error[0] == "resource":
            ctx.c["resource_skips"] += 1
            ctx.obs.add("MemoryError at fock dimension %d (dense creation operator): case skipped" % dim)
            return [("skipped", ph.error[1])]
        if k == 0:
            return [ph.error]
        problems.append((ph.error[0] + "[emitted-angles]", ph.error[1]))
    code, leak, bad = split_code_space(dre, ph.map, n_meas, ctx)
    if bad:
        problems.append(("outcome-length", "branch outcome %r does not have 2 entries per measure instruction (%d)" % (bad[0], n_meas)))
    tot = sum(ph.map.values())
    if tot > 0:
        ctx.c["max_leak_fraction"] = max(ctx.c["max_leak_fraction"], leak / tot)
    if k == 0:
        exact_prog, blocks, notes = prog, [], []
        tol_p, tol_s = TOL0, TOL0
    else:
        exact_prog, blocks, notes = exact_angle_program(pq, prog)
        tol_p, tol_s = tolerance_emitted(blocks, N)
        ctx.c["cz_blocks_recognised"] += sum(1 for b in blocks if b is not None)
        if len(blocks) != k or n_post != k:
            notes.append("postselect-count-%d-for-%d-entangling-gates" % (n_post, k))
    sharp = TOL0 / S2 ** k
    if tol_p is None:      # angles are not roundings of the KLM angles: only the sharp tolerance applies
        tol_p, tol_s = sharp, sharp
    slack = 1e-6 + (tol_s if k else 0.0)
    pending = []
    if not ph.error:
        cmpB = compare(ref, code, k_seen, tol_p, tol_s, slack)
        pending.append(("emitted" if k else "exact", cmpB, tol_p, tol_s))
        for kind, msg in cmpB["problems"]:
            problems.append((kind + ("" if k == 0 else "[emitted-angles]"), msg))

    # ---- (A) exact-angle variant
    if k:
        ctx.c["execute_calls"] += 1
        pe = run_program(pq, exact_prog, d, cutoff)
        if pe.error:
            if pe.error[0] != "resource":
                problems.append((pe.error[0] + "[exact-angles]", pe.error[1]))
        else:
            code_e, leak_e, bad_e = split_code_space(dre, pe.map, n_meas, ctx)
            cmpA = compare(ref, code_e, k_seen, sharp, sharp, 1e-6)
            pending.append(("exact", cmpA, sharp, sharp))
            for kind, msg in cmpA["problems"]:
                extra_note = (" [" + ",".join(sorted(set(notes))) + "]") if notes else ""
                problems.append((kind + "[exact-angles]", msg + extra_note))
    if ctx.decoder_disagree:
        out, why = ctx.decoder_disagree[0]
        problems.append(("get_bosonic_qubit_samples-disagrees", "get_bosonic_qubit_samples(%r) %s" % (list(out), why)))
        ctx.decoder_disagree = []

    if count:
        for which, cmp_, tp, ts in pending:
            note(ctx, which, cmp_, tp, ts, clean=not problems)
        if k and not problems and not ph.error:
            ctx.c["max_tol_emitted"] = max(ctx.c["max_tol_emitted"], tol_p)
            if cmpB["dev"] > ctx.worst_emitted[0]:
                ctx.worst_emitted = (cmpB["dev"], {"note": "largest deviation of an emitted (rounded-angle) program from the qubit reference in this shard",
                                                   "deviation": cmpB["dev"], "tolerance": tol_p, "circuit": doc})

    # ---- finite shots: support only
    if case.get("shots") and not problems:
        ctx.c["execute_calls"] += 1
        ctx.c["finite_shot_runs"] += 1
        pf = run_program(pq, prog, d, cutoff, shots=int(case["shots"]), seed=int(case.get("shot_seed", 1)))
        if pf.error:
            if pf.error[0] != "resource":
                problems.append((pf.error[0] + "[shots]", pf.error[1]))
        else:
            support = {b.record for b in ref if b.prob > 0.0}
            p_out = 0.0
            if tot > 0:
                p_out = (leak + sum(fr for rec, fr in code.items() if rec not in support)) / tot
            n_out = 0
            first = None
            nshots = 0
            for out, fr in pf.map.items():
                cnt = int(round(fr * int(case["shots"])))
                nshots += cnt
                rec = tuple(decode_pair(out[2 * i], out[2 * i + 1]) for i in range(len(out) // 2)) if len(out) == 2 * n_meas else None
                if rec is None or any(r is None for r in rec) or rec not in support:
                    n_out += cnt
                    first = first or out
            ctx.c["finite_shot_samples_checked"] += nshots
            if k == 0:
                thr = 1
            else:
                from scipy.stats import binom

                thr = 1
                while binom.sf(thr - 1, int(case["shots"]), min(1.0, p_out + 1e-6)) >= 1e-10:
                    thr += 1
            if n_out >= thr:
                problems.append(("sample-outside-support", "%d of %d samples (first %r) lie outside the support of the qubit circuit (allowed < %d)"
                                 % (n_out, nshots, first, thr)))
    return problems


def judge(pq, ctx, case, tier):
    """evaluate + classification of a failing case into a mechanism key."""
    from vf.refs import qubit as Q

    doc = case["circuit"]
    f = features(doc)
    problems = [p for p in evaluate(pq, ctx, case, tier) if p[0] != "skipped"]
    if not problems:
        return
    kinds = sorted({p[0] for p in problems})
    msg = "; ".join(p[1] for p in problems[:3])
    # 0. the emitted program raises because a condition meets a measured rail pair outside the code space
    #    (leak of the rounded KLM angles, ~1e-7), while the exact-angle variant of the same program is fine
    if kinds == ["execute-raises:PiquassoException[emitted-angles]"] and "Unexpected outcomes" in msg and f["if"] and f["k"]:
        if SELFTEST_MODE["on"]:
            ctx.obs.add("selftest mode: finding if_test-condition-raises-on-leaked-outcome-of-rounded-cz of the unchanged tree seen and not reported")
            return
        ctx.viol("if_test-condition-raises-on-leaked-outcome-of-rounded-cz",
                 "%s; the same program with exact KLM angles agrees with the qubit reference" % msg, case)
        return
    # 1. shapes of conditional blocks the encoder does not translate faithfully
    if f["exotic"]:
        alt = realign(doc)
        if alt is not None:
            a, b = Q.record_distribution(doc), Q.record_distribution(alt)
            assert set(a) == set(b) and all(abs(a[r] - b[r]) < 1e-12 for r in a), "realign changed the circuit"
            sub = Ctx()
            alt_case = dict(case, circuit=alt, shots=0)
            if not [p for p in evaluate(pq, sub, alt_case, tier, count=False) if p[0] != "skipped"]:
                ctx.viol(EXOTIC_KEY[f["exotic"][0]] if len(f["exotic"]) == 1 else "if_test-shape:" + "+".join(f["exotic"]),
                         "%s (%s); the equivalent circuit with one single-gate block per body gate and clbit == measurement position passes"
                         % (msg, ",".join(kinds)), case)
                return
    # 2. shrink and name the gates of the smallest failing circuit (first few failures of a shard;
    #    the verdict is already decided by them, later ones are only counted)
    if ctx.c["shrunk_failures"] >= 4:
        ctx.c["unshrunk_failures"] += 1
        return
    ctx.c["shrunk_failures"] += 1
    small = shrink(pq, ctx, case, tier, set(kinds))
    # the smallest failing circuit may fail through a known defect alone (an exotic block shape whose realigned variant still
    # meets the leaked-outcome raise: seen at seed 0 once the idle machine let the shard reach that case): rule 0 on it
    fs = features(small["circuit"])
    sub = Ctx()
    sp = [p_ for p_ in evaluate(pq, sub, dict(small, shots=0), tier, count=False) if p_[0] != "skipped"]
    if (sorted({p_[0] for p_ in sp}) == ["execute-raises:PiquassoException[emitted-angles]"] and fs["if"] and fs["k"]
            and all("Unexpected outcomes" in p_[1] for p_ in sp)):
        if SELFTEST_MODE["on"]:
            ctx.obs.add("selftest mode: finding if_test-condition-raises-on-leaked-outcome-of-rounded-cz of the unchanged tree seen and not reported")
            return
        ctx.viol("if_test-condition-raises-on-leaked-outcome-of-rounded-cz",
                 "%s | smallest failing circuit (fails through the condition raise alone; its exact-angle variant agrees with the qubit "
                 "reference): %s" % (msg, json.dumps(small["circuit"])), case)
        return
    g = sorted({n.split(":")[-1] for n in features(small["circuit"])["names"]})
    cond = "+if_test" if features(small["circuit"])["if"] else ""
    ctx.viol("%s:%s%s" % (kinds[0], "+".join(g), cond), "%s | smallest failing circuit: %s" % (msg, json.dumps(small["circuit"])), case)


def shrink(pq, ctx, case, tier, kinds, budget_runs=30, budget_s=25.0):
    t0 = time.time()
    cur = copy.deepcopy(case)
    cur["shots"] = case.get("shots", 0)
    runs = 0
    progress = True
    while progress:
        progress = False
        doc = cur["circuit"]
        cands = []
        for i, o in enumerate(doc["ops"]):
            nd = copy.deepcopy(doc)
            del nd["ops"][i]
            cands.append(nd)
            if o["g"] == "if":
                for j in range(len(o["body"])):
                    if len(o["body"]) > 1:
                        nd = copy.deepcopy(doc)
                        del nd["ops"][i]["body"][j]
                        cands.append(nd)
        for nd in cands:
            if runs >= budget_runs or time.time() - t0 > budget_s:
                return cur
            if not valid(nd):
                continue
            if features(doc)["aligned"]:
                nd2 = realign_keep_blocks(nd)
            else:
                nd2 = nd
            if nd2 is None or not valid(nd2):
                continue
            trial = dict(cur, circuit=nd2)
            sub = Ctx()
            runs += 1
            ctx.c["shrink_runs"] += 1
            ps = [p for p in evaluate(pq, sub, trial, tier, count=False) if p[0] != "skipped"]
            if ps and ({p[0] for p in ps} & kinds):
                cur = trial
                progress = True
                break
    return cur


def realign_keep_blocks(doc):
    """Renumber clbits to measurement positions after an op was removed (blocks kept intact)."""
    ops = []
    writer_pos = {}
    pos = 0
    for o in doc["ops"]:
        o = copy.deepcopy(o)
        if o["g"] == "measure":
            writer_pos[o["c"]] = pos
            o["c"] = pos
            pos += 1
        elif o["g"] == "if":
            if o["c"] not in writer_pos:
                return None
            o["c"] = writer_pos[o["c"]]
        ops.append(o)
    return {"nq": doc["nq"], "ncl": max(pos, 1), "ops": ops}


# ------------------------------------------------------------------ runner protocol
def plan(tier, seed):
    # self-test aid: leaves out the three if_test shapes the unchanged encoder mistranslates and does not report
    # the leaked-outcome crash, so that rc=1 of a mutant run is due to the mutant
    no_exotic = bool(os.environ.get("VERIF_C19_NO_EXOTIC"))
    specs = []
    if tier == "quick":
        # (name, forced number of entangling gates or None, cases, time budget s, big cases allowed)
        rows = [("k2-%d" % i, 2, 80, 45, 0) for i in range(2)] + [("k1-%d" % i, 1, 200, 45, 0) for i in range(2)] + \
               [("mixed-%d" % i, None, 500, 45, 0) for i in range(6)] + [("k0-%d" % i, 0, 600, 35, 0) for i in range(2)]
    else:
        rows = [("k3-%d" % i, 3, 400, 250, 2) for i in range(2)] + [("k2-%d" % i, 2, 800, 250, 4) for i in range(2)] + \
               [("k1-%d" % i, 1, 3000, 250, 0) for i in range(2)] + [("mixed-%d" % i, None, 6000, 250, 2) for i in range(5)] + \
               [("k0-0", 0, 8000, 180, 0)]
    for i, (name, fk, n, budget, big) in enumerate(rows):
        specs.append({"name": name, "shard": i, "force_k": fk, "count": n, "budget": budget, "big": big,
                      "no_exotic": no_exotic,
                      # the simulator allocates dense dim x dim arrays per Create / measurement: keep them on the
                      # heap (no mmap/munmap + page-fault storm, no THP compaction stalls); 2 threads per shard
                      "env": {"OMP_NUM_THREADS": "2", "OPENBLAS_NUM_THREADS": "2", "MKL_NUM_THREADS": "2",
                              "NUMBA_NUM_THREADS": "2", "NUMPY_MADVISE_HUGEPAGE": "0",
                              "MALLOC_MMAP_THRESHOLD_": "33554432", "MALLOC_TRIM_THRESHOLD_": "4294967296",
                              "MALLOC_TOP_PAD_": "268435456"}})
    return specs


def run_shard(spec):
    from vf import boot

    pq = boot.import_piquasso()
    from vf.refs import qubit as Q

    rng = np.random.default_rng([int(spec["seed"]), 19, int(spec["shard"])])
    tier = spec["tier"]
    ctx = Ctx()
    SELFTEST_MODE["on"] = bool(spec.get("no_exotic"))
    t0 = time.time()
    c0 = time.process_time()
    big_left = int(spec.get("big", 0))
    spent, units_done = 0.0, 0.0
    budget = float(spec["budget"])     # CPU seconds of this process; wall is capped at 2x (shared machine)
    for i in range(int(spec["count"])):
        if time.process_time() - c0 > budget or time.time() - t0 > 2.0 * budget:
            ctx.obs.add("a shard stopped by its time budget before its case count")
            break
        case = gen_case(rng, tier, allow_exotic=not spec.get("no_exotic"), force_k=spec.get("force_k"))
        doc = case["circuit"]
        f = features(doc)
        if spec.get("force_k") is not None and f["k"] != spec["force_k"]:
            continue
        if i % 6 == 0:
            case["shots"] = SHOTS
            case["shot_seed"] = int(rng.integers(1, 2 ** 31 - 1))
        d, N, cutoff = layout(doc, case["cutoff_extra"])
        if not affordable(doc, case["cutoff_extra"], tier):
            ctx.c["resource_skips"] += 1
            continue
        if fock_dim(d, cutoff) > BIG_DIM:     # rationed, and only early in the shard (one such case takes 10-60 s
            #                                       on an idle machine, many minutes on an overloaded one)
            overloaded = os.getloadavg()[0] > 2.0 * (os.cpu_count() or 1)
            if overloaded and big_left > 0:
                ctx.obs.add("machine overloaded (load average > 2 x cores): circuits with fock dimension > %d were not run" % BIG_DIM)
            if big_left <= 0 or overloaded or time.process_time() - c0 > 0.6 * budget:
                ctx.c["big_cases_rationed"] += 1
                if spec.get("force_k") == 3 and ctx.c["big_cases_rationed"] > 200:
                    break     # a k3 shard has nothing else to do
                continue
            big_left -= 1
        if fock_dim(d, cutoff) > 1500:
            case["shots"] = 0
        # adaptive pacing: cost ~ dimension^1.5 x instructions x runs; skip what would overrun the budget at the
        # rate observed so far in this shard (the machine is shared; wall-clock only limits work, never decides)
        units = fock_dim(d, cutoff) ** 1.5 * (len(doc["ops"]) + 6) * (2 if f["k"] else 1)
        remaining = min(budget - (time.process_time() - c0), 2.0 * budget - (time.time() - t0))
        est = units * (spent / units_done) if units_done > 0 else 0.0
        if est > 5.0 and est > 1.5 * max(remaining, 1.0):
            ctx.c["cases_skipped_by_pacing"] += 1
            continue
        t_case = time.process_time()
        ctx.evals += 1
        ctx.c["circuits"] += 1
        ctx.by_qubits[str(f["nq"])] = ctx.by_qubits.get(str(f["nq"]), 0) + 1
        ctx.by_ent[str(f["k"])] = ctx.by_ent.get(str(f["k"]), 0) + 1
        ctx.by_cutoff[str(cutoff)] = ctx.by_cutoff.get(str(cutoff), 0) + 1
        for n in f["names"]:
            ctx.by_gate[n] = ctx.by_gate.get(n, 0) + 1
        ctx.c["circuits_with_entangling"] += 1 if f["k"] else 0
        ctx.c["circuits_with_mid_measure"] += 1 if f["mid"] else 0
        ctx.c["circuits_with_if_test"] += 1 if f["if"] else 0
        ctx.c["exotic_cases"] += 1 if f["exotic"] else 0
        if f["if"]:
            a = Q.record_distribution(doc)
            eff = True
            for force in ("always", "never"):
                b = Q.record_distribution(doc, force)
                if max(abs(a.get(r, 0.0) - b.get(r, 0.0)) for r in set(a) | set(b)) < 1e-6:
                    eff = False
            ctx.c["if_test_effective_cases"] += 1 if eff else 0
        before = ctx.c["comparisons"]
        judge(pq, ctx, case, tier)
        spent += time.process_time() - t_case
        units_done += units
        if ctx.c["comparisons"] > before:
            ctx.classes.add(class_key(doc, f))
            if len(ctx.samples) < 2 and (f["if"] or f["k"]) and i > 3:
                ctx.samples.append({"circuit": doc, "cutoff": cutoff, "modes": d, "photons": N,
                                    "reference_record_distribution": {str(k): v for k, v in Q.record_distribution(doc).items()}})
    if ctx.worst_emitted[1] is not None:
        ctx.samples.insert(0, ctx.worst_emitted[1])
    counters = dict(ctx.c)
    counters["circuits_by_qubits"] = ctx.by_qubits
    counters["circuits_by_entangling_gates"] = ctx.by_ent
    counters["gates_by_name"] = ctx.by_gate
    counters["circuits_by_cutoff"] = ctx.by_cutoff
    return {"evaluations": ctx.evals, "classes": sorted(ctx.classes), "violations": ctx.violations,
            "counters": counters, "samples": ctx.samples, "observations": sorted(ctx.obs)}


def replay(case):
    from vf import boot

    pq = boot.import_piquasso()
    ctx = Ctx()
    judge(pq, ctx, case, "thorough")
    return ctx.violations
