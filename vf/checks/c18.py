"""C18 - program construction is faithful: round trips, nesting, preparation algebra.

Five sub-workloads, each its own shard kind with its own counters:

  bb      Program.to_blackbird_code / loads_blackbird (and the file variants) over the
          Blackbird-exportable gate set with hostile float parameters
  ascode  pq.as_code(program, simulator, shots): the emitted text is exec-ed in a fresh
          namespace; program / simulator / config / executed state are compared
  dict    Program.from_dict / Instruction.from_dict and Program.copy / Instruction.copy
  nest    pq.Q(...) | inner_program to depth 3: flattened modes vs the composition of the
          register maps computed by the harness; inner programs unchanged and reusable
  prep    expression trees over NumberState / FockStateVector (+, scalar *, /): amplitudes of
          the state prepared on PureFockSimulator vs a dict-based linear algebra

Every case is generated as a JSON document, decoded again and only then run, so that a
recorded case replays exactly.
"""

import math
import os
import re
import struct
import tempfile
import time
import warnings

import numpy as np

ID = "C18"
LEVEL = "exploration"
TECHNIQUE = ("runtime monitoring: round-trip differential oracles (Blackbird text, exec of as_code output, from_dict, copy), "
             "independent register-map composition for nested programs, dict-based linear algebra for preparation expressions")
DESIGN_REF = "DESIGN.md §4 C18"
LEVEL_TEXT = (
    "Seeded programs over the 15 Blackbird-exportable gates with floats from {negative, 1e-300, 1e-20, 1e20, integer-valued, "
    "denormal, pi multiples, random bit patterns, np.float64/float32/int64} are exported and re-loaded (string and file) and "
    "compared bit for bit; as_code output over all 44 concrete bosonic instruction classes (matrices up to 6x6, one 32x32, every Config field) and "
    "the 4 fermionic ones is exec-ed in a fresh namespace and program, simulator, config and the executed state are compared with the "
    "originals; from_dict / copy are compared structurally and by execution; nested registrations to depth 3 with arbitrary "
    "ordered subsets, Q() and Q(all) are compared with the harness' own composition of the register maps, inner programs are "
    "checked unchanged and registered repeatedly; preparation trees with <=5 leaves are evaluated with dict-based linear algebra "
    "and compared with the amplitudes prepared on PureFockSimulator, for the tree and its commuted / re-associated / distributed "
    "variants built from fresh leaves. Held = no disagreement on the cases generated."
)
LEVEL_NOTE = (
    "Sampled, not exhaustive. Conditioned instructions, callable / expression-string parameters and BatchPrepare/BatchApply are "
    "outside the quantifier of the property (as_code refuses or mis-prints them): recorded as observations. The connector of a "
    "simulator is not part of the statement (as_code drops it): observation. Blackbird has no matrix-valued exportable gate."
)
RULE = (
    "cases = one per generated program document (bb / ascode / dict), one per program DAG (nest), one per expression tree incl. "
    "its variants (prep). distinct_nontrivial = distinct structural classes among cases that reached the deciding comparison: "
    "(workload, instruction type, kinds of its parameter values, mode-order pattern) for round trips, (simulator, config fields "
    "set) for as_code, (depth, register kinds) for nesting, (tree shape signature, leaf kinds, collisions) for preparations."
)
ASSUMPTIONS = [
    "CPython float repr / json round-trip doubles exactly",
    "the amplitude found at get_fock_space_basis(d, cutoff)[i] belongs to that occupation (checked by C06)",
    "a round trip may change the Python type of a scalar (np.float32 -> float) as long as the value is identical",
]
REQUIRED = ["bb_roundtrips", "bb_params_compared", "ascode_structural", "ascode_executed", "ascode_config_fields",
            "dict_roundtrips", "copy_checks", "nest_instructions_compared", "nest_inner_unchanged_checks",
            "prep_trees", "prep_amplitudes_compared", "prep_variant_pairs"]
WATCHDOG = {"quick": 900, "thorough": 3600}

EPS = float(np.finfo(np.float64).eps)
LOSSY_KEY = "as-code-matrix-repr-lossy"


# =============================================================================== codec
def enc(v):
    """JSON encoding of a parameter value that keeps type, dtype and every bit."""
    if isinstance(v, np.ndarray):
        flat = v.ravel()
        d = {"__nd__": str(v.dtype), "shape": list(v.shape)}
        if np.iscomplexobj(v):
            d["re"] = [float(x) for x in flat.real]
            d["im"] = [float(x) for x in flat.imag]
        elif v.dtype.kind in "iub":
            d["v"] = [int(x) for x in flat]
        else:
            d["v"] = [float(x) for x in flat]
        return d
    if isinstance(v, np.generic):
        if isinstance(v, np.complexfloating):
            return {"__np__": v.dtype.name, "v": [float(v.real), float(v.imag)]}
        if isinstance(v, np.bool_):
            return bool(v)
        if isinstance(v, np.integer):
            return {"__np__": v.dtype.name, "v": int(v)}
        return {"__np__": v.dtype.name, "v": float(v)}
    if v is None or isinstance(v, (bool, int, float, str)):
        return v
    if isinstance(v, complex):
        return {"__c__": [v.real, v.imag]}
    if isinstance(v, tuple):
        return {"__t__": [enc(x) for x in v]}
    if isinstance(v, list):
        return [enc(x) for x in v]
    if isinstance(v, dict):
        return {"__map__": [[[int(t) for t in k], enc(a)] for k, a in v.items()]}
    raise TypeError("cannot encode %r" % type(v))


def dec(o):
    if isinstance(o, list):
        return [dec(x) for x in o]
    if not isinstance(o, dict):
        return o
    if "__nd__" in o:
        dt = np.dtype(o["__nd__"])
        if "re" in o:
            a = np.array(o["re"], dtype=float) + 1j * np.array(o["im"], dtype=float)
        else:
            a = np.array(o["v"])
        return a.astype(dt).reshape(o["shape"])
    if "__np__" in o:
        t = getattr(np, o["__np__"])
        return t(complex(*o["v"])) if isinstance(o["v"], list) else t(o["v"])
    if "__c__" in o:
        return complex(o["__c__"][0], o["__c__"][1])
    if "__t__" in o:
        return tuple(dec(x) for x in o["__t__"])
    if "__map__" in o:
        return {tuple(k): dec(a) for k, a in o["__map__"]}
    raise TypeError("cannot decode %r" % o)


def kind_of(v):
    if isinstance(v, np.ndarray):
        return "nd%s%s" % (v.dtype.kind, "x".join(str(s) for s in v.shape))
    if isinstance(v, np.generic):
        return v.dtype.name
    if isinstance(v, dict):
        return "map"
    return type(v).__name__


# =============================================================================== comparison
def _is_real_number(v):
    return isinstance(v, (int, float, np.integer, np.floating)) and not isinstance(v, (bool, np.bool_))


def _bits(x):
    return struct.pack("<d", float(x))


def diff_value(a, b):
    """None when b reproduces a, else {'kind':..., 'rel':..., 'detail':...}."""
    if isinstance(a, np.ndarray):
        if not isinstance(b, np.ndarray):
            return {"kind": "type", "detail": "ndarray became %s" % type(b).__name__}
        if b.dtype == object:
            return {"kind": "ndarray-object", "detail": "ndarray came back with dtype=object"}
        if a.shape != b.shape:
            return {"kind": "shape", "detail": "%s -> %s" % (a.shape, b.shape)}
        if a.size == 0:
            return None
        scale = float(np.max(np.abs(a)))
        dev = float(np.max(np.abs(a.astype(complex) - b.astype(complex))))
        if dev <= 1e-15 * scale:
            if a.dtype != b.dtype:
                return {"kind": "ndarray-dtype", "detail": "%s -> %s" % (a.dtype, b.dtype)}
            return None
        rel = dev / scale if scale > 0 else float("inf")
        rt = False
        try:
            back = eval("np." + repr(a), {"np": np, "array": np.array})  # numpy's own repr round trip
            rt = isinstance(back, np.ndarray) and back.shape == b.shape and bool(np.array_equal(back, b))
        except Exception:
            rt = False
        return {"kind": "ndarray-dev", "rel": rel, "repr_roundtrip": rt,
                "detail": "max|a-b|=%.3g, max|a|=%.3g" % (dev, scale)}
    if isinstance(a, (bool, np.bool_)) or a is None or isinstance(a, str):
        ok = (a is None and b is None) or (a is not None and b is not None and type(b) in (type(a), bool, np.bool_, str) and a == b)
        return None if ok else {"kind": "scalar", "detail": "%r -> %r" % (a, b)}
    if _is_real_number(a):
        if not _is_real_number(b):
            return {"kind": "type", "detail": "%r -> %r" % (a, b)}
        if isinstance(a, (int, np.integer)) and isinstance(b, (int, np.integer)):
            return None if int(a) == int(b) else {"kind": "scalar", "detail": "%r -> %r" % (a, b)}
        fa, fb = float(a), float(b)
        if _bits(fa) == _bits(fb) or (isinstance(a, (int, np.integer)) and fa == fb):
            return None
        rel = abs(fa - fb) / abs(fa) if fa != 0 and math.isfinite(fa) and math.isfinite(fb) else float("inf")
        return {"kind": "float", "rel": rel, "detail": "%r -> %r" % (a, b)}
    if isinstance(a, (complex, np.complexfloating)):
        if not isinstance(b, (complex, np.complexfloating, int, float, np.integer, np.floating)):
            return {"kind": "type", "detail": "%r -> %r" % (a, b)}
        return None if complex(a) == complex(b) else {"kind": "scalar", "detail": "%r -> %r" % (a, b)}
    if isinstance(a, (tuple, list)):
        if isinstance(b, np.ndarray):
            b = b.tolist()
        if not isinstance(b, (tuple, list)) or len(a) != len(b):
            return {"kind": "sequence", "detail": "%r -> %r" % (a, b)}
        for x, y in zip(a, b):
            d = diff_value(x, y)
            if d:
                return d
        return None
    if isinstance(a, dict):
        if not isinstance(b, dict):
            return {"kind": "type", "detail": "dict became %s" % type(b).__name__}
        ka = {tuple(int(t) for t in k): v for k, v in a.items()}
        kb = {tuple(int(t) for t in k): v for k, v in b.items()}
        if set(ka) != set(kb):
            return {"kind": "map-keys", "detail": "%r -> %r" % (sorted(ka), sorted(kb))}
        for k in ka:
            d = diff_value(ka[k], kb[k])
            if d:
                return d
        return None
    return None if a is b or a == b else {"kind": "other", "detail": "%r -> %r" % (a, b)}


def diff_programs(orig, got):
    """List of differences between two instruction lists (types, modes, params)."""
    diffs = []
    if len(orig) != len(got):
        return [{"what": "count", "detail": "%d -> %d instructions" % (len(orig), len(got))}]
    for i, (a, b) in enumerate(zip(orig, got)):
        if type(a).__name__ != type(b).__name__ or type(a).__module__ != type(b).__module__:
            diffs.append({"what": "type", "index": i, "detail": "%s.%s -> %s.%s" % (
                type(a).__module__, type(a).__name__, type(b).__module__, type(b).__name__)})
            continue
        ma = tuple(int(m) for m in a.modes)
        mb = tuple(int(m) for m in b.modes)
        if ma != mb:
            diffs.append({"what": "modes", "index": i, "detail": "%s: %s -> %s" % (type(a).__name__, ma, mb)})
        pa, pb = a.params, b.params
        if list(pa.keys()) != list(pb.keys()):
            diffs.append({"what": "param-names", "index": i, "detail": "%s -> %s" % (list(pa), list(pb))})
            continue
        for k in pa:
            d = diff_value(pa[k], pb[k])
            if d:
                d = dict(d)
                d.update({"what": "param", "index": i, "name": k, "type": type(a).__name__})
                diffs.append(d)
    return diffs


def describe(diffs, n=3):
    out = []
    for d in diffs[:n]:
        s = d["what"]
        if "type" in d and d["what"] == "param":
            s += " %s.%s" % (d["type"], d.get("name"))
        if "kind" in d:
            s += " [%s]" % d["kind"]
        if d.get("rel") is not None:
            s += " rel=%.3g" % d["rel"]
        s += ": " + str(d.get("detail"))[:160]
        out.append(s)
    if len(diffs) > n:
        out.append("... %d more" % (len(diffs) - n))
    return "; ".join(out)


class Ctx:
    def __init__(self):
        self.violations = []
        self.c = {k: 0 for k in REQUIRED}
        self.classes = set()
        self.samples = []
        self.obs = set()
        self.evals = 0
        self.by_type = {}

    def inc(self, k, n=1):
        self.c[k] = self.c.get(k, 0) + n

    def mx(self, k, v):
        self.c[k] = max(self.c.get(k, 0.0), float(v))

    def viol(self, mech, msg, case):
        self.inc("violations_" + mech.replace("-", "_"))
        if sum(1 for v in self.violations if v["mechanism"] == mech) < 3 and len(self.violations) < 60:
            self.violations.append({"mechanism": mech, "message": msg, "case": case})

    def result(self):
        c = dict(self.c)
        c["instructions_by_type"] = dict(self.by_type)
        return {"evaluations": self.evals, "classes": sorted(self.classes), "violations": self.violations,
                "counters": c, "samples": self.samples[:6], "observations": sorted(self.obs)[:30]}


# =============================================================================== documents -> objects
FERMIONIC = ("ParentHamiltonian", "GaussianHamiltonian", "ControlledPhase", "IsingXX")


def ins_class(pq, name):
    if name in FERMIONIC:
        return getattr(pq.fermionic, name)
    return getattr(pq, name)


def build_ins(pq, idoc, with_modes=True):
    """Fresh instruction object from an instruction document."""
    kw = {k: dec(v) for k, v in idoc.get("p", {}).items()}
    with warnings.catch_warnings():
        warnings.simplefilter("ignore")
        ins = ins_class(pq, idoc["t"])(**kw)
    if idoc.get("when") is not None:
        ins = ins.when(idoc["when"])
    if with_modes and idoc.get("m"):
        ins = ins.on_modes(*idoc["m"])
    return ins


def build_program(pq, ins_docs, style="ctor"):
    """style 'ctor': Program(instructions=[...]); 'with': registration through pq.Q(...) | ins."""
    if style == "ctor":
        return pq.Program(instructions=[build_ins(pq, d) for d in ins_docs])
    with pq.Program() as program:
        for d in ins_docs:
            pq.Q(*(d.get("m") or [])) | build_ins(pq, d, with_modes=False)
    return program


SIMS = {
    "gaussian": lambda pq: pq.GaussianSimulator,
    "purefock": lambda pq: pq.PureFockSimulator,
    "fock": lambda pq: pq.FockSimulator,
    "passive": lambda pq: pq.PassiveSimulator,
    "fgaussian": lambda pq: pq.fermionic.GaussianSimulator,
    "fpurefock": lambda pq: pq.fermionic.PureFockSimulator,
}
CONFIG_FIELDS = ("cutoff", "dtype", "measurement_cutoff", "hbar", "seed_sequence", "use_torontonian", "cache_size",
                 "validate", "use_dask", "max_sample_generation_trials")


def build_config(pq, cdoc):
    kw = {k: dec(v) for k, v in (cdoc or {}).items()}
    if "dtype" in kw:
        kw["dtype"] = {"float64": np.float64, "float32": np.float32}[kw["dtype"]]
    return pq.Config(**kw)


def build_sim(pq, doc):
    cfg = build_config(pq, doc.get("config")) if doc.get("config") is not None else None
    return SIMS[doc["sim"]](pq)(d=doc.get("d"), config=cfg)


# =============================================================================== scalar pools
def ordered_subset(rng, d, k):
    return [int(m) for m in rng.permutation(d)[:k]]


def mode_pattern(modes):
    if len(modes) == 0:
        return "none"
    if len(modes) == 1:
        return "single"
    asc = list(modes) == sorted(modes)
    adj = all(abs(a - b) == 1 for a, b in zip(modes, modes[1:]))
    return ("asc" if asc else ("desc" if list(modes) == sorted(modes, reverse=True) else "mixed")) + ("-adj" if adj else "-gap")


def special_float(rng):
    """One value of the hostile scalar pool of the property statement."""
    k = int(rng.integers(0, 18))
    if k == 0:
        v = -float(rng.uniform(0, np.pi))
    elif k == 1:
        v = 1e-300
    elif k == 2:
        v = 1e-20
    elif k == 3:
        v = 1e20
    elif k == 4:
        v = float(rng.integers(-5, 6))
    elif k == 5:
        v = 5e-324 * int(rng.integers(1, 2 ** 40))
    elif k == 6:
        v = float(int(rng.integers(-8, 9)) * np.pi)
    elif k == 7:
        v = float(np.pi / int(rng.integers(1, 9)))
    elif k == 8:
        v = np.float64(rng.uniform(-np.pi, np.pi))
    elif k == 9:
        v = np.float32(rng.uniform(-np.pi, np.pi))
    elif k == 10:
        v = np.int64(rng.integers(-4, 5))
    elif k == 11:
        v = int(rng.integers(-4, 5))
    elif k == 12:
        bits = int(rng.integers(0, 2 ** 63)) | (int(rng.integers(0, 2)) << 63)
        v = struct.unpack("<d", struct.pack("<Q", bits))[0]
        if not math.isfinite(v):
            v = 1.7976931348623157e308
    elif k == 13:
        v = float(int(rng.integers(1, 10)) / 10 + int(rng.integers(1, 10)) / 10)  # 0.1 + 0.2 style
    elif k == 14:
        v = float(rng.choice([1.7976931348623157e308, 2.2250738585072014e-308, 1e16, 1e-5, 1e22, 1e23, 1.5e-310, 1 / 3]))
    elif k == 15:
        v = float(rng.choice([0.0, -0.0]))
    elif k == 16:
        v = float(rng.uniform(-np.pi, np.pi))
    else:
        v = float(rng.normal() * 10.0 ** int(rng.integers(-12, 13)))
    if rng.random() < 0.25 and not isinstance(v, (np.generic,)):
        v = -v
    return v


# The Blackbird-exportable set, transcribed from the Blackbird gate names documented for piquasso
# (Dgate Xgate Zgate Sgate Pgate Kgate Rgate BSgate MZgate S2gate CXgate CZgate CKgate Vgate Fouriergate).
BB_GATES = {
    "Displacement": (1, ("r", "phi"), 1), "PositionDisplacement": (1, ("x",), 1), "MomentumDisplacement": (1, ("p",), 1),
    "Squeezing": (1, ("r", "phi"), 1), "QuadraticPhase": (1, ("s",), 1), "Kerr": (1, ("xi",), 1),
    "Phaseshifter": (1, ("phi",), 1), "Beamsplitter": (2, ("theta", "phi"), 0), "MachZehnder": (2, ("int_", "ext"), 2),
    "Squeezing2": (2, ("r", "phi"), 1), "ControlledX": (2, ("s",), 1), "ControlledZ": (2, ("s",), 1),
    "CrossKerr": (2, ("xi",), 1), "CubicPhase": (1, ("gamma",), 1), "Fourier": (1, (), 0),
}  # name -> (arity, parameter names, number of required leading parameters)


def gen_bb_doc(rng, tier):
    d = int(rng.integers(1, 9))
    n = int(rng.integers(1, 7))
    names = sorted(BB_GATES)
    ins = []
    while len(ins) < n:
        t = names[int(rng.integers(0, len(names)))]
        ar, pnames, req = BB_GATES[t]
        if ar > d:
            continue
        given = len(pnames) if rng.random() < 0.8 else int(rng.integers(req, len(pnames) + 1))
        p = {k: enc(special_float(rng)) for k in pnames[:given]}
        ins.append({"t": t, "m": ordered_subset(rng, d, ar), "p": p})
    return {"w": "bb", "d": d, "ins": ins, "via": "file" if rng.random() < 0.08 else "string",
            "style": "with" if rng.random() < 0.5 else "ctor"}


def run_bb(ctx, pq, doc):
    ctx.evals += 1
    try:
        prog = build_program(pq, doc["ins"], doc.get("style", "ctor"))
    except Exception as e:  # a constructor that refuses a value: outside the round-trip property
        ctx.inc("bb_constructor_rejected")
        ctx.obs.add("blackbird workload: constructor raised %s" % type(e).__name__)
        return
    orig = list(prog.instructions)
    try:
        if doc.get("via") == "file":
            with tempfile.TemporaryDirectory(prefix="c18bb") as td:
                path = os.path.join(td, "p.xbb")
                prog.save_as_blackbird_code(path)
                with open(path) as fh:
                    code = fh.read()
                back = pq.Program()
                back.load_blackbird(path)
        else:
            code = prog.to_blackbird_code()
            back = pq.Program()
            back.loads_blackbird(code)
    except Exception as e:
        ctx.viol("blackbird-roundtrip-raises", "Blackbird export/load raised %s: %s" % (type(e).__name__, str(e)[:200]), doc)
        return
    ctx.inc("bb_roundtrips")
    if doc.get("via") == "file":
        ctx.inc("bb_file_roundtrips")
    ctx.inc("bb_params_compared", sum(len(i.params) for i in orig))
    diffs = diff_programs(orig, back.instructions)
    for i in orig:
        ctx.by_type[type(i).__name__] = ctx.by_type.get(type(i).__name__, 0) + 1
        kinds = ",".join(sorted({kind_of(v) for v in i.params.values()}))
        ctx.classes.add("bb|%s|%s|%s" % (type(i).__name__, kinds, mode_pattern(i.modes)))
    if diffs:
        d0 = diffs[0]
        if d0["what"] == "param" and d0.get("kind") == "float" and d0.get("rel", 1) <= 1e-6:
            mech = "blackbird-float-lossy"  # same number up to the precision of the text
        elif d0["what"] == "param":
            mech = "blackbird-param-changed"
        else:
            mech = "blackbird-%s-changed" % d0["what"]
        ctx.viol(mech, "Blackbird round trip changed the program: %s | text: %s" % (
            describe(diffs), " / ".join(l for l in code.splitlines() if "|" in l)[:300]), doc)
    if len(ctx.samples) < 2:
        ctx.samples.append({"w": "bb", "text": [l for l in code.splitlines() if "|" in l][:6], "equal": not diffs})


# =============================================================================== whole instruction set (structural)
def _matrix_dress(rng, a, exact_ok=True):
    """dtype / representation variants of a matrix parameter."""
    r = rng.random()
    if r < 0.04:
        return a.astype(np.complex64 if np.iscomplexobj(a) else np.float32)
    if r < 0.10 and not np.iscomplexobj(a):
        return a.astype(float)
    return a


def _exact_unitary(rng, k):
    """Unitary whose entries are exactly representable with <= 8 printed digits."""
    r = int(rng.integers(0, 4))
    perm = rng.permutation(k)
    if r == 0:
        return np.eye(k, dtype=int)[perm]
    if r == 1:
        return np.eye(k)[perm]
    if r == 2:
        ph = np.array([1, -1, 1j, -1j])[rng.integers(0, 4, size=k)]
        return (np.eye(k)[perm] * ph).astype(complex)
    u = np.eye(k, dtype=complex)
    if k >= 2:
        i, j = rng.choice(k, size=2, replace=False)
        u[i, i] = u[j, j] = 0.6
        u[i, j] = 0.8
        u[j, i] = -0.8
    return u


def _unitary(rng, k):
    from vf.gen import matrices as M

    if rng.random() < 0.35:
        return _exact_unitary(rng, k)
    return _matrix_dress(rng, M.structured_unitary(rng, k)[0])


def _occ(rng, k, nmax=3):
    n = int(rng.integers(0, nmax + 1))
    o = [0] * k
    for _ in range(n):
        o[int(rng.integers(0, k))] += 1
    return o


def _coef(rng):
    r = int(rng.integers(0, 6))
    if r == 0:
        return 1.0
    if r == 1:
        return float(rng.uniform(-1, 1))
    if r == 2:
        return complex(rng.uniform(-1, 1), rng.uniform(-1, 1))
    if r == 3:
        return np.complex128(complex(rng.uniform(-1, 1), rng.uniform(-1, 1)))
    if r == 4:
        return np.float64(rng.uniform(-1, 1))
    return int(rng.integers(-2, 3))


def _stochastic(rng, c):
    m = rng.uniform(0, 1, size=(c, c))
    m = np.triu(m)
    return m / m.sum(axis=0)


def _amp_map(rng, k):
    m = {}
    for _ in range(int(rng.integers(1, 4))):
        m[tuple(_occ(rng, k))] = _coef(rng)
    return m


def gen_struct_params(rng, t, k):
    """Shape-correct constructor kwargs of instruction class t on k modes (not necessarily physical)."""
    from vf.gen import matrices as M

    f = lambda: special_float(rng)  # noqa: E731
    if t in BB_GATES:
        ar, pnames, req = BB_GATES[t]
        given = len(pnames) if rng.random() < 0.8 else int(rng.integers(req, len(pnames) + 1))
        return {n: f() for n in pnames[:given]}
    if t in ("Vacuum", "Create", "Annihilate", "Beamsplitter5050", "ParticleNumberMeasurement", "ThresholdMeasurement",
             "HeterodyneMeasurement"):
        return {}
    if t == "Interferometer":
        return {"matrix": _unitary(rng, k)}
    if t == "LossyInterferometer":
        return {"matrix": M.transmission_matrix(rng, k)[0] if rng.random() < 0.7 else 0.5 * _exact_unitary(rng, k)}
    if t == "GaussianTransform":
        if rng.random() < 0.3:
            return {"passive": _exact_unitary(rng, k), "active": np.zeros((k, k), dtype=complex)}
        P, A = M.symplectic_blocks(rng, k, rmax=0.4)
        return {"passive": P, "active": A}
    if t == "Graph":
        if rng.random() < 0.5:
            a = rng.integers(0, 2, size=(k, k))
            a = np.triu(a, 1)
            a = a + a.T
        else:
            a = rng.normal(size=(k, k))
            a = a + a.T
        return {"adjacency_matrix": a, "mean_photon_number": f()} if rng.random() < 0.5 else {"adjacency_matrix": a}
    if t == "SNAP":
        th = rng.uniform(-np.pi, np.pi, size=int(rng.integers(1, 5)))
        return {"theta": th if rng.random() < 0.6 else [float(x) for x in th]}
    if t == "Mean":
        return {"mean": rng.normal(size=2 * k) if rng.random() < 0.7 else np.arange(2 * k, dtype=float)}
    if t == "Covariance":
        if rng.random() < 0.3:
            return {"cov": np.eye(2 * k)}
        _, cov = M.physical_gaussian(rng, k, 1.0)
        idx = M.xxpp_to_xpxp(k)
        return {"cov": cov[np.ix_(idx, idx)]}
    if t == "Thermal":
        v = [float(x) for x in rng.uniform(0.1, 2, size=k)]
        return {"mean_photon_numbers": v if rng.random() < 0.6 else np.array(v)}
    if t == "NumberState":
        o = _occ(rng, k)
        r = rng.random()
        occ = o if r < 0.4 else (tuple(o) if r < 0.8 else np.array(o))
        return {"occupation_numbers": occ, "coefficient": _coef(rng)} if rng.random() < 0.7 else {"occupation_numbers": occ}
    if t == "FockStateVector":
        p = {"fock_amplitude_map": _amp_map(rng, k)}
        if rng.random() < 0.5:
            p["coefficient"] = _coef(rng)
        return p
    if t == "StateVector":
        if rng.random() < 0.5:
            return {"occupation_numbers": tuple(_occ(rng, k)), "coefficient": _coef(rng)}
        return {"fock_amplitude_map": _amp_map(rng, k), "coefficient": _coef(rng)}
    if t == "DensityMatrix":
        return {"ket": tuple(_occ(rng, k)), "bra": tuple(_occ(rng, k)), "coefficient": _coef(rng)}
    if t == "DistinguishableNumberState":
        o = _occ(rng, k)
        n = sum(o)
        if n >= 1 and rng.random() < 0.5:
            g = M.random_gram(rng, n)[0] if rng.random() < 0.6 else np.eye(n, dtype=complex)
            return {"occupation_numbers": tuple(o), "particle_overlap": g}
        return {"occupation_numbers": tuple(o), "particle_overlap": float(rng.choice([0.0, 1.0, 0.5, rng.uniform(0, 1)]))}
    if t == "DeterministicGaussianChannel":
        x = rng.uniform(0.2, 1.0)
        return {"X": np.eye(2 * k) * x, "Y": np.eye(2 * k) * abs(1 - x * x) + 0.0 * rng.normal(size=(2 * k, 2 * k))} \
            if rng.random() < 0.5 else {"X": rng.normal(size=(2 * k, 2 * k)), "Y": np.eye(2 * k)}
    if t == "Attenuator":
        return {"theta": f(), "mean_thermal_excitation": float(rng.choice([0, 0.5, rng.uniform(0, 2)]))} \
            if rng.random() < 0.6 else {"theta": f()}
    if t == "Loss":
        return {"transmissivity": np.array([float(rng.uniform(0, 1))]) if rng.random() < 0.6 else float(rng.uniform(0, 1))}
    if t == "UniformLoss":
        return {"transmissivity": float(rng.choice([1.0, 0.5, rng.uniform(0, 1)]))}
    if t == "GeneraldyneMeasurement":
        a = rng.normal(size=(2, 2))
        return {"detection_covariance": np.eye(2) if rng.random() < 0.3 else a @ a.T + np.eye(2)}
    if t == "HomodyneMeasurement":
        r = rng.random()
        return {} if r < 0.2 else ({"phi": f()} if r < 0.5 else {"phi": f(), "z": float(rng.choice([1e-4, 1e-3, 0.1]))})
    if t == "ImperfectParticleNumberMeasurement":
        return {"detector_efficiency_matrix": _stochastic(rng, int(rng.integers(2, 7)))}
    if t == "PostSelectPhotons":
        return {"photon_counts": tuple(_occ(rng, k, 2))}
    if t == "ImperfectPostSelectPhotons":
        return {"photon_counts": tuple(_occ(rng, k, 2)), "detector_efficiency_matrix": _stochastic(rng, int(rng.integers(2, 7)))}
    if t in ("ControlledPhase", "IsingXX"):
        return {"phi": f()}
    if t in ("ParentHamiltonian", "GaussianHamiltonian"):
        a = rng.normal(size=(2 * k, 2 * k)) + 1j * rng.normal(size=(2 * k, 2 * k))
        return {"hamiltonian": a + a.conj().T}
    raise KeyError(t)


ARITY = {n: BB_GATES[n][0] for n in BB_GATES}
ARITY.update({"Beamsplitter5050": 2, "SNAP": 1, "Loss": 1, "ControlledPhase": 2, "IsingXX": 2})
NO_MODES_OK = ("Vacuum", "Mean", "Covariance", "NumberState", "FockStateVector", "StateVector", "DensityMatrix",
               "DistinguishableNumberState", "ParticleNumberMeasurement", "ThresholdMeasurement", "HeterodyneMeasurement",
               "HomodyneMeasurement")
BOSONIC_ALL = sorted(set(BB_GATES) | {
    "Vacuum", "Create", "Annihilate", "Beamsplitter5050", "ParticleNumberMeasurement", "ThresholdMeasurement",
    "HeterodyneMeasurement", "Interferometer", "LossyInterferometer", "GaussianTransform", "Graph", "SNAP", "Mean",
    "Covariance", "Thermal", "NumberState", "FockStateVector", "StateVector", "DensityMatrix",
    "DistinguishableNumberState", "DeterministicGaussianChannel", "Attenuator", "Loss", "UniformLoss",
    "GeneraldyneMeasurement", "HomodyneMeasurement", "ImperfectParticleNumberMeasurement", "PostSelectPhotons",
    "ImperfectPostSelectPhotons"})


def gen_struct_ins(rng, t, d):
    k = ARITY.get(t)
    if k is None:
        k = int(rng.integers(1, d + 1))
        if t == "GaussianTransform" or t in ("ParentHamiltonian", "GaussianHamiltonian", "DeterministicGaussianChannel",
                                             "Covariance"):
            k = min(k, 3)
    if k > d:
        return None
    if t == "Create" or t == "Annihilate":
        k = 1
    params = gen_struct_params(rng, t, k)
    # structural cases are never executed, so "no modes" (= all modes) needs no size consistency
    modes = [] if (t in NO_MODES_OK and rng.random() < 0.4) else ordered_subset(rng, d, k)
    return {"t": t, "m": modes, "p": {n: enc(v) for n, v in params.items()}}


def gen_config_doc(rng, full=False, exec_safe=False):
    c = {}

    def on():
        return full or rng.random() < 0.45

    if on():
        c["cutoff"] = int(rng.integers(3, 7)) if not exec_safe else int(rng.integers(3, 6))
    if on():
        c["dtype"] = "float32" if (full or rng.random() < 0.5) and not exec_safe else "float64"
    if on():
        c["measurement_cutoff"] = int(rng.choice([2, 3, 4, 6, 7]))
    if on():
        c["hbar"] = enc([0.37, 1, 1.0, 3.3, np.float64(0.5), 2.5][int(rng.integers(0, 6))])
    if on():
        c["seed_sequence"] = [0, 1, 12345, 2 ** 40, 7, 2 ** 63 + 5][int(rng.integers(0, 6))]  # ints only: Config feeds the seed to random.seed
    if on():
        c["use_torontonian"] = bool(full or rng.random() < 0.7)
    if on():
        c["cache_size"] = int(rng.choice([0, 1, 16, 64]))
    if on():
        c["validate"] = bool(not full and rng.random() < 0.3)
    if on():
        c["use_dask"] = bool(full or rng.random() < 0.7) and not exec_safe
    if on():
        c["max_sample_generation_trials"] = int(rng.choice([1, 7, 100, 5000]))
    return c


def gen_struct_doc(rng, fermionic=False):
    d = int(rng.integers(1, 7))
    n = int(rng.integers(1, 6)) if rng.random() > (0.3 if fermionic else 0.03) else 0  # 0: empty program ("pass")
    pool = list(FERMIONIC) if fermionic else BOSONIC_ALL
    if fermionic:
        d = max(d, 2)
    ins = []
    tries = 0
    while len(ins) < n and tries < 40:
        tries += 1
        i = gen_struct_ins(rng, pool[int(rng.integers(0, len(pool)))], d)
        if i is not None:
            ins.append(i)
    sims = ["fgaussian", "fpurefock"] if fermionic else ["gaussian", "purefock", "fock", "passive"]
    r = rng.random()
    cfg = None if r < 0.15 else gen_config_doc(rng, full=r > 0.85)
    return {"w": "ascode", "mode": "struct", "sim": sims[int(rng.integers(0, len(sims)))],
            "d": None if rng.random() < 0.1 else d, "config": cfg, "ins": ins,
            "shots": [1, 1, 10, 420, None][int(rng.integers(0, 5))], "style": "with" if rng.random() < 0.5 else "ctor"}


# =============================================================================== executable programs (shots-free)
def _from_gdoc(g):
    from vf.gen import matrices as M

    return {"t": g["t"], "m": list(g["m"]), "p": {k: enc(M.dec(v)) for k, v in g["p"].items()}}


def gen_exec_doc(rng, simname=None):
    from vf.gen import programs as G
    from vf.gen import matrices as M

    simname = simname or ["gaussian", "gaussian", "passive", "purefock", "fock"][int(rng.integers(0, 5))]
    ins = []
    cfg = gen_config_doc(rng, exec_safe=True) if rng.random() < 0.8 else None
    if simname == "gaussian":
        d = int(rng.integers(1, 7))
        ins.append({"t": "Vacuum", "m": [], "p": {}})
        r = rng.random()
        if r < 0.25 and d <= 3:
            mean, cov = M.physical_gaussian(rng, d, 2.0, pure=False)  # piquasso's convention: vacuum cov = hbar * 1, parameter = cov / hbar
            idx = M.xxpp_to_xpxp(d)
            ins.append({"t": "Mean", "m": [], "p": {"mean": enc(mean[idx])}})
            ins.append({"t": "Covariance", "m": [], "p": {"cov": enc(cov[np.ix_(idx, idx)])}})
        elif r < 0.4:
            ins.append({"t": "Thermal", "m": list(range(d)), "p": {"mean_photon_numbers": enc([float(x) for x in rng.uniform(0.1, 2, size=d)])}})
        pool = list(G.PASSIVE_GATES + G.ACTIVE_GATES + G.DISPLACEMENTS)
        for _ in range(int(rng.integers(1, 7))):
            g = G.gate(rng, pool[int(rng.integers(0, len(pool)))], d)
            if g is not None:
                ins.append(_from_gdoc(g))
        if rng.random() < 0.5:  # force an exactly printable 4..6-mode interferometer into the mix
            k = int(rng.integers(1, d + 1))
            ins.append({"t": "Interferometer", "m": ordered_subset(rng, d, k), "p": {"matrix": enc(_exact_unitary(rng, k))}})
    elif simname == "passive":
        d = int(rng.integers(1, 7))
        ins.append({"t": "NumberState", "m": [], "p": {"occupation_numbers": enc(tuple(_occ(rng, d, 3)))}})
        pool = list(G.PASSIVE_GATES)
        for _ in range(int(rng.integers(1, 6))):
            g = G.gate(rng, pool[int(rng.integers(0, len(pool)))], d)
            if g is not None:
                ins.append(_from_gdoc(g))
        if rng.random() < 0.5:
            k = int(rng.integers(1, d + 1))
            ins.append({"t": "Interferometer", "m": ordered_subset(rng, d, k), "p": {"matrix": enc(_exact_unitary(rng, k))}})
        if cfg is not None:
            cfg.pop("cutoff", None)
    elif simname == "purefock":
        d = int(rng.integers(1, 4))
        cfg = dict(cfg or {})
        cfg["cutoff"] = int(rng.integers(3, 6))
        if rng.random() < 0.5:
            ins.append({"t": "NumberState", "m": [], "p": {"occupation_numbers": enc(tuple(_occ(rng, d, cfg["cutoff"] - 2)))}})
        else:
            sdoc, _, _ = G.superposition(rng, d, cfg["cutoff"] - 2, terms=int(rng.integers(1, 4)))
            m = G._dec_param(None, sdoc["p"]["fock_amplitude_map"])
            ins.append({"t": "FockStateVector", "m": [], "p": {"fock_amplitude_map": enc(m)}})
        pool = ["Interferometer", "Beamsplitter", "Phaseshifter", "Fourier", "Kerr", "CrossKerr", "Beamsplitter5050", "MachZehnder"]
        for _ in range(int(rng.integers(1, 5))):
            g = G.gate(rng, pool[int(rng.integers(0, len(pool)))], d)
            if g is not None:
                ins.append(_from_gdoc(g))
    else:  # fock
        d = int(rng.integers(1, 3))
        cfg = dict(cfg or {})
        cfg["cutoff"] = int(rng.integers(3, 5))
        occs = []
        for _ in range(int(rng.integers(1, 3))):
            o = tuple(_occ(rng, d, cfg["cutoff"] - 2))
            if o not in occs:
                occs.append(o)
        for o in occs:
            ins.append({"t": "DensityMatrix", "m": [], "p": {"ket": enc(o), "bra": enc(o), "coefficient": 1.0 / len(occs)}})
        pool = ["Beamsplitter", "Phaseshifter", "Kerr", "Interferometer"]
        for _ in range(int(rng.integers(1, 4))):
            g = G.gate(rng, pool[int(rng.integers(0, len(pool)))], d)
            if g is not None:
                ins.append(_from_gdoc(g))
    return {"w": "ascode", "mode": "exec", "sim": simname, "d": d, "config": cfg, "ins": ins, "shots": 1,
            "style": "with" if rng.random() < 0.5 else "ctor"}


def state_arrays(simname, state):
    if simname == "gaussian":
        return {"mean": np.asarray(state.xpxp_mean_vector), "cov": np.asarray(state.xpxp_covariance_matrix)}
    if simname == "purefock":
        return {"state_vector": np.asarray(state.state_vector)}
    if simname == "fock":
        return {"density_matrix": np.asarray(state.density_matrix)}
    return {"interferometer": np.asarray(state.interferometer),
            "coefficients": np.asarray(state._coefficients), "occupations": np.asarray(state._occupation_numbers)}


def max_state_dev(a, b):
    """max over arrays of max|a-b| / max(1, max|a|); inf on shape mismatch."""
    worst = 0.0
    for k in a:
        x, y = np.asarray(a[k]), np.asarray(b[k])
        if x.shape != y.shape:
            return float("inf")
        if x.size:
            worst = max(worst, float(np.max(np.abs(x.astype(complex) - y.astype(complex)))) / max(1.0, float(np.max(np.abs(x)))))
    return worst


def config_diffs(ctx, a, b, counter):
    """Field-by-field comparison through the public attributes (independent of Config.__eq__)."""
    out = []
    for f in CONFIG_FIELDS:
        if f == "seed_sequence":
            va, vb = getattr(a, "_original_seed_sequence", None), getattr(b, "_original_seed_sequence", None)
            if va:  # a falsy seed is replaced by entropy (C11), the public attribute is then random by design
                va, vb = a.seed_sequence, b.seed_sequence
        else:
            va, vb = getattr(a, f), getattr(b, f)
        ctx.inc(counter)
        same = (va is vb) or (type(va) is type and va == vb) or (not isinstance(va, type) and diff_value(va, vb) is None)
        if not same:
            out.append("%s: %r -> %r" % (f, va, vb))
    return out


def _is_lossy(diffs, code):
    if not diffs:
        return False
    for d in diffs:
        if d["what"] != "param" or d.get("kind") not in ("ndarray-dev", "ndarray-object"):
            return False
        if d.get("kind") == "ndarray-object" and "..." not in code:
            return False
        if d.get("kind") == "ndarray-dev" and not (d.get("repr_roundtrip") or d.get("rel", 1) <= 1e-6):
            return False
    return True


def run_ascode(ctx, pq, doc):
    ctx.evals += 1
    fermionic = doc["sim"] in ("fgaussian", "fpurefock")
    prog = build_program(pq, doc["ins"], doc.get("style", "ctor"))
    sim = build_sim(pq, doc)
    orig = list(prog.instructions)
    shots = doc.get("shots", 1)
    try:
        code = pq.as_code(prog, sim, shots)
    except Exception as e:
        ctx.viol("as-code-raises", "as_code raised %s: %s" % (type(e).__name__, str(e)[:200]), doc)
        return
    head = code.rsplit("\nresult = ", 1)[0] if doc["mode"] == "struct" else code
    ns = {"__name__": "__c18_exec__"}
    exc = None
    try:
        with warnings.catch_warnings():
            warnings.simplefilter("ignore")
            exec(compile(head, "<as_code>", "exec"), ns)
    except Exception as e:
        exc = e
    has_objects = "program" in ns and "simulator" in ns
    if not has_objects:
        msg = "%s: %s" % (type(exc).__name__, str(exc)[:160])
        if fermionic and isinstance(exc, AttributeError) and "piquasso" in str(exc):
            mech = "as-code-fermionic-namespace-dropped"
        elif "..." in code:
            mech = LOSSY_KEY
        elif isinstance(exc, NameError) and re.search(r"dtype=(float32|complex64|int32|int16|int8|uint8|float16)\)", code):
            mech = "as-code-ndarray-dtype-suffix"
        else:
            mech = "as-code-exec-raises-%s" % type(exc).__name__
        ctx.viol(mech, "the code emitted by as_code does not run: %s | %s" % (msg, _code_excerpt(code)), doc)
        return
    ctx.inc("ascode_structural")
    if fermionic:
        ctx.inc("ascode_fermionic_cases")
    sim2, prog2 = ns["simulator"], ns["program"]
    for i in orig:
        ctx.by_type[type(i).__name__] = ctx.by_type.get(type(i).__name__, 0) + 1
        ctx.classes.add("ascode|%s|%s|%s" % (type(i).__name__, ",".join(sorted({kind_of(v)[:3] for v in i.params.values()})),
                                               mode_pattern(i.modes)))
    ctx.classes.add("ascode-sim|%s|%s" % (doc["sim"], ",".join(sorted((doc.get("config") or {}).keys()))))
    reported = False
    # --- simulator
    if type(sim2) is not type(sim):
        mech = "as-code-fermionic-namespace-dropped" if type(sim).__module__.startswith("piquasso.fermionic") else "as-code-simulator-type-changed"
        ctx.viol(mech, "simulator type changed: %s.%s -> %s.%s" % (type(sim).__module__, type(sim).__name__,
                                                                  type(sim2).__module__, type(sim2).__name__), doc)
        reported = True
    if sim2.d != sim.d:
        ctx.viol("as-code-simulator-d-changed", "simulator d changed: %r -> %r" % (sim.d, sim2.d), doc)
        reported = True
    cd = config_diffs(ctx, sim.config, sim2.config, "ascode_config_fields")
    if cd or not (sim.config == sim2.config):
        ctx.viol("as-code-config-changed", "config differs after as_code round trip: %s (Config.__eq__: %s) | %s" % (
            "; ".join(cd), sim.config == sim2.config, [l for l in code.splitlines() if "Config" in l][:1]), doc)
        reported = True
    # --- shots
    m = re.search(r"\nresult = simulator\.execute\(program, shots=(.*)\)\n$", code)
    if not m or m.group(1) != str(shots):
        ctx.viol("as-code-shots-changed", "shots=%r emitted as %r" % (shots, m.group(1) if m else code[-80:]), doc)
        reported = True
    # --- program
    diffs = diff_programs(orig, prog2.instructions)
    ctx.inc("ascode_params_compared", sum(len(i.params) for i in orig))
    lossy = _is_lossy(diffs, code)
    for dd in diffs:
        if dd.get("kind") == "ndarray-dev":
            ctx.mx("max_ascode_matrix_rel_dev", dd["rel"])
    if diffs and not lossy:
        d0 = [x for x in diffs if not (x["what"] == "param" and x.get("kind") == "ndarray-dev" and x.get("rel", 1) <= 1e-6)][0]
        if d0["what"] == "param":
            mech = {"ndarray-dtype": "as-code-ndarray-dtype-changed",
                    "float": "as-code-float-lossy" if d0.get("rel", 1) <= 1e-6 else "as-code-param-changed"}.get(d0.get("kind"), "as-code-param-changed")
        else:
            mech = "as-code-%s-changed" % d0["what"]
        ctx.viol(mech, "as_code round trip changed the program: %s | %s" % (describe(diffs), _code_excerpt(code)), doc)
        reported = True
    # --- execution
    state_dev = None
    if doc["mode"] == "exec" and not reported:
        ctx.inc("ascode_executed")
        o_exc = None
        try:
            with warnings.catch_warnings():
                warnings.simplefilter("ignore")
                res = sim.execute(prog, shots=shots)
        except Exception as e:
            o_exc = e
        if exc is not None or o_exc is not None:
            if exc is not None and o_exc is not None and type(exc) is type(o_exc):
                ctx.inc("ascode_both_raise")
                ctx.obs.add("as_code exec workload: original and re-executed program both raise %s" % type(exc).__name__)
            elif not lossy:
                ctx.viol("as-code-execution-differs", "original execution: %r, emitted code: %r" % (o_exc, exc), doc)
                reported = True
        else:
            a = state_arrays(doc["sim"], res.state)
            b = state_arrays(doc["sim"], ns["result"].state)
            state_dev = max_state_dev(a, b)
            ctx.inc("ascode_states_compared")
            tol = 1e3 * EPS
            if not lossy:
                ctx.mx("max_ascode_state_dev_over_tol", state_dev / tol)
                if state_dev > tol:
                    ctx.viol("as-code-result-differs", "identical program and simulator but the executed state differs by %.3g" % state_dev, doc)
                    reported = True
    if lossy:
        ctx.viol(LOSSY_KEY, "as_code prints ndarray parameters with numpy's 8-digit repr: %s%s | %s" % (
            describe(diffs, 2), "" if state_dev is None else "; executed state differs by %.3g" % state_dev, _code_excerpt(code)), doc)
    elif not reported:
        ctx.inc("ascode_clean_roundtrips")
        if any(isinstance(v, np.ndarray) for i in orig for v in i.params.values()):
            ctx.inc("ascode_clean_with_matrix")
    if len(ctx.samples) < 4 and doc["mode"] == "exec":
        ctx.samples.append({"w": "ascode", "sim": doc["sim"], "d": doc["d"], "config": doc.get("config"),
                            "types": [i["t"] for i in doc["ins"]], "lossy": lossy, "state_dev": state_dev})


def _code_excerpt(code):
    body = [l for l in code.splitlines() if l.startswith("    pq.Q") or l.startswith("simulator") or l.startswith("    d=")]
    return " / ".join(body)[:400]


# =============================================================================== from_dict / copy
def snapshot(instructions):
    """Deep, comparison-friendly picture of an instruction list."""
    import copy as _copy

    return [(type(i).__module__ + "." + type(i).__name__, tuple(int(m) for m in i.modes), _copy.deepcopy(dict(i.params)),
             i.condition is not None) for i in instructions]


def snapshot_diff(snap, instructions):
    if len(snap) != len(instructions):
        return "instruction count %d -> %d" % (len(snap), len(instructions))
    for n, (s, i) in enumerate(zip(snap, instructions)):
        if s[0] != type(i).__module__ + "." + type(i).__name__:
            return "instruction %d type %s -> %s" % (n, s[0], type(i).__name__)
        if s[1] != tuple(int(m) for m in i.modes):
            return "instruction %d (%s) modes %s -> %s" % (n, s[0].split(".")[-1], s[1], tuple(i.modes))
        if list(s[2]) != list(i.params):
            return "instruction %d parameter names %s -> %s" % (n, list(s[2]), list(i.params))
        for k in s[2]:
            d = diff_value(s[2][k], i.params[k])
            if d is not None and not (d.get("kind") == "ndarray-dev" and d.get("rel", 1) == 0):
                return "instruction %d (%s) parameter %s: %s" % (n, s[0].split(".")[-1], k, d.get("detail"))
        if s[3] != (i.condition is not None):
            return "instruction %d condition presence changed" % n
    return None


def strict_snapshot_diff(snap, instructions):
    """As snapshot_diff, but ndarrays must be bit-identical (nothing may touch the original)."""
    d = snapshot_diff(snap, instructions)
    if d:
        return d
    for n, (s, i) in enumerate(zip(snap, instructions)):
        for k, v in s[2].items():
            if isinstance(v, np.ndarray) and not (v.dtype == i.params[k].dtype and np.array_equal(v, i.params[k])):
                return "instruction %d ndarray parameter %s was modified" % (n, k)
    return None


def run_dict(ctx, pq, doc):
    from piquasso.api.instruction import Instruction

    ctx.evals += 1
    ins_docs = doc["ins"]
    if doc.get("conditions"):
        ins_docs = [dict(i, when=c) if c else i for i, c in zip(ins_docs, doc["conditions"])]
    prog = build_program(pq, ins_docs, "ctor")
    orig = list(prog.instructions)
    # ---------- from_dict (the harness writes the dictionary from the document, not from the objects)
    dict_ = {"instructions": [{"type": i["t"], "attributes": {"constructor_kwargs": {k: dec(v) for k, v in i.get("p", {}).items()},
                                                               "modes": list(i.get("m") or [])}} for i in doc["ins"]]}
    try:
        with warnings.catch_warnings():
            warnings.simplefilter("ignore")
            back = pq.Program.from_dict(dict_)
            singles = [Instruction.from_dict(x) for x in dict_["instructions"]]
    except Exception as e:
        ctx.viol("from-dict-raises", "Program.from_dict raised %s: %s" % (type(e).__name__, str(e)[:200]), doc)
        back = None
    if back is not None:
        ctx.inc("dict_roundtrips")
        ctx.inc("dict_params_compared", sum(len(i.params) for i in orig))
        for got, what in ((back.instructions, "Program.from_dict"), (singles, "Instruction.from_dict")):
            diffs = diff_programs(orig, got)
            if diffs:
                d0 = diffs[0]
                ctx.viol("from-dict-%s-changed" % (d0["what"] if d0["what"] != "param" else "param"),
                         "%s does not reproduce the program: %s" % (what, describe(diffs)), doc)
                break
        if not isinstance(back, pq.Program):
            ctx.viol("from-dict-type-changed", "from_dict returned %s" % type(back).__name__, doc)
    for i in orig:
        ctx.by_type[type(i).__name__] = ctx.by_type.get(type(i).__name__, 0) + 1
        ctx.classes.add("dict|%s|%s" % (type(i).__name__, mode_pattern(i.modes)))
    # ---------- execution equality of the from_dict program
    if doc.get("mode") == "exec" and back is not None:
        try:
            with warnings.catch_warnings():
                warnings.simplefilter("ignore")
                a = state_arrays(doc["sim"], build_sim(pq, doc).execute(prog).state)
            o_exc = None
        except Exception as e:
            o_exc = e
        try:
            with warnings.catch_warnings():
                warnings.simplefilter("ignore")
                b = state_arrays(doc["sim"], build_sim(pq, doc).execute(back).state)
            b_exc = None
        except Exception as e:
            b_exc = e
        ctx.inc("dict_executed")
        if o_exc is None and b_exc is None:
            dev = max_state_dev(a, b)
            ctx.mx("max_dict_state_dev_over_tol", dev / (1e3 * EPS))
            if dev > 1e3 * EPS:
                ctx.viol("from-dict-result-differs", "from_dict program executes to a different state (dev %.3g)" % dev, doc)
        elif (o_exc is None) != (b_exc is None):
            ctx.viol("from-dict-execution-differs", "original: %r, from_dict program: %r" % (o_exc, b_exc), doc)
        else:
            ctx.inc("dict_both_raise")
    # ---------- copy
    snap = snapshot(orig)
    try:
        pc = prog.copy()
        ics = [i.copy() for i in orig]
    except Exception as e:
        ctx.viol("copy-raises", "copy raised %s: %s" % (type(e).__name__, str(e)[:200]), doc)
        return
    ctx.inc("copy_checks")
    for got, what in ((pc.instructions, "Program.copy"), (ics, "Instruction.copy")):
        dmsg = snapshot_diff(snap, got)
        if dmsg:
            ctx.viol("copy-differs", "%s does not reproduce the original: %s" % (what, dmsg), doc)
            return
    if type(pc) is not type(prog):
        ctx.viol("copy-differs", "Program.copy returned %s" % type(pc).__name__, doc)
    # conditions keep their meaning
    for a, b in zip(orig, pc.instructions):
        if a.condition is not None:
            for x in ((0,), (1,), (2, 1)):
                try:
                    va = a._is_condition_met(x)
                except Exception:
                    va = "raises"
                try:
                    vb = b._is_condition_met(x)
                except Exception:
                    vb = "raises"
                if va != vb:
                    ctx.viol("copy-differs", "condition of the copy evaluates differently on %r: %r vs %r" % (x, va, vb), doc)
    # the copy is independent: editing it through the public interface leaves the original alone
    for got in (pc.instructions, ics):
        for i in got:
            if i.modes:
                i.on_modes(*reversed(i.modes))
            if "coefficient" in i.params:
                i * 3.0
            for k, v in i.params.items():
                if isinstance(v, np.ndarray) and v.dtype.kind in "fc" and v.size:
                    v.flat[0] += 1.0
                elif isinstance(v, dict) and v:
                    v[next(iter(v))] = 99.0
                elif isinstance(v, list) and v:
                    v[0] = 99.0
    pc.instructions.append(pq.Vacuum())
    dmsg = strict_snapshot_diff(snap, prog.instructions)
    ctx.inc("copy_independence_checks")
    if dmsg:
        ctx.viol("copy-shares-state", "editing a copy changed the original program: %s" % dmsg, doc)
    if len(ctx.samples) < 2:
        ctx.samples.append({"w": "dict", "types": [i["t"] for i in doc["ins"]], "modes": [i.get("m") for i in doc["ins"]]})


def gen_dict_doc(rng):
    r = rng.random()
    if r < 0.25:
        doc = gen_exec_doc(rng, ["gaussian", "passive"][int(rng.integers(0, 2))])  # numba-free simulators: cheap under a cold cache
    else:
        doc = gen_struct_doc(rng, fermionic=r > 0.93)
    doc["w"] = "dict"
    if rng.random() < 0.3 and doc.get("mode") != "exec":
        conds = ["x[0] == 1", "x[-1] > 0", "x[0] + x[-1] == 2"]
        doc["conditions"] = [conds[int(rng.integers(0, 3))] if rng.random() < 0.4 else None for _ in doc["ins"]]
    return doc


# =============================================================================== nesting
NEST_GATES = {"Phaseshifter": 1, "Beamsplitter": 2, "Squeezing": 1, "Fourier": 1, "Kerr": 1, "CrossKerr": 2}


def gen_nest_doc(rng, tier):
    """A DAG of programs: programs[i] may register programs[j], j < i, through pq.Q(reg) | programs[j]."""
    nprog = int(rng.integers(2, 6))
    progs = []
    uid = [0]

    def new_ins(width, like=None):
        r = rng.random()
        uid[0] += 1
        tag = uid[0] / 128.0  # exactly representable identifier carried by a parameter
        if like is None and r < 0.08:
            return {"t": "Vacuum", "m": [], "p": {}}
        if like is None and r < 0.2:
            k = int(rng.integers(1, width + 1))
            u = _exact_unitary(rng, k).astype(complex)
            u = u * np.exp(1j * tag) if rng.random() < 0.5 else u
            return {"t": "Interferometer", "m": ordered_subset(rng, width, k) if rng.random() < 0.9 else [], "p": {"matrix": enc(u)}}
        names = [n for n, a in NEST_GATES.items() if a <= width and (like is None or a == len(like["m"]))]
        if not names:
            return None
        t = names[int(rng.integers(0, len(names)))]
        p = {"Phaseshifter": {"phi": tag}, "Beamsplitter": {"theta": tag, "phi": -tag}, "Squeezing": {"r": 0.1, "phi": tag},
             "Fourier": {}, "Kerr": {"xi": tag}, "CrossKerr": {"xi": tag}}[t]
        return {"t": t, "m": list(like["m"]) if like is not None else ordered_subset(rng, width, NEST_GATES[t]), "p": p}

    for i in range(nprog):
        lvl_ok = [j for j in range(i) if progs[j]["level"] < 3]
        width = int(rng.integers(1, 7))
        items = []
        level = 1
        for _ in range(int(rng.integers(1, 5))):
            cands = [j for j in lvl_ok if progs[j]["width"] <= width]
            if cands and rng.random() < 0.6:
                j = cands[int(rng.integers(0, len(cands)))]
                w = progs[j]["width"]
                r = rng.random()
                if r < 0.08:
                    reg = []
                elif r < 0.14:
                    reg = "all"
                elif r < 0.2 and w == width:
                    reg = list(range(width))
                else:
                    reg = ordered_subset(rng, width, w)
                items.append({"sub": j, "reg": reg, "chain": False})
                if rng.random() < 0.12:  # pq.Q(reg) | inner | inner
                    items.append({"sub": j, "reg": reg, "chain": True})
                level = max(level, progs[j]["level"] + 1)
            else:
                ins = new_ins(width)
                items.append({"ins": ins, "chain": False})
                if rng.random() < 0.15 and ins["m"]:  # pq.Q(m) | a | b
                    twin = new_ins(width, like=ins)
                    if twin is not None:
                        items.append({"ins": twin, "chain": True})
        # the final program always uses at least one earlier program
        if i == nprog - 1 and level == 1:
            if not any(progs[j]["width"] <= width for j in lvl_ok):
                width = max(width, progs[0]["width"])
            cands = [j for j in lvl_ok if progs[j]["width"] <= width]
            j = cands[int(rng.integers(0, len(cands)))]
            k = int(rng.integers(0, len(items) + 1))
            while k < len(items) and items[k]["chain"]:
                k += 1
            items.insert(k, {"sub": j, "reg": ordered_subset(rng, width, progs[j]["width"]), "chain": False})
            level = progs[j]["level"] + 1
        progs.append({"width": width, "items": items, "level": level,
                      "build": ["eager", "eager", "inline", "ctor"][int(rng.integers(0, 4))]})
    return {"w": "nest", "programs": progs}


def map_modes(reg, modes):
    """The harness' own register map: inner modes index into the register, exactly once."""
    if reg == "all" or len(reg) == 0:
        return tuple(modes)
    if len(modes) == 0:
        return tuple(reg)
    return tuple(reg[m] for m in modes)


def expected_flat(doc, i, memo):
    if i in memo:
        return memo[i]
    out = []
    for it in doc["programs"][i]["items"]:
        if "ins" in it:
            out.append((it["ins"], tuple(it["ins"]["m"])))
        else:
            for idoc, modes in expected_flat(doc, it["sub"], memo):
                out.append((idoc, map_modes(it["reg"], modes)))
    memo[i] = out
    return out


def run_nest(ctx, pq, doc):
    from piquasso.core import _context

    ctx.evals += 1
    progs = doc["programs"]
    built = {}
    snaps = {}
    memo = {}

    def q(reg):
        return pq.Q(all) if reg == "all" else pq.Q(*reg)

    def get(i):
        if i in built:
            return built[i]
        p = progs[i]
        has_sub = any("sub" in it for it in p["items"])
        if p["build"] == "ctor" and not has_sub:
            prog = pq.Program(instructions=[build_ins(pq, it["ins"]) for it in p["items"]])
        else:
            for it in p["items"]:
                if "sub" in it and progs[it["sub"]]["build"] != "inline":
                    get(it["sub"])  # built outside the with-block of the parent
            with pq.Program() as prog:
                prev_q = None
                for it in p["items"]:
                    # an 'inline' child is created here, inside the parent's with-block (nested program stack)
                    rhs = get(it["sub"]) if "sub" in it else build_ins(pq, it["ins"], with_modes=False)
                    reg = it["reg"] if "sub" in it else it["ins"]["m"]
                    if it.get("chain") and prev_q is not None:
                        prev_q = prev_q | rhs  # pq.Q(...) | a | b
                        ctx.inc("nest_chained_registrations")
                    else:
                        prev_q = q(reg) | rhs
        built[i] = prog
        snaps[i] = snapshot(prog.instructions)
        return prog

    try:
        for i in range(len(progs)):
            if progs[i]["build"] != "inline":
                get(i)
        for i in range(len(progs)):
            get(i)
    except Exception as e:
        del _context.program_stack[:]
        ctx.viol("nesting-raises", "registering nested programs raised %s: %s" % (type(e).__name__, str(e)[:200]), doc)
        return
    if _context.program_stack:
        ctx.viol("nesting-program-stack-leak", "program stack not empty after all with-blocks closed: %d" % len(_context.program_stack), doc)
        del _context.program_stack[:]
    ctx.inc("nest_programs", len(progs))
    for i in range(len(progs)):
        exp = expected_flat(doc, i, memo)
        got = built[i].instructions
        level = progs[i]["level"]
        regs = sorted({("all" if it["reg"] == "all" else ("empty" if not it["reg"] else mode_pattern(it["reg"])))
                       for it in progs[i]["items"] if "sub" in it})
        if level > 1:
            ctx.classes.add("nest|L%d|w%d|%s|%s" % (level, progs[i]["width"], ",".join(regs), progs[i]["build"]))
            ctx.inc("nest_depth_%d" % level)
        if len(exp) != len(got):
            ctx.viol("nesting-instruction-count", "program %d: %d instructions after flattening, expected %d" % (i, len(got), len(exp)), doc)
            continue
        for n, ((idoc, modes), ins) in enumerate(zip(exp, got)):
            if level > 1:
                ctx.inc("nest_instructions_compared")
            ref = build_ins(pq, idoc, with_modes=False)
            if type(ins) is not type(ref):
                ctx.viol("nesting-instruction-order", "program %d position %d holds %s, expected %s" % (i, n, type(ins).__name__, idoc["t"]), doc)
                break
            if any(diff_value(ref.params[k], ins.params.get(k)) for k in ref.params):
                ctx.viol("nesting-params-changed", "program %d position %d (%s): parameters %r, expected %r" % (
                    i, n, idoc["t"], {k: str(v)[:40] for k, v in ins.params.items()}, {k: str(v)[:40] for k, v in ref.params.items()}), doc)
                break
            gm = tuple(int(m) for m in ins.modes)
            if gm != tuple(modes):
                mech = "nesting-modes-wrong"
                # was the register applied twice / not at all?  (diagnostic only; same mechanism family)
                ctx.viol(mech, "program %d (depth %d) position %d (%s): modes %s, composition of the register maps gives %s" % (
                    i, level, n, idoc["t"], gm, tuple(modes)), doc)
                break
    # inner programs are unchanged by having been registered (possibly several times, in several parents)
    used = {}
    for i in range(len(progs)):
        for it in progs[i]["items"]:
            if "sub" in it:
                used[it["sub"]] = used.get(it["sub"], 0) + 1
    for j, cnt in used.items():
        ctx.inc("nest_inner_unchanged_checks")
        if cnt > 1:
            ctx.inc("nest_reused_inner_programs")
        dmsg = strict_snapshot_diff(snaps[j], built[j].instructions)
        if dmsg:
            ctx.viol("nesting-inner-program-modified", "inner program %d changed after being registered %d time(s): %s" % (j, cnt, dmsg), doc)
    # no instruction object is shared between a parent and a child with a non-trivial register
    if len(ctx.samples) < 2:
        top = len(progs) - 1
        ctx.samples.append({"w": "nest", "depth": progs[top]["level"],
                            "flattened": [[type(i).__name__, list(i.modes)] for i in built[top].instructions][:8]})


# =============================================================================== preparation algebra
def _scalar(rng, nonzero=True):
    r = int(rng.integers(0, 8))
    mag = float(rng.uniform(0.25, 3.0)) * (1 if rng.random() < 0.5 else -1)
    if r == 0:
        return mag
    if r == 1:
        return int(rng.choice([-3, -2, -1, 2, 3, 4]))
    if r in (2, 3):
        return complex(mag, float(rng.uniform(-2, 2)))
    if r == 4:
        return np.float64(mag)
    if r == 5:
        return np.complex128(complex(mag, float(rng.uniform(-2, 2))))
    if r == 6:
        return np.int64(rng.choice([-3, -2, 2, 3]))
    return complex(0.0, mag)


def gen_prep_doc(rng, tier):
    d = int(rng.integers(1, 4))
    nmax = 3
    pool = []
    while len(pool) < int(rng.integers(2, 5)):
        o = _occ(rng, d, nmax)
        if o not in pool:
            pool.append(o)
        if d == 1 and len(pool) >= 4:
            break
    single_sv = rng.random() < 0.08

    def leaf():
        if single_sv:
            if rng.random() < 0.5:
                return {"k": "S", "occ": pool[0], "c": enc(_scalar(rng)) if rng.random() < 0.5 else None}
            occs = [pool[int(i)] for i in rng.choice(len(pool), size=min(len(pool), int(rng.integers(1, 3))), replace=False)]
            return {"k": "S", "map": [[o, enc(_scalar(rng))] for o in occs], "c": enc(_scalar(rng)) if rng.random() < 0.5 else None}
        if rng.random() < 0.55:
            return {"k": "N", "occ": pool[int(rng.integers(0, len(pool)))], "c": enc(_scalar(rng)) if rng.random() < 0.5 else None}
        occs = [pool[int(i)] for i in rng.choice(len(pool), size=min(len(pool), int(rng.integers(1, 4))), replace=False)]
        return {"k": "F", "map": [[o, enc(_scalar(rng))] for o in occs], "c": enc(_scalar(rng)) if rng.random() < 0.4 else None}

    def wrap(node):
        while rng.random() < 0.4:
            op = ["lmul", "rmul", "div"][int(rng.integers(0, 3))]
            node = {"op": op, "s": enc(_scalar(rng)), "x": node}
        return node

    def tree(n):
        if n == 1:
            return wrap(leaf())
        k = int(rng.integers(1, n))
        return wrap({"op": "add", "l": tree(k), "r": tree(n - k)})

    nleaves = 1 if single_sv else int(rng.integers(1, 6))
    t = tree(nleaves)
    reg = None
    dd = d
    if rng.random() < 0.3:
        dd = d + int(rng.integers(0, 3))
        reg = ordered_subset(rng, dd, d)
    return {"w": "prep", "d": dd, "k": d, "cutoff": nmax + 2, "reg": reg, "tree": t, "vseed": int(rng.integers(0, 2 ** 31))}


def prep_variants(tree, vrng):
    """Algebraically equal rewritings of a tree: (name, tree)."""
    import copy as _copy

    out = []

    def nodes(t, path=()):
        yield path, t
        if "op" in t:
            if t["op"] == "add":
                yield from nodes(t["l"], path + ("l",))
                yield from nodes(t["r"], path + ("r",))
            else:
                yield from nodes(t["x"], path + ("x",))

    def replace(t, path, new):
        t = _copy.deepcopy(t)
        if not path:
            return new
        cur = t
        for p in path[:-1]:
            cur = cur[p]
        cur[path[-1]] = new
        return t

    allnodes = list(nodes(tree))
    adds = [(p, n) for p, n in allnodes if n.get("op") == "add"]
    if adds:
        # commute every addition
        def comm_all(t):
            if "op" not in t:
                return _copy.deepcopy(t)
            if t["op"] == "add":
                return {"op": "add", "l": comm_all(t["r"]), "r": comm_all(t["l"])}
            return {"op": t["op"], "s": t["s"], "x": comm_all(t["x"])}

        out.append(("commute-all", comm_all(tree)))
        p, n = adds[int(vrng.integers(0, len(adds)))]
        out.append(("commute-one", replace(tree, p, {"op": "add", "l": _copy.deepcopy(n["r"]), "r": _copy.deepcopy(n["l"])})))
    for p, n in adds:
        if n["l"].get("op") == "add":  # (a+b)+c -> a+(b+c)
            a, b, c = n["l"]["l"], n["l"]["r"], n["r"]
            out.append(("assoc-right", replace(tree, p, {"op": "add", "l": _copy.deepcopy(a), "r": {"op": "add", "l": _copy.deepcopy(b), "r": _copy.deepcopy(c)}})))
            break
    for p, n in adds:
        if n["r"].get("op") == "add":  # a+(b+c) -> (a+b)+c
            a, b, c = n["l"], n["r"]["l"], n["r"]["r"]
            out.append(("assoc-left", replace(tree, p, {"op": "add", "l": {"op": "add", "l": _copy.deepcopy(a), "r": _copy.deepcopy(b)}, "r": _copy.deepcopy(c)})))
            break
    for p, n in allnodes:
        if n.get("op") in ("lmul", "rmul", "div") and n["x"].get("op") == "add":  # s*(a+b) -> s*a + s*b
            x = n["x"]
            out.append(("distribute", replace(tree, p, {"op": "add", "l": {"op": n["op"], "s": n["s"], "x": _copy.deepcopy(x["l"])},
                                                         "r": {"op": n["op"], "s": n["s"], "x": _copy.deepcopy(x["r"])}})))
            break
    muls = [(p, n) for p, n in allnodes if n.get("op") in ("lmul", "rmul")]
    if muls:
        p, n = muls[int(vrng.integers(0, len(muls)))]
        out.append(("swap-side", replace(tree, p, {"op": "rmul" if n["op"] == "lmul" else "lmul", "s": n["s"], "x": _copy.deepcopy(n["x"])})))
    divs = [(p, n) for p, n in allnodes if n.get("op") == "div"]
    if divs:
        p, n = divs[0]
        out.append(("div-as-mul", replace(tree, p, {"op": "rmul", "s": enc(1 / dec(n["s"])), "x": _copy.deepcopy(n["x"])})))
    return out


def prep_build(pq, t):
    """The real objects, from fresh leaves."""
    if "op" not in t:
        c = {} if t.get("c") is None else {"coefficient": dec(t["c"])}
        with warnings.catch_warnings():
            warnings.simplefilter("ignore")
            if t["k"] == "N":
                return pq.NumberState(list(t["occ"]), **c)
            if t["k"] == "F":
                return pq.FockStateVector({tuple(o): dec(a) for o, a in t["map"]}, **c)
            if "occ" in t:
                return pq.StateVector(tuple(t["occ"]), **c)
            return pq.StateVector(fock_amplitude_map={tuple(o): dec(a) for o, a in t["map"]}, **c)
    if t["op"] == "add":
        return prep_build(pq, t["l"]) + prep_build(pq, t["r"])
    x = prep_build(pq, t["x"])
    s = dec(t["s"])
    if t["op"] == "lmul":
        return s * x
    if t["op"] == "rmul":
        return x * s
    return x / s


def prep_eval(t, drop_rhs_coefficient=False):
    """Dict-based linear algebra: occupation -> [amplitude, sum of |terms|].

    With drop_rhs_coefficient the model reproduces one specific suspected defect (NumberState + FockStateVector
    forgetting the pending scalar factor of the right operand); it is used only to *name* a mismatch.
    Returns (dict, representation) where representation is ('N'|'F', pending coefficient) as piquasso keeps it."""
    if "op" not in t:
        c = complex(1.0) if t.get("c") is None else complex(dec(t["c"]))
        if "occ" in t and "map" not in t:
            return {tuple(t["occ"]): [c, abs(c)]}, ("N", c)
        m = {}
        for o, a in t["map"]:
            a = complex(dec(a))
            m[tuple(o)] = [a * c, abs(a * c)]
        return m, ("F", c)
    if t["op"] == "add":
        l, lrep = prep_eval(t["l"], drop_rhs_coefficient)
        r, rrep = prep_eval(t["r"], drop_rhs_coefficient)
        if drop_rhs_coefficient and lrep[0] == "N" and rrep[0] == "F" and rrep[1] != 0:
            r = {k: [v[0] / rrep[1], v[1] / abs(rrep[1])] for k, v in r.items()}
        out = {k: list(v) for k, v in l.items()}
        for k, v in r.items():
            if k in out:
                out[k] = [out[k][0] + v[0], out[k][1] + v[1]]
            else:
                out[k] = list(v)
        if lrep[0] == "N" and rrep[0] == "N" and len(out) == 1:
            return out, ("N", out[next(iter(out))][0])
        return out, ("F", complex(1.0))
    x, rep = prep_eval(t["x"], drop_rhs_coefficient)
    s = complex(dec(t["s"]))
    if t["op"] == "div":
        s = 1 / s
    return {k: [v[0] * s, v[1] * abs(s)] for k, v in x.items()}, (rep[0], rep[1] * s)


def tree_signature(t):
    if "op" not in t:
        return t["k"] + ("c" if t.get("c") is not None else "")
    if t["op"] == "add":
        return "(%s+%s)" % (tree_signature(t["l"]), tree_signature(t["r"]))
    return {"lmul": "s*%s", "rmul": "%s*s", "div": "%s/s"}[t["op"]] % tree_signature(t["x"])


def scalar_kinds(t, acc):
    if "op" in t:
        if t["op"] == "add":
            scalar_kinds(t["l"], acc)
            scalar_kinds(t["r"], acc)
        else:
            acc.add(kind_of(dec(t["s"])))
            scalar_kinds(t["x"], acc)
    return acc


def prepared_amplitudes(pq, doc, ins):
    from piquasso._math.fock import get_fock_space_basis

    if doc.get("reg"):
        ins = ins.on_modes(*doc["reg"])
    sim = pq.PureFockSimulator(d=doc["d"], config=pq.Config(cutoff=doc["cutoff"]))
    with warnings.catch_warnings():
        warnings.simplefilter("ignore")
        state = sim.execute(pq.Program(instructions=[ins])).state
    basis = np.asarray(get_fock_space_basis(doc["d"], doc["cutoff"]))
    vec = np.asarray(state.state_vector)
    return {tuple(int(x) for x in row): complex(a) for row, a in zip(basis, vec)}


def embed(doc, occ):
    if not doc.get("reg"):
        return tuple(occ)
    full = [0] * doc["d"]
    for m, n in zip(doc["reg"], occ):
        full[m] = n
    return tuple(full)


def _mismatch(doc, model, got):
    """(worst deviation / tolerance, occupation) of prepared amplitudes vs a model dict."""
    worst, where = 0.0, None
    exp = {embed(doc, k): v for k, v in model.items()}
    for occ, a in got.items():
        e, mag = exp.get(occ, [0j, 0.0])
        tol = 64 * EPS * max(mag, abs(e)) + 1e-300
        r = abs(a - e) / tol
        if r > worst:
            worst, where = r, occ
    return worst, where


def run_prep(ctx, pq, doc):
    ctx.evals += 1
    vrng = np.random.default_rng([18, int(doc.get("vseed", 0))])
    variants = [("base", doc["tree"])] + prep_variants(doc["tree"], vrng)
    ctx.inc("prep_trees")
    results = []
    any_bad = False
    for name, t in variants:
        model, _ = prep_eval(t)
        try:
            ins = prep_build(pq, t)
            got = prepared_amplitudes(pq, doc, ins)
        except Exception as e:
            ctx.viol("preparation-operator-raises", "variant %s of %s raised %s: %s" % (name, tree_signature(t), type(e).__name__, str(e)[:160]),
                     dict(doc, variant=name))
            any_bad = True
            continue
        ctx.inc("prep_variants_prepared")
        ctx.inc("prep_amplitudes_compared", len(got))
        worst, where = _mismatch(doc, model, got)
        results.append((name, t, got, worst))
        if worst <= 1:
            ctx.mx("max_prep_dev_over_tol", worst)
            continue
        any_bad = True
        buggy, _ = prep_eval(t, drop_rhs_coefficient=True)
        w2, _ = _mismatch(doc, buggy, got)
        exp = {embed(doc, k): v for k, v in model.items()}
        mech = "preparation-add-ignores-coefficient" if w2 <= 1 else "preparation-amplitudes-differ"
        ctx.viol(mech, "%s (variant %s) prepares amplitude %s at %s, linear algebra gives %s%s" % (
            tree_signature(t), name, got[where], where, exp.get(where, [0j])[0],
            " [reproduced by: NumberState + FockStateVector drops the right operand's coefficient]" if w2 <= 1 else ""),
            dict(doc, variant=name))
    # variants must prepare the same state as the base tree
    if results and results[0][0] == "base":
        base = results[0][2]
        bmodel, _ = prep_eval(doc["tree"])
        scale = max([v[1] for v in bmodel.values()] + [1e-300])
        for name, t, got, worst in results[1:]:
            ctx.inc("prep_variant_pairs")
            dev = max(abs(got[k] - base[k]) for k in base)
            if dev > 128 * EPS * scale and worst <= 1 and results[0][3] <= 1:
                ctx.viol("preparation-variants-differ", "%s and its %s variant %s prepare states differing by %.3g" % (
                    tree_signature(doc["tree"]), name, tree_signature(t), dev), dict(doc, variant=name))
            elif dev > 128 * EPS * scale:
                ctx.inc("prep_variant_pairs_disagreeing")
    kinds = sorted(scalar_kinds(doc["tree"], set()))
    ctx.classes.add("prep|%s|d%d|%s" % (tree_signature(doc["tree"])[:80], doc["k"], "reg" if doc.get("reg") else "all"))
    for k in kinds:
        ctx.classes.add("prep-scalar|" + k)
    if len(ctx.samples) < 2 and not any_bad and len(variants) > 2:
        ctx.samples.append({"w": "prep", "tree": tree_signature(doc["tree"]), "variants": [n for n, _ in variants],
                            "amplitudes": {str(k): [v.real, v.imag] for k, v in results[0][2].items() if v != 0}})


# =============================================================================== fixed probes (observations only)
def observe_outside_quantifier(ctx, pq):
    """Behaviour the property does not quantify over: recorded, never a violation."""
    sim = pq.PureFockSimulator(d=2, config=pq.Config(cutoff=3))
    cases = {
        "expression-string parameter": lambda: pq.Program(instructions=[pq.NumberState([1, 0]), pq.Phaseshifter(phi="x[0]").on_modes(0)]),
        "conditioned instruction": lambda: pq.Program(instructions=[pq.NumberState([1, 0]), pq.Phaseshifter(phi=0.1).on_modes(0).when("x[0] == 1")]),
        "BatchPrepare": lambda: pq.Program(instructions=[pq.BatchPrepare([pq.Program(instructions=[pq.NumberState([1, 0])])])]),
    }
    for name, mk in cases.items():
        ctx.inc("outside_quantifier_probes")
        try:
            code = pq.as_code(mk(), sim)
        except Exception as e:
            ctx.obs.add("as_code on a program with a %s raises %s (declared refusal)" % (name, type(e).__name__))
            continue
        try:
            ns = {}
            exec(compile(code.rsplit("\nresult = ", 1)[0], "<as_code>", "exec"), ns)
            ctx.obs.add("as_code on a program with a %s: emitted code runs" % name)
        except Exception as e:
            ctx.obs.add("as_code on a program with a %s emits code that does not run (%s) - outside the property's quantifier" % (name, type(e).__name__))
    try:
        s2 = pq.PureFockSimulator(d=2, connector=pq.JaxConnector())
        ns = {}
        exec(compile(pq.as_code(pq.Program(instructions=[pq.Vacuum()]), s2).rsplit("\nresult = ", 1)[0], "<as_code>", "exec"), ns)
        if type(ns["simulator"]._connector) is not type(s2._connector):
            ctx.obs.add("as_code does not emit the simulator's connector (JaxConnector comes back as %s) - not part of the statement" % type(ns["simulator"]._connector).__name__)
    except Exception as e:
        ctx.obs.add("connector probe raised %s" % type(e).__name__)
    for name, mk in {"StateVector + StateVector": lambda: pq.StateVector([1, 0]) + pq.StateVector([0, 1]),
                     "DensityMatrix + DensityMatrix (shown in its docstring)": lambda: 0.2 * pq.DensityMatrix(ket=(1, 0), bra=(1, 0)) + 0.3 * pq.DensityMatrix(ket=(0, 1), bra=(0, 1))}.items():
        try:
            with warnings.catch_warnings():
                warnings.simplefilter("ignore")
                mk()
            ctx.obs.add("%s is supported" % name)
        except TypeError:
            ctx.obs.add("%s raises TypeError: these classes share only scalar * and / with NumberState/FockStateVector" % name)


def large_matrix_doc(rng):
    """One interferometer above numpy's summarisation threshold (1000 elements)."""
    from vf.gen import matrices as M

    k = 32
    u = M.haar_unitary(rng, k)
    return {"w": "ascode", "mode": "struct", "sim": "gaussian", "d": k, "config": None, "shots": 1, "style": "ctor",
            "ins": [{"t": "Vacuum", "m": [], "p": {}}, {"t": "Interferometer", "m": list(range(k)), "p": {"matrix": enc(u)}}]}


# =============================================================================== protocol
RUNNERS = {"bb": run_bb, "ascode": run_ascode, "dict": run_dict, "nest": run_nest, "prep": run_prep}


def plan(tier, seed):
    q = tier == "quick"
    specs = []
    sh = 0
    for i in range(2 if q else 4):
        specs.append({"name": "bb-%d" % i, "kind": "bb", "shard": sh, "count": 2000 if q else 20000})
        sh += 1
    for i in range(3 if q else 6):
        specs.append({"name": "ascode-struct-%d" % i, "kind": "ascode-struct", "shard": sh, "count": 500 if q else 4000})
        sh += 1
    for i, s in enumerate(["gaussian", "passive", "purefock", "fock"]):
        specs.append({"name": "ascode-exec-%s" % s, "kind": "ascode-exec", "sim": s, "shard": sh,
                      "count": {"gaussian": 250, "passive": 250, "purefock": 60, "fock": 30}[s] * (1 if q else 8)})
        sh += 1
    for i in range(2 if q else 4):
        specs.append({"name": "dict-%d" % i, "kind": "dict", "shard": sh, "count": 500 if q else 4000})
        sh += 1
    for i in range(2 if q else 4):
        specs.append({"name": "nest-%d" % i, "kind": "nest", "shard": sh, "count": 1200 if q else 12000})
        sh += 1
    for i in range(2 if q else 4):
        specs.append({"name": "prep-%d" % i, "kind": "prep", "shard": sh, "count": 1200 if q else 12000})
        sh += 1
    return specs


def _roundtrip_json(doc):
    import json

    return json.loads(json.dumps(doc))


def run_shard(spec):
    from vf import boot

    pq = boot.import_piquasso()
    rng = np.random.default_rng([int(spec["seed"]), 18, int(spec["shard"])])
    ctx = Ctx()
    tier = spec["tier"]
    t0 = time.time()
    budget = 400 if tier == "quick" else 2400
    kind = spec["kind"]
    n = int(spec["count"])
    if kind == "ascode-struct" and int(spec["shard"]) % 3 == 2:
        observe_outside_quantifier(ctx, pq)
        run_ascode(ctx, pq, _roundtrip_json(large_matrix_doc(rng)))
        ctx.inc("ascode_large_matrix_cases")
    for i in range(n):
        if time.time() - t0 > budget:
            ctx.obs.add("shard of kind %s stopped by its time budget after %d of %d cases" % (kind, i, n))
            break
        if kind == "bb":
            doc = gen_bb_doc(rng, tier)
        elif kind == "ascode-struct":
            doc = gen_struct_doc(rng, fermionic=rng.random() < 0.04)
        elif kind == "ascode-exec":
            doc = gen_exec_doc(rng, spec["sim"])
        elif kind == "dict":
            doc = gen_dict_doc(rng)
        elif kind == "nest":
            doc = gen_nest_doc(rng, tier)
        else:
            doc = gen_prep_doc(rng, tier)
        doc = _roundtrip_json(doc)  # what is run is exactly what a replay file would contain
        RUNNERS[doc["w"]](ctx, pq, doc)
    return ctx.result()


def replay(case):
    from vf import boot

    pq = boot.import_piquasso()
    ctx = Ctx()
    RUNNERS[case["w"]](ctx, pq, case)
    return ctx.violations
