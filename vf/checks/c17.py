"""C17 - the fermionic simulators agree with each other and with exclusion.

Monitor : step hook (vf/monitors/stephook.py). After EVERY instruction of every execute the
          state handed on by the step is observed through its public, occupation-keyed
          interfaces (covariance_matrix, correlation_matrix, get_particle_detection_probability
          for every 0/1 occupation, fock_probabilities_map) and the conservation laws are
          checked between consecutive observations.
Oracles : (a) differential fermionic GaussianSimulator vs fermionic PureFockSimulator, step by step;
          (b) third opinion: dense 2^d Jordan-Wigner reference (vf/refs/fermion_jw.py), gates as
              expm of the documented Hamiltonians;
          (c) invariants: probabilities in [0,1] summing to 1, occupation keys 0/1 only, parity
              distribution conserved by every gate, particle-number distribution conserved by passive
              gates, covariance real skew-symmetric with singular values <= 1, Gaussian correlation
              matrix self-adjoint with spectrum in [0,1]; measured samples are 0/1 and possible.
"""

import time

import numpy as np

from vf.gen import matrices as M
from vf.gen import programs as P

ID = "C17"
LEVEL = "exploration"
TECHNIQUE = ("runtime monitoring: step hook observes the fermionic Gaussian and Fock states after every instruction; "
             "differential oracle between the two simulators plus an independent dense Jordan-Wigner reference; "
             "conservation-law invariants between consecutive observations")
DESIGN_REF = "DESIGN.md §4 C17"
LEVEL_TEXT = (
    "Random occupation inputs on d<=5 modes and random sequences (1-8) of Interferometer (Haar and structured, on "
    "consecutive windows at every offset), Beamsplitter, Phaseshifter, Squeezing2 and IsingXX are executed on both "
    "simulators (Fock cutoff d+1, and smaller cutoffs when the program provably stays below the cutoff); "
    "GaussianHamiltonian (arbitrary ordered mode subsets) and ParentHamiltonian programs on the Gaussian simulator. "
    "After every instruction both states are compared with each other and with a 2^d Jordan-Wigner reference, and "
    "the conservation laws are checked. Held = no disagreement on the programs generated."
)
LEVEL_NOTE = (
    "Trusts the 2^d reference in vf/refs/fermion_jw.py (self-checked: CAR, documented Squeezing2 action, expm vs "
    "Slater determinants) and numpy/scipy linear algebra; only the NumPy connector; d<=5; programs outside the "
    "generators are not covered."
)
RULE = (
    "cases = one per generated program (kind diff: both simulators + reference; kind cut: reduced Fock cutoff; kind "
    "gauss: Gaussian simulator + reference with GaussianHamiltonian / ParentHamiltonian). distinct_nontrivial = number "
    "of distinct (kind, d, cutoff, particle number of the input, sorted gate-type multiset, set of gate offsets, "
    "preparation) classes among cases with at least one gate whose every step reached the deciding comparison."
)
ASSUMPTIONS = [
    "vf/refs/fermion_jw.py implements the documented conventions (JW strings of _embed_f, Majorana x=f+f^+, p=-i(f-f^+), "
    "passive gates f -> U f, documented Squeezing2 action on |00>,|11>, IsingXX = exp(i phi (-i m_2 m_3)))",
    "GaussianHamiltonian uses c=[f, f^+] (get_fermionic_hamiltonian docstring), ParentHamiltonian uses c=[f^+, f] (package docstring)",
    "covariance matrices are compared in xpxp ordering, the ordering both simulators return",
    "an exception raised by one simulator on a program built only from gates in both instruction maps, on consecutive "
    "ascending modes at cutoff d+1, counts as a disagreement",
]
REQUIRED = ["diff_cases", "cut_cases", "gauss_cases", "hook_steps_gaussian", "hook_steps_fock", "cov_comparisons",
            "prob_comparisons", "reference_comparisons", "parity_checks", "number_checks", "spectrum_checks",
            "occupation_key_checks", "measured_samples"]
WATCHDOG = {"quick": 900, "thorough": 3600}

EPS = float(np.finfo(np.float64).eps)
PASSIVE = ("Interferometer", "Beamsplitter", "Phaseshifter")
COMMON_GATES = ("Interferometer", "Beamsplitter", "Phaseshifter", "Squeezing2", "IsingXX")


# ------------------------------------------------------------------ context
class Ctx:
    def __init__(self):
        self.violations = []
        self.c = {k: 0 for k in REQUIRED}
        self.c.update({"max_dev_over_tol": 0.0, "simulator_exceptions": 0, "parent_refused": 0,
                       "fock_covariance_unavailable_small_cutoff": 0, "gates_by_type": {}, "cutoffs_seen": {},
                       "d_seen": {}, "offsets_seen": {}, "unitary_kinds": {}, "preparations": {}, "program_lengths": {}})
        self.classes = set()
        self.samples = []
        self.evals = 0
        self.obs = set()
        self.stage = "other"

    def viol(self, mech, msg, case):
        if len(self.violations) < 120:
            self.violations.append({"mechanism": mech, "message": msg, "case": case})

    def dev(self, value, tol):
        r = float(value) / tol
        if r > self.c["max_dev_over_tol"]:
            self.c["max_dev_over_tol"] = r
        k = "max_dev_over_tol_" + self.stage
        if r > self.c.get(k, 0.0):
            self.c[k] = r
        return value > tol

    def bump(self, name, key):
        d = self.c[name]
        d[str(key)] = d.get(str(key), 0) + 1


# ------------------------------------------------------------------ program documents
def build_instruction(pq, idoc):
    t = idoc["t"]
    cls = getattr(pq, t, None) or getattr(pq.fermionic, t)
    params = {k: (M.dec(v) if isinstance(v, dict) else v) for k, v in idoc.get("p", {}).items()}
    ins = cls(**params)
    if idoc.get("m") is not None:
        ins = ins.on_modes(*idoc["m"])
    return ins


def prep_doc(case):
    prep = case["prep"]
    if prep == "Parent":
        return {"t": "ParentHamiltonian", "m": None, "p": {"hamiltonian": case["parent"]}}
    if prep == "Vacuum":
        return {"t": "Vacuum", "m": None, "p": {}}
    return {"t": prep, "m": None, "p": {"occupation_numbers": list(case["occ"])}}


def build_program(pq, case):
    docs = [prep_doc(case)] + list(case["ins"])
    if case.get("measure"):
        docs.append({"t": "ParticleNumberMeasurement", "m": None, "p": {}})
    return pq.Program(instructions=[build_instruction(pq, d) for d in docs])


_WCACHE = {"case": None, "cum": None}


def _cumulative_weights(case):
    """1 per instruction plus the size of its generator: the rounding error of expm(X) / of a rotation by
    an angle grows with |X| (GaussianHamiltonian: eigen-angles 2 |H|; gates: |angle|)."""
    if _WCACHE["case"] is not case:
        w = [1.0]
        for i in case["ins"]:
            p = i["p"]
            if i["t"] == "GaussianHamiltonian":
                g = 2 * float(np.linalg.norm(M.dec(p["hamiltonian"]), 2))
            elif i["t"] == "Interferometer":
                g = np.pi
            else:
                g = sum(abs(float(v)) for v in p.values())
            w.append(w[-1] + 1.0 + g)
        _WCACHE["case"], _WCACHE["cum"] = case, w
    return _WCACHE["cum"]


def tolerance(case, step):
    """c * eps * (2d)^2 * (1 + sum over the instructions so far of (1 + generator size)), c = 1e3;
    ParentHamiltonian states carry the conditioning of inv(1 + exp(2H)) (condition number <= exp(2 |H|))."""
    d = case["d"]
    cum = _cumulative_weights(case)
    tol = 1e3 * EPS * (2 * d) ** 2 * cum[min(step, len(cum) - 1)]
    if case["prep"] == "Parent":
        tol *= 10 * np.exp(2 * case["parent_norm"])
    return tol


# ------------------------------------------------------------------ observing a state
def _occupations(d):
    from vf.refs import fermion_jw as R

    return R.occupations(d)


def observe(state, ctx, simname, d):
    """Everything the property talks about, read through public occupation-keyed interfaces."""
    snap = {"sim": simname}
    occs = _occupations(d)
    if simname == "gaussian":
        snap["cov"] = np.array(state.covariance_matrix)
        snap["corr"] = np.array(state.correlation_matrix)
        snap["mean_n"] = np.array(state.mean_particle_numbers(tuple(range(d))))
        snap["probs"] = {o: complex(state.get_particle_detection_probability(np.array(o, dtype=int))) for o in occs}
        snap["cutoff"] = d + 1
    else:
        cutoff = int(state._config.cutoff)
        snap["cutoff"] = cutoff
        if cutoff == d + 1:
            snap["cov"] = np.array(state.covariance_matrix)
        else:
            ctx.c["fock_covariance_unavailable_small_cutoff"] += 1
        pmap = state.fock_probabilities_map
        snap["keys"] = list(pmap.keys())
        snap["map"] = {tuple(int(x) for x in k): complex(v) for k, v in pmap.items()}
        snap["probs"] = {o: complex(state.get_particle_detection_probability(np.array(o, dtype=int)))
                         for o in occs if sum(o) < cutoff}
    return snap


def number_distribution(probs, d):
    out = np.zeros(d + 1)
    for o, p in probs.items():
        out[sum(o)] += p.real
    return out


class Monitor:
    """Step-hook subscriber: observes the state after every instruction and checks the invariants."""

    def __init__(self, pq, ctx):
        from piquasso.api.instruction import Preparation, Gate, Measurement

        self.Preparation, self.Gate, self.Measurement = Preparation, Gate, Measurement
        self.ctx = ctx
        self.case = None
        self.simname = None
        self.snaps = []     # one entry per state-carrying instruction: (gate name, snapshot)
        self.ref_final = None
        self.active = False

    def begin(self, case, simname, ref_final_probs):
        self.case, self.simname, self.snaps, self.ref_final, self.active = case, simname, [], ref_final_probs, True
        self.harness_error = None
        self.flagged = set()

    def end(self):
        self.active = False

    def on_step_post(self, run, index, instruction, state, shots, subbranches, exc):
        if not self.active or exc is not None or run.depth != 0:
            return
        try:
            self._post(instruction, state, subbranches)
        except BaseException:  # a bug of the monitor must not look like a simulator exception
            import traceback

            self.harness_error = traceback.format_exc()
            self.active = False

    def _post(self, instruction, state, subbranches):
        ctx, case, sim = self.ctx, self.case, self.simname
        d = case["d"]
        name = type(instruction).__name__
        ctx.c["hook_steps_" + sim] += 1
        if isinstance(instruction, self.Measurement):
            self._check_samples(name, subbranches)
            return
        new_state = subbranches[0].state if subbranches else state
        step = len(self.snaps)
        tol = tolerance(case, step)
        try:
            snap = observe(new_state, ctx, sim, d)
        except Exception as e:  # the observables are code under test
            ctx.viol("%s:%s:observable-raises-%s" % (sim, name, type(e).__name__),
                     "%s after instruction %d (%s): reading covariance/probabilities raised %s: %s" % (
                         sim, step, name, type(e).__name__, str(e)[:200]), case)
            self.active = False
            return
        prev = self.snaps[-1][1] if self.snaps else None
        self.snaps.append((name, snap))
        self._invariants(name, step, snap, prev, tol, isinstance(instruction, self.Gate))

    def _first(self, mech, msg, case):
        """State invariants: report the first instruction after which one fails (later states inherit it)."""
        key = mech.split(":")[2]
        if key not in self.flagged:
            self.flagged.add(key)
            self.ctx.viol(mech, msg, case)

    # -- invariants (c)
    def _invariants(self, gate, step, snap, prev, tol, is_gate):
        ctx, case, sim = self.ctx, self.case, self.simname
        d = case["d"]
        where = "%s after instruction %d (%s)" % (sim, step, gate)
        ctx.stage = "invariants_%s_%s" % (sim, "mixed" if case["prep"] == "Parent" else "pure")
        probs = snap["probs"]
        vals = np.array(list(probs.values()))
        if not np.all(np.isfinite(vals)):
            self._first("%s:%s:probability-not-finite" % (sim, gate), "%s: a detection probability is nan/inf" % where, case)
            return
        if ctx.dev(np.abs(vals.imag).max(), tol) or ctx.dev(max(0.0, -vals.real.min(), vals.real.max() - 1), tol):
            self._first("%s:%s:probability-outside-unit-interval" % (sim, gate),
                     "%s: detection probabilities range over [%r, %r], max |imag| %.3g (tol %.2g)" % (
                         where, float(vals.real.min()), float(vals.real.max()), np.abs(vals.imag).max(), tol), case)
        total = float(vals.real.sum())
        ctx.c["prob_comparisons"] += len(vals)
        if ctx.dev(abs(total - 1), tol * 2 ** d):
            self._first("%s:%s:probabilities-do-not-sum-to-one" % (sim, gate),
                     "%s: the probabilities of all 0/1 occupations sum to %r (tol %.2g)" % (where, total, tol * 2 ** d), case)
        if sim == "fock":
            ctx.c["occupation_key_checks"] += 1
            keys = [tuple(int(x) for x in k) for k in snap["keys"]]
            bad = [k for k in keys if len(k) != d or any(x not in (0, 1) for x in k)]
            import math

            expected = sum(math.comb(d, n) for n in range(min(snap["cutoff"], d + 1)))
            if bad or len(set(keys)) != len(keys) or len(keys) != expected:
                self._first("fock:%s:occupation-keys-not-01" % gate,
                         "%s: fock_probabilities_map has %d keys (%d distinct, expected %d), non-0/1 keys: %s" % (
                             where, len(keys), len(set(keys)), expected, bad[:4]), case)
            mvals = np.array(list(snap["map"].values()))
            if ctx.dev(abs(mvals.real.sum() - 1), tol * 2 ** d) or ctx.dev(np.abs(mvals.imag).max(), tol) or \
                    ctx.dev(max(0.0, -mvals.real.min(), mvals.real.max() - 1), tol):
                self._first("fock:%s:probability-map-not-a-distribution" % gate,
                         "%s: fock_probabilities_map sums to %r, range [%r, %r]" % (
                             where, float(mvals.real.sum()), float(mvals.real.min()), float(mvals.real.max())), case)
            for o, p in probs.items():  # the two occupation-keyed interfaces of the same state
                if o not in snap["map"] or ctx.dev(abs(p - snap["map"][o]), tol):
                    self._first("fock:%s:map-vs-detection-probability" % gate,
                             "%s: get_particle_detection_probability(%s)=%r but fock_probabilities_map gives %r" % (
                                 where, o, p, snap["map"].get(o)), case)
                    break
        # covariance: real, skew-symmetric, singular values <= 1
        if "cov" in snap:
            ctx.c["spectrum_checks"] += 1
            cov = snap["cov"]
            if np.iscomplexobj(cov) or not np.all(np.isfinite(cov)) or cov.shape != (2 * d, 2 * d):
                self._first("%s:%s:covariance-not-real" % (sim, gate), "%s: covariance matrix dtype %s shape %s" % (where, cov.dtype, cov.shape), case)
            else:
                if ctx.dev(np.abs(cov + cov.T).max(), tol):
                    self._first("%s:%s:covariance-not-skew" % (sim, gate), "%s: |cov + cov^T| = %.3g" % (where, np.abs(cov + cov.T).max()), case)
                smax = np.linalg.svd(cov, compute_uv=False).max()
                if ctx.dev(max(0.0, smax - 1), tol):
                    self._first("%s:%s:correlation-spectrum-outside-unit-interval" % (sim, gate),
                             "%s: largest singular value of the covariance matrix is 1 + %.3g (spectrum of (1 + i cov)/2 leaves [0,1])" % (where, smax - 1), case)
        if "corr" in snap:
            G = snap["corr"]
            if ctx.dev(np.abs(G - G.conj().T).max(), tol):
                self._first("gaussian:%s:correlation-not-selfadjoint" % gate, "%s: |Gamma - Gamma^+| = %.3g" % (where, np.abs(G - G.conj().T).max()), case)
            else:
                w = np.linalg.eigvalsh((G + G.conj().T) / 2)
                if ctx.dev(max(0.0, -w.min(), w.max() - 1), tol):
                    self._first("gaussian:%s:correlation-spectrum-outside-unit-interval" % gate,
                             "%s: correlation matrix eigenvalues range over [%r, %r]" % (where, float(w.min()), float(w.max())), case)
        # conservation between consecutive observations
        if is_gate and prev is not None:
            nd_post = number_distribution(probs, d)
            nd_pre = number_distribution(prev["probs"], d)
            even_post, even_pre = float(nd_post[0::2].sum()), float(nd_pre[0::2].sum())
            ctx.c["parity_checks"] += 1
            if ctx.dev(abs(even_post - even_pre), tol * 2 ** d):
                ctx.viol("%s:%s:parity-not-conserved" % (sim, gate),
                         "%s: P(even particle number) changed from %r to %r" % (where, even_pre, even_post), case)
            passive = gate in PASSIVE or (gate == "GaussianHamiltonian" and case["ins"][step - 1].get("passive"))
            if passive:
                ctx.c["number_checks"] += 1
                if ctx.dev(np.abs(nd_post - nd_pre).max(), tol * 2 ** d):
                    ctx.viol("%s:%s:particle-number-not-conserved" % (sim, gate),
                             "%s: particle-number distribution changed from %s to %s under a passive gate" % (
                                 where, nd_pre.tolist(), nd_post.tolist()), case)

    def _check_samples(self, name, subbranches):
        ctx, case, sim = self.ctx, self.case, self.simname
        d = case["d"]
        for br in subbranches or []:
            out = br.outcome
            ctx.c["measured_samples"] += 1
            if len(out) != d or any((x != 0 and x != 1) or int(x) != x for x in out):
                ctx.viol("%s:measurement:sample-not-01" % sim, "%s sampled %r on %d modes" % (sim, tuple(out), d), case)
                continue
            o = tuple(int(x) for x in out)
            p = self.ref_final.get(o, 0.0) if self.ref_final is not None else None
            if p is not None and p <= tolerance(case, len(case["ins"])) * 2 ** d:
                ctx.viol("%s:measurement:impossible-sample" % sim,
                         "%s sampled %r whose exact probability is %.3g (particle number %d, input %s)" % (
                             sim, o, p, sum(o), case.get("occ")), case)


# ------------------------------------------------------------------ reference evolution
def reference_snapshots(case):
    from vf.refs import fermion_jw as R

    d = case["d"]
    if case["prep"] == "Parent":
        rho = R.parent_hamiltonian_state(d, M.dec(case["parent"]))
    else:
        rho = R.pure(R.number_state_vector(case["occ"]))
    snaps = [_ref_snap(R, rho)]
    for idoc in case["ins"]:
        t, modes, p = idoc["t"], idoc["m"], idoc["p"]
        if t == "Interferometer":
            V = R.passive_unitary(d, M.dec(p["matrix"]), modes)
        elif t == "Beamsplitter":
            V = R.passive_unitary(d, R.beamsplitter_matrix(p["theta"], p["phi"]), modes)
        elif t == "Phaseshifter":
            V = R.passive_unitary(d, R.phaseshifter_matrix(p["phi"]), modes)
        elif t == "Squeezing2":
            V = R.squeezing2_unitary(d, p["r"], p["phi"], modes)
        elif t == "IsingXX":
            V = R.ising_xx_unitary(d, p["phi"], modes)
        elif t == "GaussianHamiltonian":
            V = R.gaussian_hamiltonian_unitary(d, M.dec(p["hamiltonian"]), modes)
        else:
            raise KeyError(t)
        rho = R.apply(rho, V)
        snaps.append(_ref_snap(R, rho))
    return snaps


def _ref_snap(R, rho):
    return {"cov": R.covariance(rho, "xpxp"), "corr": R.correlation(rho), "probs": R.probabilities(rho)}


# ------------------------------------------------------------------ one case
def run_sim(pq, ctx, mon, case, simname, ref_final):
    if simname == "gaussian":
        sim = pq.fermionic.GaussianSimulator(d=case["d"], config=pq.Config(seed_sequence=int(case["seed"])))
    else:
        sim = pq.fermionic.PureFockSimulator(d=case["d"], config=pq.Config(cutoff=int(case["cutoff"]),
                                                                       seed_sequence=int(case["seed"])))
    program = build_program(pq, case)
    mon.begin(case, simname, ref_final)
    err = None
    try:
        sim.execute(program, shots=int(case.get("shots", 1)))
    except Exception as e:  # the call under test
        err = e
    finally:
        mon.end()
    if mon.harness_error:
        raise RuntimeError("monitor failed inside the step hook:\n" + mon.harness_error)
    return mon.snaps, err


def _maxdiff_probs(a, b, keys):
    return max(abs(a[o] - b[o]) for o in keys)


def run_case(pq, ctx, mon, case):
    ctx.evals += 1
    d = case["d"]
    kind = case["kind"]
    ref = reference_snapshots(case)
    ref_final = ref[-1]["probs"]
    names = ["prep:" + case["prep"]] + [i["t"] for i in case["ins"]]
    runs = {}
    sims = ["gaussian"] if kind == "gauss" else ["gaussian", "fock"]
    for s in sims:
        snaps, err = run_sim(pq, ctx, mon, case, s, ref_final)
        if err is not None:
            ctx.c["simulator_exceptions"] += 1
            at = names[len(snaps)] if len(snaps) < len(names) else "measurement"
            if case["prep"] == "Parent" and len(snaps) == 0:
                ctx.c["parent_refused"] += 1
                ctx.obs.add("ParentHamiltonian refused with %s at |H|=%.2f (conditioning of inv(1+exp(2H)); not judged)" % (
                    type(err).__name__, case["parent_norm"]))
                return
            ctx.viol("%s:%s:raises-%s" % (s, at.replace("prep:", ""), type(err).__name__),
                     "%s simulator raised %s: %s at instruction %d (%s) of a supported program" % (
                         s, type(err).__name__, str(err)[:200], len(snaps), at), case)
        runs[s] = snaps

    complete = True
    reported = set()

    def report(mech, msg):
        # only the first step at which a comparison fails is reported: later steps inherit the error
        parts = mech.split(":")
        key = (parts[0], parts[2])
        if key not in reported:
            reported.add(key)
            ctx.viol(mech, msg, case)

    for k in range(len(names)):
        tol = tolerance(case, k)
        g = runs["gaussian"][k][1] if len(runs["gaussian"]) > k else None
        f = runs["fock"][k][1] if "fock" in runs and len(runs["fock"]) > k else None
        if g is None or ("fock" in runs and f is None):
            complete = False
        r = ref[k]
        gate = names[k].replace("prep:", "")
        where = "after instruction %d (%s)" % (k, gate)
        for simname, s in (("gaussian", g), ("fock", f)):
            if s is None:
                continue
            ctx.c["reference_comparisons"] += 1
            ctx.stage = "%s_vs_reference_%s" % (simname, "mixed" if case["prep"] == "Parent" else "pure")
            if "cov" in s and s["cov"].shape == r["cov"].shape:
                ctx.c["cov_comparisons"] += 1
                dv = np.abs(s["cov"] - r["cov"]).max()
                if ctx.dev(dv, tol):
                    report("%s:%s:covariance-differs-from-reference" % (simname, gate),
                           "%s covariance matrix %s differs from the Jordan-Wigner reference by %.3g (tol %.2g)" % (simname, where, dv, tol))
            keys = list(s["probs"].keys())
            ctx.c["prob_comparisons"] += len(keys)
            dv = _maxdiff_probs(s["probs"], r["probs"], keys)
            if ctx.dev(dv, tol):
                worst = max(keys, key=lambda o: abs(s["probs"][o] - r["probs"][o]))
                report("%s:%s:probabilities-differ-from-reference" % (simname, gate),
                       "%s occupation probabilities %s differ from the reference by %.3g (tol %.2g), e.g. p%s=%r vs %r" % (
                           simname, where, dv, tol, worst, float(s["probs"][worst].real), r["probs"][worst]))
            if "map" in s:
                dv = max(abs(v - r["probs"][o]) for o, v in s["map"].items() if o in r["probs"])
                if ctx.dev(dv, tol):
                    report("fock:%s:probability-map-differs-from-reference" % gate,
                           "fock_probabilities_map %s differs from the reference by %.3g (tol %.2g)" % (where, dv, tol))
                if s["cutoff"] < d + 1:  # weight the reference puts outside the represented sectors
                    outside = sum(p for o, p in r["probs"].items() if sum(o) >= s["cutoff"])
                    if outside > tol * 2 ** d:
                        raise AssertionError("harness: case leaves the represented sectors (%g)" % outside)
            if "corr" in s:
                dv = np.abs(s["corr"] - r["corr"]).max()
                dm = np.abs(s["mean_n"] - np.real(np.diag(r["corr"])[:d])).max()
                if ctx.dev(max(dv, dm), tol):
                    report("gaussian:%s:correlation-differs-from-reference" % gate,
                           "Gaussian correlation matrix / mean particle numbers %s differ from the reference by %.3g / %.3g (tol %.2g)" % (where, dv, dm, tol))
        if g is not None and f is not None:
            ctx.stage = "gaussian_vs_fock"
            if "cov" in f and "cov" in g and f["cov"].shape == g["cov"].shape:
                ctx.c["cov_comparisons"] += 1
                dv = np.abs(g["cov"] - f["cov"]).max()
                if ctx.dev(dv, 2 * tol):
                    report("gaussian-vs-fock:%s:covariance" % gate,
                           "Gaussian and Fock covariance matrices %s differ by %.3g (tol %.2g)" % (where, dv, 2 * tol))
            keys = list(f["probs"].keys())
            ctx.c["prob_comparisons"] += len(keys)
            dv = _maxdiff_probs(g["probs"], f["probs"], keys)
            if ctx.dev(dv, 2 * tol):
                report("gaussian-vs-fock:%s:probabilities" % gate,
                       "Gaussian and Fock occupation probabilities %s differ by %.3g (tol %.2g)" % (where, dv, 2 * tol))
            if f["cutoff"] < d + 1:
                outside = [o for o in g["probs"] if sum(o) >= f["cutoff"]]
                dv = max([abs(g["probs"][o]) for o in outside] or [0.0])
                if ctx.dev(dv, tol):
                    report("gaussian:%s:weight-outside-conserved-sectors" % gate,
                           "Gaussian state %s has probability %.3g on occupations above the conserved particle number" % (where, dv))

    ctx.c[{"diff": "diff_cases", "cut": "cut_cases", "gauss": "gauss_cases"}[kind]] += 1
    ctx.bump("d_seen", d)
    ctx.bump("cutoffs_seen", case["cutoff"])
    ctx.bump("preparations", case["prep"])
    ctx.bump("program_lengths", len(case["ins"]))
    for i in case["ins"]:
        ctx.bump("gates_by_type", i["t"])
        ctx.bump("offsets_seen", min(i["m"]))
        if i.get("ukind"):
            ctx.bump("unitary_kinds", i["ukind"])
    if complete and case["ins"]:
        ctx.classes.add("%s|d%d|c%d|n%s|%s|off%s|%s" % (
            kind, d, case["cutoff"], sum(case["occ"]) if case.get("occ") is not None else "mixed",
            ",".join(sorted(i["t"] for i in case["ins"])), sorted({min(i["m"]) for i in case["ins"]}), case["prep"]))
    if len(ctx.samples) < 4 and len(case["ins"]) in (2, 3) and d <= 3:
        g = runs["gaussian"][-1][1] if runs["gaussian"] else None
        ctx.samples.append({"case": _brief(case), "final_probabilities_reference": {str(o): round(p, 12) for o, p in ref_final.items() if p > 1e-12},
                            "final_probabilities_gaussian": {str(o): round(p.real, 12) for o, p in g["probs"].items() if p.real > 1e-12} if g else None})


def _brief(case):
    c = dict(case)
    c["ins"] = [{"t": i["t"], "m": i["m"], "p": {k: (v if not isinstance(v, dict) else "<matrix>") for k, v in i["p"].items()}} for i in case["ins"]]
    if "parent" in c:
        c["parent"] = "<matrix>"
    return c


# ------------------------------------------------------------------ generators
def gen_angle(rng):
    return P.angle(rng, special=0.2) if rng.random() < 0.85 else float(rng.uniform(-2 * np.pi, 2 * np.pi))


def gen_common_gate(rng, d, allowed):
    names = [n for n in allowed if d >= 2 or n in ("Interferometer", "Phaseshifter")]
    t = names[int(rng.integers(0, len(names)))]
    if t == "Interferometer":
        k = int(rng.integers(1, d + 1))
        if rng.random() < 0.4:
            k = min(d, max(k, 2))
        s = int(rng.integers(0, d - k + 1))
        u, ukind = M.structured_unitary(rng, k)
        return {"t": t, "m": list(range(s, s + k)), "p": {"matrix": M.enc(u)}, "ukind": ukind}
    if t == "Phaseshifter":
        return {"t": t, "m": [int(rng.integers(0, d))], "p": {"phi": gen_angle(rng)}}
    s = int(rng.integers(0, d - 1))
    if t == "Beamsplitter":
        p = {"theta": gen_angle(rng), "phi": gen_angle(rng)}
    elif t == "Squeezing2":
        p = {"r": gen_angle(rng), "phi": gen_angle(rng)}
    else:
        p = {"phi": gen_angle(rng)}
    return {"t": t, "m": [s, s + 1], "p": p}


def gen_occ(rng, d):
    k = rng.random()
    if k < 0.08:
        return [0] * d
    if k < 0.14:
        return [1] * d
    return [int(x) for x in rng.integers(0, 2, size=d)]


def gen_quadratic_blocks(rng, k, scale, passive=False, real=False):
    A = rng.normal(size=(k, k)) + (0 if real else 1j) * rng.normal(size=(k, k))
    A = (A + A.conj().T) / 2
    B = rng.normal(size=(k, k)) + (0 if real else 1j) * rng.normal(size=(k, k))
    B = (B - B.T) / 2
    if passive:
        B = B * 0
    A = A.astype(complex) * scale
    B = B.astype(complex) * scale
    return A, B


def gen_gaussian_hamiltonian(rng, d):
    k = int(rng.integers(1, d + 1))
    modes = P.ordered_subset(rng, d, k)
    passive = bool(rng.random() < 0.3)
    scale = float(rng.choice([0.05, 0.5, 1.0, 2.5]))
    A, B = gen_quadratic_blocks(rng, k, scale, passive=passive, real=rng.random() < 0.15)
    H = np.block([[A, -B.conj()], [B, -A.conj()]])
    return {"t": "GaussianHamiltonian", "m": modes, "p": {"hamiltonian": M.enc(H)}, "passive": passive}


def gen_parent(rng, d):
    A, B = gen_quadratic_blocks(rng, d, 1.0, passive=rng.random() < 0.2)
    H = np.block([[-A.conj(), B], [-B.conj(), A]])
    lam = float(rng.choice([0.0, 0.2, 1.0, 2.0, 3.0]) if rng.random() < 0.5 else rng.uniform(0.05, 3.0))
    nrm = np.linalg.norm(H, 2)
    H = H * (lam / nrm) if nrm > 0 else H
    return H, float(np.linalg.norm(H, 2))


def gen_case(rng, kind, dmax, seed):
    d = int(rng.choice(np.arange(1, dmax + 1), p=_d_weights(dmax)))
    L = int(rng.integers(1, 9))
    case = {"kind": kind, "d": d, "seed": int(seed), "cutoff": d + 1, "shots": 1, "measure": False}
    if kind == "diff":
        case["occ"] = gen_occ(rng, d)
        case["prep"] = "StateVector" if rng.random() < 0.6 else "NumberState"
        case["ins"] = [gen_common_gate(rng, d, COMMON_GATES) for _ in range(L)]
        if rng.random() < 0.35:
            case["measure"], case["shots"] = True, 8
    elif kind == "cut":
        d = case["d"] = max(d, 2)
        occ = gen_occ(rng, d)
        while sum(occ) >= d:  # need room for a smaller cutoff
            occ[int(rng.integers(0, d))] = 0
        case["occ"] = occ
        case["prep"] = "StateVector" if rng.random() < 0.6 else "NumberState"
        ins, nmax = [], sum(occ)
        for _ in range(L):
            allowed = PASSIVE + (("Squeezing2",) if nmax + 2 < d else ())
            g = gen_common_gate(rng, d, allowed)
            if g["t"] == "Squeezing2":
                nmax += 2
            ins.append(g)
        case["ins"] = ins
        case["cutoff"] = int(rng.integers(nmax + 1, d + 1))  # nmax+1 <= cutoff <= d: exact, but below d+1
        if rng.random() < 0.25:
            case["measure"], case["shots"] = True, 8
    else:
        r = rng.random()
        if r < 0.4:
            H, nrm = gen_parent(rng, d)
            case.update({"prep": "Parent", "parent": M.enc(H), "parent_norm": nrm, "occ": None})
        else:
            case["occ"] = gen_occ(rng, d)
            case["prep"] = "Vacuum" if sum(case["occ"]) == 0 and rng.random() < 0.7 else ("StateVector" if rng.random() < 0.5 else "NumberState")
        ins = []
        for _ in range(L):
            q = rng.random()
            if q < 0.5:
                ins.append(gen_gaussian_hamiltonian(rng, d))
            elif q < 0.7 and d >= 1:
                # passive gates on arbitrary ordered mode tuples (Gaussian simulator accepts any modes)
                t = ["Interferometer", "Beamsplitter", "Phaseshifter"][int(rng.integers(0, 3))]
                if t == "Beamsplitter" and d < 2:
                    t = "Phaseshifter"
                if t == "Interferometer":
                    k = int(rng.integers(1, d + 1))
                    u, ukind = M.structured_unitary(rng, k)
                    ins.append({"t": t, "m": P.ordered_subset(rng, d, k), "p": {"matrix": M.enc(u)}, "ukind": ukind})
                elif t == "Beamsplitter":
                    ins.append({"t": t, "m": P.ordered_subset(rng, d, 2), "p": {"theta": gen_angle(rng), "phi": gen_angle(rng)}})
                else:
                    ins.append({"t": t, "m": P.ordered_subset(rng, d, 1), "p": {"phi": gen_angle(rng)}})
            else:
                ins.append(gen_common_gate(rng, d, COMMON_GATES))
        case["ins"] = ins
        if case["prep"] != "Parent" and rng.random() < 0.3:
            case["measure"], case["shots"] = True, 8
    return case


def _d_weights(dmax):
    w = np.array([0.5, 1.0, 1.5, 2.0, 1.6][:dmax])
    return w / w.sum()


# ------------------------------------------------------------------ protocol
# 32x32 matrices: BLAS/OpenMP worker threads only add contention on the shared machine
SINGLE_THREAD = {"OMP_NUM_THREADS": "1", "OPENBLAS_NUM_THREADS": "1", "MKL_NUM_THREADS": "1"}


def plan(tier, seed):
    if tier == "quick":
        layout = [("diff", 6, 150), ("cut", 2, 120), ("gauss", 4, 120)]
    else:
        layout = [("diff", 10, 1000), ("cut", 4, 800), ("gauss", 6, 1000)]
    specs, sh = [], 0
    for kind, n, count in layout:
        for i in range(n):
            specs.append({"name": "%s-%d" % (kind, i), "kind": kind, "shard": sh, "count": count, "dmax": 5,
                          "env": dict(SINGLE_THREAD)})
            sh += 1
    return specs


def _setup():
    from vf import boot

    pq = boot.import_piquasso()
    from vf.monitors import stephook

    hook = stephook.get().install()
    ctx = Ctx()
    mon = hook.subscribe(Monitor(pq, ctx))
    return pq, ctx, mon, hook


def run_shard(spec):
    pq, ctx, mon, hook = _setup()
    from vf.refs import fermion_jw as R

    rng = np.random.default_rng([int(spec["seed"]), 17, int(spec["shard"])])
    err = max(R.self_check(rng, 2), R.self_check(rng, 3))
    if err > 1e-12:
        raise AssertionError("reference self-check failed: %g" % err)
    t0 = time.time()
    budget = 100 if spec["tier"] == "quick" else 560
    for i in range(int(spec["count"])):
        if time.time() - t0 > budget:
            ctx.obs.add("a shard stopped by its time budget")
            ctx.c["stopped_by_budget"] = ctx.c.get("stopped_by_budget", 0) + 1
            break
        case = gen_case(rng, spec["kind"], int(spec["dmax"]), int(rng.integers(0, 2 ** 31 - 1)))
        run_case(pq, ctx, mon, case)
    if spec["kind"] == "cut":  # outside the property (the program leaves the represented sectors): observation only
        try:
            sim = pq.fermionic.PureFockSimulator(d=3, config=pq.Config(cutoff=3))
            sim.execute(pq.Program(instructions=[pq.StateVector([0, 0, 0]), pq.fermionic.IsingXX(phi=0.3).on_modes(0, 1)]))
        except Exception as e:
            ctx.obs.add("fermionic Fock IsingXX at cutoff < d+1 raises %s (index of the unrepresented sector); IsingXX is only exercised at cutoff d+1" % type(e).__name__)
    if ctx.c["fock_covariance_unavailable_small_cutoff"]:
        ctx.obs.add("fermionic PureFockState.covariance_matrix raises IndexError when cutoff < d+1; covariance compared only at cutoff d+1")
    ctx.obs.add("both covariance_matrix properties return xpxp ordering (x_0,p_0,x_1,...) although their docstrings cite Eq. (majorana), which is xxpp")
    counters = dict(ctx.c)
    counters["hook_instructions_total"] = hook.counters["instructions"]
    return {"evaluations": ctx.evals, "classes": sorted(ctx.classes), "violations": ctx.violations,
            "counters": counters, "samples": ctx.samples, "observations": sorted(ctx.obs)}


def replay(case):
    pq, ctx, mon, hook = _setup()
    run_case(pq, ctx, mon, case)
    return ctx.violations
