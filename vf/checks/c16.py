"""C16 - relabelling modes relabels the result; disjoint gates commute.

Metamorphic pairs, every one derived from a JSON program document:

  relabel : (p, pi(p))   pi a permutation of the d mode labels; every mode tuple entry m -> pi[m]
            (order inside the tuple kept), all-mode preparations / all-mode matrices permuted,
            parameters untouched.  Oracle: final state(s) of pi(p) are the index-permuted final
            state(s) of p, the exact branch map (shots=None) has the same outcome tuples (explicit
            measurement tuples keep their order; all-mode measurements are permuted) and weights.
  commute : (p, p with instructions i,i+1 exchanged) for every adjacent pair with disjoint supports and
            no measurement / condition dependency.  Exact on Gaussian, passive, fermionic Gaussian and on
            the full fermionic Fock space; on the truncated Fock spaces exact when at least one of the two
            is number conserving; active-active pairs are counted as skipped.
  sampler : number states routed through (phased) permutation interferometers have one possible outcome;
            finite-shot samples and shots=None branch maps must be exactly that tuple, for p and pi(p).
"""

import copy
import itertools
import math
import time
import traceback

import numpy as np

ID = "C16"
LEVEL = "exploration"
TECHNIQUE = ("runtime monitoring: metamorphic comparators on final states, exact branch maps and samples of "
             "relabelled / reordered program pairs, with the step hook recording the mode tuples the steps see")
DESIGN_REF = "DESIGN.md §4 C16"
LEVEL_TEXT = (
    "Random programs (d<=4, 5 for Gaussian; mode tuples are random ordered subsets) on all six simulators are executed "
    "together with a relabelled copy (random permutation of the labels; rigid moves of consecutive blocks on the fermionic "
    "Fock simulator, which only accepts ascending consecutive tuples) and with every admissible exchange of two adjacent "
    "instructions on disjoint modes. Final states are compared entry by entry through the permutation (Gaussian mean / "
    "covariance, Fock amplitudes and density matrices re-indexed through the basis, passive interferometer, amplitudes and "
    "every detection probability, fermionic covariance / probabilities / amplitudes with the Jordan-Wigner sign), exact "
    "branch maps are compared outcome by outcome including the post-measurement states, and deterministic programs must "
    "return exactly the routed tuple under sampling."
)
LEVEL_NOTE = (
    "Sampled, not exhaustive. numpy connector and float64 only. Gaussian samplers are not compared (their outcomes are "
    "random); for Gaussian mid-circuit general-dyne measurements only the outcome-independent covariance is compared. "
    "Active-active exchanges on the truncated Fock simulators are skipped, not bounded. On PassiveSimulator at most one "
    "measurement is used and no Kerr gate follows it (known defects owned by C13)."
)
RULE = (
    "cases = program pairs (one per (program, permutation), one per (program, exchanged adjacent pair), one per "
    "deterministic sampler pair); non-trivial = both programs ran and at least one state / branch-map / sample comparison "
    "was made; distinct_nontrivial = distinct (kind, simulator, d, cutoff, hbar, instruction multiset, mode-order patterns) "
    "classes among them."
)
ASSUMPTIONS = [
    "the Fock basis is ordered by total number, then descending lexicographically (verified independently by C06)",
    "a truncated step is P A P with P the projector on total number < cutoff; an exchange with a number-conserving partner "
    "on other modes is then exact (B commutes with A and with P), so only active-active exchanges are inexact",
    "relabelling fermionic modes multiplies the amplitude of |n> by the parity of sorting pi(occupied modes) (convention independent)",
    "a branch missing on one side is accepted when its weight on the other side is below the 1e-8 filter of sample_from_probability_map",
    "NotImplementedCalculation is the library's documented 'outside the support'; a pair in which either program raises it is skipped",
]
REQUIRED = ["relabel_pairs", "commute_pairs", "sampler_pairs", "state_comparisons", "branch_map_comparisons",
            "sample_comparisons", "hook_steps"]
WATCHDOG = {"quick": 2400, "thorough": 7200}

EPS = float(np.finfo(np.float64).eps)
C_TOL = 1e3
FILTER = 1e-8  # sample_from_probability_map drops outcomes with probability isclose(0)
TINY_BRANCH = 1e-6

PASSIVE = ("Interferometer", "Beamsplitter", "Beamsplitter5050", "Phaseshifter", "MachZehnder", "Fourier")
NC_NONLINEAR = ("Kerr", "CrossKerr", "SNAP", "ControlledPhase")
PREPS = ("Vacuum", "NumberState", "FockStateVector", "StateVector", "DensityMatrix", "Mean", "Covariance", "Thermal",
         "ParentHamiltonian")
MEAS = ("ParticleNumberMeasurement", "PostSelectPhotons", "HomodyneMeasurement", "HeterodyneMeasurement",
        "GeneraldyneMeasurement", "ThresholdMeasurement")
FERMIONIC_ONLY = ("ControlledPhase", "IsingXX", "GaussianHamiltonian", "ParentHamiltonian")
ALL_SIMS = ["purefock", "fock", "gaussian", "passive", "fgaussian", "ffock"]


# ----------------------------------------------------------------------------- context
class Ctx:
    def __init__(self):
        self.violations = []
        self.c = {k: 0 for k in REQUIRED}
        self.c.update({
            "comparisons": 0, "failed_comparisons": 0, "skipped_active_active_pairs": 0, "skipped_both_raised": 0, "skipped_not_implemented": 0,
            "skipped_tiny_branches": 0, "skipped_zero_norm_postselection": 0, "programs_run": 0,
            "deterministic_routing_checks": 0, "ffock_signed_amplitude_comparisons": 0, "gate_measurement_exchanges": 0,
            "max_dev_over_tol": 0.0, "max_abs_dev": 0.0,
            "pairs_by_sim_kind": {}, "tuple_patterns_seen_by_steps": {}, "commute_pair_types": {},
        })
        self.classes = set()
        self.samples = []
        self.obs = set()
        self.evals = 0

    def viol(self, mech, msg, case):
        if len(self.violations) < 200:
            self.violations.append({"mechanism": mech, "message": msg[:900], "case": case})

    def bump(self, name, key, n=1):
        d = self.c[name]
        d[key] = d.get(key, 0) + n

    def dev(self, dev, tol):
        """Largest deviation among the comparisons that held, against its tolerance (failed ones become violations)."""
        self.c["comparisons"] += 1
        if not dev <= tol:
            self.c["failed_comparisons"] += 1
            return
        if tol > 0:
            self.c["max_dev_over_tol"] = max(self.c["max_dev_over_tol"], float(dev) / tol)
        self.c["max_abs_dev"] = max(self.c["max_abs_dev"], float(dev))


class Recorder:
    """Step-hook subscriber: counts steps and records the (remapped) mode-tuple patterns the steps see."""

    def __init__(self, ctx, simname):
        self.ctx = ctx
        self.simname = simname
        self.steps = 0
        self.zero_norm = False

    def on_step_pre(self, run, idx, ins, state, shots):
        if run.depth != 0:
            return
        self.steps += 1
        from vf.gen import programs as G

        try:
            modes = list(ins.modes)
        except Exception:
            modes = []
        if len(modes) >= 2:
            self.ctx.bump("tuple_patterns_seen_by_steps", "%s:%s" % (self.simname, G.mode_pattern(modes)))

    def on_step_post(self, run, idx, ins, state, shots, sub, exc):
        if exc is None and type(ins).__name__ == "PostSelectPhotons" and sub is not None:
            try:
                for b in sub:
                    if b.state is not None and abs(complex(b.state.norm)) < 1e-9:
                        self.zero_norm = True
            except Exception:
                pass


# ----------------------------------------------------------------------------- building / running
def build_instruction(pq, idoc):
    from vf.gen import programs as G

    t = idoc["t"]
    cls = getattr(pq, t, None) if t not in FERMIONIC_ONLY else None
    if cls is None:
        cls = getattr(pq.fermionic, t)
    params = {}
    for k, v in idoc.get("p", {}).items():
        if isinstance(v, dict) and "__call__" in v:
            params[k] = G.CALLABLES[v["__call__"]]
        else:
            params[k] = G._dec_param(k, v)
    ins = cls(**params)
    if idoc.get("mul") is not None:
        ins = ins * G._dec_param(None, idoc["mul"])
    if idoc.get("when") is not None:
        ins = ins.when(idoc["when"])
    elif idoc.get("when_call") is not None:
        ins = ins.when(G.CALLABLES[idoc["when_call"]])
    if idoc.get("m") is not None:
        ins = ins.on_modes(*idoc["m"])
    return ins


def build(pq, doc):
    from vf.gen import programs as G

    sim = G.SIMS[doc["sim"]](pq)(d=doc["d"], config=G.build_config(pq, doc.get("config")))
    return sim, pq.Program(instructions=[build_instruction(pq, i) for i in doc["ins"]])


def _where(exc):
    tb = traceback.extract_tb(exc.__traceback__)
    for fr in reversed(tb):
        if "/piquasso/" in fr.filename:
            return "%s:%s" % (fr.filename.split("/piquasso/")[-1], fr.name)
    return "?"


def run_doc(ctx, pq, doc):
    """-> ("ok", Result, recorder) | ("raised", exception, recorder). Only the call under test is guarded."""
    from vf.monitors import stephook

    hook = stephook.get().install()
    rec = hook.subscribe(Recorder(ctx, doc["sim"]))
    sim, prog = build(pq, doc)  # generated documents are valid by construction: a failure here is a harness bug
    try:
        try:
            res = sim.execute(prog, shots=doc.get("shots"))
            out = ("ok", res, rec)
        except Exception as e:  # the call under test
            out = ("raised", e, rec)
    finally:
        hook.unsubscribe(rec)
    ctx.c["programs_run"] += 1
    ctx.c["hook_steps"] += rec.steps
    return out


# ----------------------------------------------------------------------------- document analysis
def ins_kind(idoc):
    t = idoc["t"]
    if t in PREPS:
        return "prep"
    if t in MEAS:
        return "meas"
    return "gate"


def active_before(doc):
    """active_before(doc)[k] = ascending list of original mode labels still active when instruction k runs."""
    act = list(range(doc["d"]))
    out = []
    for idoc in doc["ins"]:
        out.append(list(act))
        if ins_kind(idoc) == "meas":
            mm = idoc["m"] if idoc.get("m") is not None else list(act)
            act = [a for a in act if a not in mm]
    out.append(list(act))
    return out


def induced(pi, act):
    """Position map of the active modes: position j of `act` -> position of pi[act[j]] among the sorted images."""
    img = sorted(pi[a] for a in act)
    return [img.index(pi[a]) for a in act]


def has_dynamic_params(idoc):
    if idoc.get("when") is not None or idoc.get("when_call") is not None:
        return True
    return any(isinstance(v, str) or (isinstance(v, dict) and "__call__" in v) for v in idoc.get("p", {}).values())


def is_nc(sim, idoc):
    """Number conserving (commutes with the truncation projector) on the Fock-space simulators."""
    return idoc["t"] in PASSIVE or idoc["t"] in NC_NONLINEAR


# ----------------------------------------------------------------------------- relabelling
def _perm_vec(v, sg):
    out = [None] * len(v)
    for j, x in enumerate(v):
        out[sg[j]] = x
    return out


def relabel(doc, pi):
    from vf.gen import matrices as M

    new = copy.deepcopy(doc)
    acts = active_before(doc)
    for k, idoc in enumerate(new["ins"]):
        if idoc.get("m") is not None:
            idoc["m"] = [int(pi[m]) for m in idoc["m"]]
            continue
        sg = induced(pi, acts[k])
        p = idoc.get("p", {})
        t = idoc["t"]
        if t in ("NumberState", "StateVector") and "occupation_numbers" in p:
            p["occupation_numbers"] = _perm_vec(p["occupation_numbers"], sg)
        if t in ("FockStateVector", "StateVector") and "fock_amplitude_map" in p:
            p["fock_amplitude_map"] = {"__map__": [[_perm_vec(key, sg), val] for key, val in p["fock_amplitude_map"]["__map__"]]}
        if t == "DensityMatrix":
            p["ket"] = _perm_vec(p["ket"], sg)
            p["bra"] = _perm_vec(p["bra"], sg)
        if t == "Thermal":
            p["mean_photon_numbers"] = _perm_vec(p["mean_photon_numbers"], sg)
        if t in ("Mean", "Covariance"):
            name = "mean" if t == "Mean" else "cov"
            a = M.dec(p[name])
            idx = np.empty(2 * len(sg), dtype=int)  # xpxp order
            for j, s in enumerate(sg):
                idx[2 * s] = 2 * j
                idx[2 * s + 1] = 2 * j + 1
            p[name] = M.enc(a[idx] if a.ndim == 1 else a[np.ix_(idx, idx)])
        if t in ("Interferometer", "LossyInterferometer"):
            a = M.dec(p["matrix"])
            inv = np.argsort(sg)  # new position s holds old position inv[s]
            p["matrix"] = M.enc(a[np.ix_(inv, inv)])
    return new


def outcome_labels(doc, quirk=False):
    """For every ParticleNumberMeasurement in program order: the mode label each outcome entry belongs to.
    Entries follow the order inside the measurement's tuple (ascending active modes for an all-mode measurement).
    quirk=True describes what PassiveSimulator does on the unchanged tree when an explicit tuple covers all active modes:
    it ignores the tuple order (finding passive-full-measurement-ignores-tuple-order)."""
    acts = active_before(doc)
    out = []
    for k, idoc in enumerate(doc["ins"]):
        if idoc["t"] != "ParticleNumberMeasurement":
            continue
        if idoc.get("m") is None:
            out.append(list(acts[k]))
        elif quirk and doc["sim"] == "passive" and set(idoc["m"]) == set(acts[k]):
            out.append(sorted(idoc["m"]))
        else:
            out.append(list(idoc["m"]))
    return out


def has_full_tuple_quirk(doc):
    return outcome_labels(doc, True) != outcome_labels(doc, False)


def map_outcome(doc, partner, pi, outcome, quirk=False):
    """Outcome tuple of the relabelled program `partner` = pi(doc) that corresponds to `outcome` of doc."""
    la = outcome_labels(doc, quirk)
    lb = outcome_labels(partner, quirk)
    out = []
    pos = 0
    for seg_a, seg_b in zip(la, lb):
        count = {pi[m]: outcome[pos + j] for j, m in enumerate(seg_a)}
        out.extend(count[m] for m in seg_b)
        pos += len(seg_a)
    if pos != len(outcome) or len(la) != len(lb):
        raise AssertionError("outcome length %d does not match the measurements of the document (%d)" % (len(outcome), pos))
    return tuple(out)


def swap(doc, i):
    new = copy.deepcopy(doc)
    new["ins"][i], new["ins"][i + 1] = new["ins"][i + 1], new["ins"][i]
    return new


# ----------------------------------------------------------------------------- Fock basis helpers (independent)
_BASIS = {}


def fock_basis(d, cutoff):
    key = (d, cutoff)
    if key not in _BASIS:
        rows = []
        for n in range(cutoff):
            sector = [v for v in itertools.product(range(n + 1), repeat=d) if sum(v) == n]
            sector.sort(reverse=True)
            rows.extend(sector)
        _BASIS[key] = rows
    return _BASIS[key]


def fermi_basis(d, cutoff):
    return [v for v in fock_basis(d, cutoff) if max(v, default=0) <= 1]


def cutoff_from_len(d, n, fermi=False):
    for c in range(0, 40):
        size = len(fermi_basis(d, c)) if fermi else math.comb(d + c - 1, d) if d > 0 else (1 if c > 0 else 0)
        if size == n:
            return c
        if size > n:
            break
    raise AssertionError("state vector of length %d is not a truncated Fock space on %d modes" % (n, d))


def basis_perm(d, cutoff, sg, fermi=False):
    """idx[i] = index of the basis vector obtained from basis vector i by moving position j to sg[j]."""
    basis = fermi_basis(d, cutoff) if fermi else fock_basis(d, cutoff)
    pos = {v: i for i, v in enumerate(basis)}
    return np.array([pos[tuple(_perm_vec(list(v), sg))] for v in basis], dtype=int), basis


def sort_parity(seq):
    seq = list(seq)
    s = 1
    for i in range(len(seq)):
        for j in range(i + 1, len(seq)):
            if seq[i] > seq[j]:
                s = -s
    return s


# ----------------------------------------------------------------------------- observation of a state
def observe_state(ctx, simname, state, n_photons):
    """Dictionary of arrays describing the state through public accessors (positions = active modes)."""
    if state is None:
        return None
    o = {"d": int(state.d)}
    if o["d"] == 0:
        return o
    if simname == "purefock":
        o["vec"] = np.array(state.state_vector, dtype=complex)
    elif simname == "fock":
        o["rho"] = np.array(state.density_matrix, dtype=complex)
    elif simname == "gaussian":
        o["mean"] = np.array(state.xxpp_mean_vector, dtype=float)
        o["cov"] = np.array(state.xxpp_covariance_matrix, dtype=float)
    elif simname == "passive":
        from piquasso.api.exceptions import NotImplementedCalculation

        o["U"] = np.array(state.interferometer, dtype=complex)
        try:
            o["vec"] = np.array(state.state_vector, dtype=complex)
        except NotImplementedCalculation:
            ctx.c["skipped_not_implemented"] += 1
        occs = fock_basis(o["d"], n_photons + 1)
        try:
            o["prob"] = np.array([float(np.real(state.get_particle_detection_probability(np.array(v, dtype=int)))) for v in occs])
            o["prob_occs"] = occs
        except NotImplementedCalculation:
            ctx.c["skipped_not_implemented"] += 1
    elif simname == "fgaussian":
        o["cov"] = np.array(state.covariance_matrix, dtype=float)
        occs = [v for v in itertools.product((0, 1), repeat=o["d"])]
        o["prob"] = np.array([float(np.real(state.get_particle_detection_probability(np.array(v, dtype=int)))) for v in occs])
        o["prob_occs"] = occs
    elif simname == "ffock":
        o["vec"] = np.array(state.state_vector, dtype=complex)
    return o


def observe(ctx, doc, res):
    """-> {outcome tuple: (weight, state observation)}; the weight is a float."""
    n_in = total_photons(doc)
    out = {}
    for b in res.branches:
        key = tuple(int(x) if float(x).is_integer() else float(x) for x in b.outcome)
        if key in out:
            raise AssertionError("two branches with the same outcome %r" % (key,))
        o = observe_state(ctx, doc["sim"], b.state, n_in)
        if o is not None and "U" in o and any(i["t"] in ("Kerr", "CrossKerr") for i in doc["ins"]):
            # a Kerr gate folds the interferometer applied so far into the (occupations, coefficients) list and resets it:
            # the interferometer attribute alone is then representation dependent; amplitudes and probabilities are compared
            del o["U"]
        out[key] = (float(b.frequency), o)
    return out


def total_photons(doc):
    n = 0
    for idoc in doc["ins"]:
        p = idoc.get("p", {})
        if "occupation_numbers" in p:
            n = max(n, sum(p["occupation_numbers"]))
        if "fock_amplitude_map" in p:
            n = max([n] + [sum(k) for k, _ in p["fock_amplitude_map"]["__map__"]])
        if "ket" in p:
            n = max(n, sum(p["ket"]), sum(p["bra"]))
    return n


# ----------------------------------------------------------------------------- tolerances (derived, DESIGN 2.7)
def tolerance(doc):
    """Absolute tolerance on state entries / weights: C_TOL * eps * (number of steps) * (bound on the summed magnitudes)."""
    from vf.gen import matrices as M

    sim = doc["sim"]
    d = doc["d"]
    cfg = doc.get("config", {})
    L = len(doc["ins"]) + 1
    if sim in ("purefock", "fock"):
        c = int(cfg.get("cutoff", 4))
        scale = math.comb(d + c - 1, d)  # length of the sums in a dense subspace transformation, amplitudes <= 1
        if sim == "fock":
            scale *= 2
    elif sim == "passive":
        n = total_photons(doc)
        scale = float(d) ** max(n, 1) * 2  # Glynn / Ryser summands are bounded by prod of row sums <= d^n
    elif sim == "fgaussian":
        scale = (2 * d) ** 2
        for idoc in doc["ins"]:
            if idoc["t"] == "GaussianHamiltonian":
                h = M.dec(idoc["p"]["hamiltonian"])
                scale *= max(1.0, float(np.linalg.norm(h, 2)))  # expm scaling-and-squaring loses ~|h| eps
    elif sim == "ffock":
        scale = 2.0 ** d * d
    else:  # gaussian: congruences X C X^T with |X| <= g amplify entries (and their rounding) by g^2
        hbar = float(cfg.get("hbar", 2.0))
        S = hbar  # bound on the entries of the covariance
        R = hbar  # bound on the magnitude whose rounding ends up in the entries
        mean = 0.0
        kmax = 1
        for idoc in doc["ins"]:
            t, p = idoc["t"], idoc.get("p", {})
            g = 1.0
            if t == "Covariance":
                S = R = hbar * max(1.0, float(np.max(np.abs(M.dec(p["cov"])))))
            elif t == "Thermal":
                S = R = hbar * (2 * max(p["mean_photon_numbers"]) + 1)
            elif t == "Mean":
                mean = math.sqrt(hbar) * float(np.max(np.abs(M.dec(p["mean"]))))
            elif t in ("Squeezing", "Squeezing2"):
                g = math.exp(abs(p["r"]))
            elif t in ("QuadraticPhase", "ControlledX", "ControlledZ"):
                g = 1.0 + abs(p["s"])
            elif t == "GaussianTransform":
                g = float(np.linalg.norm(M.dec(p["passive"]), 2) + np.linalg.norm(M.dec(p["active"]), 2))
            elif t == "Displacement":
                mean += math.sqrt(2 * hbar) * abs(p["r"])
            elif t in ("PositionDisplacement", "MomentumDisplacement"):
                mean += (1 + math.sqrt(2 * hbar)) * abs(list(p.values())[0])
            elif t == "Attenuator":
                add = hbar * (2 * abs(p.get("mean_thermal_excitation", 0)) + 1)
                S += add
                R += add
            elif t in ("HomodyneMeasurement", "HeterodyneMeasurement"):
                # sigma_B - C (sigma_A + D)^-1 C^T with D = hbar diag(z^2, z^-2): |inverse| <= 1/dmin, cond <= (S + dmax)/dmin
                z = float(p.get("z", 1.0))
                dmin, dmax = hbar * min(z * z, 1 / (z * z)), hbar * max(z * z, 1 / (z * z))
                R = max(R, S * S * (S + dmax) / (dmin * dmin))
            if idoc.get("m"):
                kmax = max(kmax, len(idoc["m"]))
            S *= g * g
            R *= g * g
            mean *= g
        scale = (2 * kmax) ** 2 * max(R, mean, 1.0)
    return C_TOL * EPS * L * scale


# ----------------------------------------------------------------------------- comparators
def _maxdev(a, b):
    a = np.asarray(a)
    b = np.asarray(b)
    if a.shape != b.shape:
        return float("inf")
    if a.size == 0:
        return 0.0
    dv = np.abs(a - b)
    if not np.all(np.isfinite(dv)):
        # non-finite entries on one side only (or different ones) are a deviation; identical nan patterns are not judged
        if np.array_equal(np.isnan(a), np.isnan(b)) and np.array_equal(np.isinf(a), np.isinf(b)):
            dv = np.where(np.isfinite(dv), dv, 0.0)
        else:
            return float("inf")
    return float(dv.max())


def compare_states(ctx, simname, oa, ob, sg, pi_full, tol, sign_info=None):
    """oa: observation of p's state, ob: of the partner; sg: position map of the active modes (identity for exchanges);
    pi_full: label map on all d modes (passive interferometer). Returns [(what, deviation, tolerance)] that failed."""
    bad = []
    if oa is None or ob is None:
        if (oa is None) != (ob is None):
            bad.append(("state-presence", float("inf"), 0.0))
        return bad
    if oa["d"] != ob["d"]:
        return [("state-size", float("inf"), 0.0)]
    d = oa["d"]
    if d == 0:
        return bad
    ctx.c["state_comparisons"] += 1

    def judge(what, dev, t):
        ctx.dev(dev, t)
        if not dev <= t:
            bad.append((what, dev, t))

    sg = list(sg)
    if simname in ("purefock", "ffock") or (simname == "passive" and "vec" in oa and "vec" in ob):
        fermi = simname == "ffock"
        if len(oa["vec"]) != len(ob["vec"]):
            bad.append(("vector-length", float("inf"), 0.0))
        else:
            c = cutoff_from_len(d, len(oa["vec"]), fermi)
            idx, basis = basis_perm(d, c, sg, fermi)
            if fermi:
                judge("probabilities", _maxdev(np.abs(oa["vec"]) ** 2, np.abs(ob["vec"][idx]) ** 2), 4 * tol)
                if sign_info is not None:
                    # amplitude'[pi n] = s0 * parity(sort pi(occupied modes of n)) * amplitude[n]
                    signs = np.array([sort_parity([sg[j] for j in range(d) if v[j]]) for v in basis], dtype=float)
                    ctx.c["ffock_signed_amplitude_comparisons"] += 1
                    judge("signed-amplitudes", _maxdev(sign_info * signs * oa["vec"], ob["vec"][idx]), tol)
            else:
                judge("amplitudes", _maxdev(oa["vec"], ob["vec"][idx]), tol)
    if simname == "fock":
        if oa["rho"].shape != ob["rho"].shape:
            bad.append(("density-shape", float("inf"), 0.0))
        else:
            c = cutoff_from_len(d, oa["rho"].shape[0])
            idx, _ = basis_perm(d, c, sg)
            judge("density-matrix", _maxdev(oa["rho"], ob["rho"][np.ix_(idx, idx)]), tol)
    if simname == "gaussian":
        idx = np.array(sg + [s + d for s in sg])
        judge("mean", _maxdev(oa["mean"], ob["mean"][idx]), tol)
        judge("covariance", _maxdev(oa["cov"], ob["cov"][np.ix_(idx, idx)]), tol)
    if simname == "fgaussian":
        idx = np.array([2 * s + q for s in sg for q in (0, 1)])
        judge("covariance", _maxdev(oa["cov"], ob["cov"][np.ix_(idx, idx)]), tol)
    if simname == "passive" and "U" in oa and "U" in ob:
        if oa["U"].shape != ob["U"].shape:
            bad.append(("interferometer-shape", float("inf"), 0.0))
        elif len(oa["U"]) == len(pi_full):
            idx = np.array(pi_full)
            judge("interferometer", _maxdev(oa["U"], ob["U"][np.ix_(idx, idx)]), tol)
    if "prob" in oa and "prob" in ob:
        pos = {v: i for i, v in enumerate(ob["prob_occs"])}
        idx = np.array([pos[tuple(_perm_vec(list(v), sg))] for v in oa["prob_occs"]], dtype=int)
        judge("detection-probabilities", _maxdev(oa["prob"], ob["prob"][idx]), 4 * tol)
    return bad


def compare_results(ctx, doc, partner, case, kind, obs_a, obs_b, pi, tol, ffock_sign=None):
    """Tuple-order semantics first; a passive program whose explicit measurement tuple covers all active modes is retried
    under the ascending-order behaviour of the unchanged tree and, if that explains everything, reported under its own key."""
    if kind != "commute" and (has_full_tuple_quirk(doc) or has_full_tuple_quirk(partner)):
        keep = len(ctx.violations)
        if _compare_results(ctx, doc, partner, case, kind, obs_a, obs_b, pi, tol, ffock_sign, False):
            first = ctx.violations[keep:]
            del ctx.violations[keep:]
            if _compare_results(ctx, doc, partner, case, kind, obs_a, obs_b, pi, tol, ffock_sign, True):
                del ctx.violations[keep:]
                ctx.violations.extend(first)
            else:
                ctx.viol("passive:full-measurement-ignores-tuple-order",
                         "ParticleNumberMeasurement on a tuple that covers all active modes returns the outcome in ascending mode "
                         "order instead of the order of the tuple (a partial measurement follows the tuple): %s" % first[0]["message"], case)
            return True
        return False
    return _compare_results(ctx, doc, partner, case, kind, obs_a, obs_b, pi, tol, ffock_sign, False)


def _compare_results(ctx, doc, partner, case, kind, obs_a, obs_b, pi, tol, ffock_sign, quirk):
    """obs_a: branch map of p; obs_b: of the partner; pi = label permutation (identity for exchanges)."""
    simname = doc["sim"]
    remaining = active_before(doc)[-1]
    sg = induced(pi, remaining)
    ctx.c["branch_map_comparisons"] += 1
    expect = {}
    for o in obs_a:
        expect[map_outcome(doc, partner, pi, o, quirk) if kind != "commute" else o] = o
    hit = False
    for ob_key in sorted(set(expect) | set(obs_b), key=repr):
        a = obs_a.get(expect.get(ob_key)) if ob_key in expect else None
        b = obs_b.get(ob_key)
        wa = a[0] if a else 0.0
        wb = b[0] if b else 0.0
        if a is None or b is None:
            # one-sided branch: legitimate only below the probability filter of the measurement step
            ctx.dev(max(wa, wb), FILTER * 1.1 + tol)
            if max(wa, wb) > FILTER * 1.1 + tol:
                ctx.viol("%s:%s:branch-missing" % (kind, simname),
                         "outcome %r has weight %.6g in one program and is absent from its %s partner (outcomes there: %s)" % (
                             ob_key, max(wa, wb), kind, sorted(obs_b)[:6] if a else sorted(expect)[:6]), case)
                return True
            continue
        ctx.dev(abs(wa - wb), 4 * tol)
        if not abs(wa - wb) <= 4 * tol:
            ctx.viol("%s:%s:branch-weight" % (kind, simname),
                     "outcome %r: weight %.15g vs %.15g in the %s partner (|diff|=%.3g > tol %.3g)" % (ob_key, wa, wb, kind, abs(wa - wb), 4 * tol), case)
            return True
        if a[1] is None and b[1] is None:
            continue
        if len(obs_a) > 1 and min(wa, wb) < TINY_BRANCH and simname != "passive":
            ctx.c["skipped_tiny_branches"] += 1
            continue
        # post-measurement states are renormalised by 1/sqrt(w) (pure) or 1/w (density matrix): rounding is amplified alike
        amp = 1.0
        if len(obs_a) > 1 or any(i["t"] == "ParticleNumberMeasurement" for i in doc["ins"]):
            if simname in ("purefock", "ffock"):
                amp = 1.0 / math.sqrt(max(min(wa, wb), TINY_BRANCH))
            elif simname == "fock":
                amp = 1.0 / max(min(wa, wb), TINY_BRANCH)
        bad = compare_states(ctx, simname, a[1], b[1], sg, list(pi), tol * amp, ffock_sign)
        if bad:
            what, dev, t = bad[0]
            ctx.viol("%s:%s:%s" % (kind, simname, what),
                     "%s of the final state (outcome %r) differs from the %s partner by %.3g > tol %.3g%s" % (
                         what, ob_key, kind, dev, t, "; also " + ",".join(w for w, _, _ in bad[1:]) if len(bad) > 1 else ""), case)
            hit = True
            break
    return hit


def lossy_superposition(doc):
    """PassiveSimulator, lossy, and the state is a superposition of several occupation vectors (after a Kerr gate or from a
    multi-term FockStateVector): get_lossy_particle_number_probability weights the cross terms with conj(c_i) c_j swapped
    (finding passive:lossy-probability-of-superposition-conjugated), so any two equivalent programs that distribute phases
    differently between the coefficients and the transmission matrix disagree."""
    if doc["sim"] != "passive" or not any(i["t"] in ("Loss", "LossyInterferometer", "UniformLoss") for i in doc["ins"]):
        return False
    if any(i["t"] in ("Kerr", "CrossKerr") for i in doc["ins"]):
        return True
    return any(i["t"] == "FockStateVector" and len(i["p"]["fock_amplitude_map"]["__map__"]) > 1 for i in doc["ins"])


def ffock_sign_factor(doc, pi):
    """s0 for number-state inputs without measurements, None where the signed comparison is not defined."""
    if doc["sim"] != "ffock" or any(ins_kind(i) == "meas" for i in doc["ins"]):
        return None
    preps = [i for i in doc["ins"] if ins_kind(i) == "prep"]
    if len(preps) != 1 or preps[0]["t"] != "NumberState" or preps[0].get("m") is not None:
        return None
    occ = preps[0]["p"]["occupation_numbers"]
    return float(sort_parity([pi[j] for j in range(len(occ)) if occ[j]]))


# ----------------------------------------------------------------------------- judging one pair
def judge_pair(ctx, pq, kind, doc, partner, case, pi, base=None):
    """Runs p (unless `base` holds its outcome) and the partner, compares. Returns p's run outcome for reuse."""
    from vf.gen import programs as G
    from piquasso.api.exceptions import NotImplementedCalculation

    ctx.evals += 1
    simname = doc["sim"]
    ra = base if base is not None else run_doc(ctx, pq, doc)
    rb = run_doc(ctx, pq, partner)
    ctx.c["%s_pairs" % kind] += 1
    ctx.bump("pairs_by_sim_kind", "%s:%s" % (simname, kind))
    if ra[0] == "raised" or rb[0] == "raised":
        ea = ra[1] if ra[0] == "raised" else None
        eb = rb[1] if rb[0] == "raised" else None
        if ea is not None and eb is not None and type(ea) is type(eb):
            ctx.c["skipped_both_raised"] += 1
            if isinstance(ea, NotImplementedCalculation):
                ctx.c["skipped_not_implemented"] += 1
            else:
                ctx.obs.add("both programs of a %s pair raised %s at %s" % (kind, type(ea).__name__, _where(ea)))
            return ra
        if ra[2].zero_norm or rb[2].zero_norm:
            ctx.c["skipped_zero_norm_postselection"] += 1
            return ra
        if isinstance(ea, NotImplementedCalculation) or isinstance(eb, NotImplementedCalculation):
            # the library's explicit "outside the support" (e.g. Kerr on a lossy state, measurement of a materialised
            # superposition): which of two equivalent orders is supported is not what the property is about
            ctx.c["skipped_not_implemented"] += 1
            return ra
        e = ea if ea is not None else eb
        ctx.viol("%s:%s:one-sided-exception:%s" % (kind, simname, type(e).__name__),
                 "%s raised %s at %s (%s) while %s ran" % (
                     "the original program" if ea is not None else "the %s partner" % kind, type(e).__name__, _where(e), str(e)[:160],
                     "its partner" if ea is not None else "the original"), case)
        return ra
    if ra[2].zero_norm or rb[2].zero_norm:
        ctx.c["skipped_zero_norm_postselection"] += 1
        return ra
    if ra[2].steps != rb[2].steps and kind == "relabel":
        ctx.obs.add("a relabelled program ran a different number of branch steps than the original (branch filtered at the 1e-8 threshold)")
    tol = tolerance(doc)
    n_before = len(ctx.violations)
    try:
        _judge_results(ctx, doc, partner, case, kind, ra, rb, pi, tol)
    finally:
        if lossy_superposition(doc):
            for v in ctx.violations[n_before:]:
                if v["mechanism"].endswith((":detection-probabilities", ":branch-weight", ":branch-missing")):
                    v["mechanism"] = "passive:lossy-probability-of-superposition-conjugated"
    ctx.classes.add(G.class_key(doc, "|" + kind))
    return ra


def _judge_results(ctx, doc, partner, case, kind, ra, rb, pi, tol):
    simname = doc["sim"]
    if doc.get("shots") is None:
        oa = observe(ctx, doc, ra[1])
        ob = observe(ctx, partner, rb[1])
        if doc["sim"] == "gaussian" and any(i["t"].endswith("dyneMeasurement") for i in doc["ins"]):
            raise AssertionError("gaussian measurement with shots=None")
        if kind == "sampler":
            exp = routed_outcome(doc)
            ctx.c["deterministic_routing_checks"] += 1
            ctx.c["sample_comparisons"] += 1
            live = {k: w for k, (w, _) in oa.items() if w > FILTER * 1.1}
            if set(live) != {exp} or abs(live[exp] - 1.0) > 4 * tol:
                if set(live) == {routed_outcome(doc, True)}:
                    ctx.viol("passive:full-measurement-ignores-tuple-order",
                             "deterministic program: exact branch map %s, the photons are routed to %s in the order of the measurement tuple" % (
                                 sorted(live.items())[:4], exp), case)
                else:
                    ctx.viol("sampler:%s:routing" % simname, "deterministic program has the exact branch map %s, the photons are routed to %s" % (
                        sorted(live.items())[:4], exp), case)
                    return ra
        compare_results(ctx, doc, partner, case, kind, oa, ob, pi, tol,
                        ffock_sign_factor(doc, pi) if kind != "commute" else (1.0 if simname == "ffock" else None))
    else:
        judge_sampled(ctx, doc, partner, case, kind, ra[1], rb[1], pi, tol)


def judge_sampled(ctx, doc, partner, case, kind, res_a, res_b, pi, tol):
    simname = doc["sim"]
    if simname == "gaussian":
        # general-dyne outcomes are random; the conditional covariance does not depend on them
        sa = res_a.branches[0].state
        sb = res_b.branches[0].state
        remaining = active_before(doc)[-1]
        sg = induced(pi, remaining)
        d = sa.d
        if sb.d != d:
            ctx.viol("%s:gaussian:state-size" % kind, "post-measurement states have %d and %d modes" % (d, sb.d), case)
            return
        ctx.c["state_comparisons"] += 1
        idx = np.array(list(sg) + [s + d for s in sg])
        dev = _maxdev(np.array(sa.xxpp_covariance_matrix), np.array(sb.xxpp_covariance_matrix)[np.ix_(idx, idx)])
        ctx.dev(dev, tol)
        if not dev <= tol:
            ctx.viol("%s:gaussian:post-measurement-covariance" % kind,
                     "covariance after a mid-circuit general-dyne measurement differs from the %s partner by %.3g > tol %.3g" % (kind, dev, tol), case)
        # the outcome is a draw from the same seeded generator with the same (mean, covariance) sub-blocks in both runs: when
        # the two runs did observe the same outcome, the conditional means must agree as well (a seeded change that paired the
        # outcome entries with the wrong measured modes for non-ascending tuples left the covariance untouched)
        oa_ = np.array([float(v) for v in res_a.branches[0].outcome])
        ob_ = np.array([float(v) for v in res_b.branches[0].outcome])
        if oa_.shape == ob_.shape and oa_.size and float(np.abs(oa_ - ob_).max()) <= 1e-9 * max(1.0, float(np.abs(oa_).max())):
            ctx.c["gaussian_post_measurement_mean_comparisons"] = ctx.c.get("gaussian_post_measurement_mean_comparisons", 0) + 1
            ma, mb = np.array(sa.xxpp_mean_vector, dtype=float), np.array(sb.xxpp_mean_vector, dtype=float)[idx]
            # the conditional mean is (gain) x (outcome - mean): its rounding error scales with the outcome, whose unmeasured
            # homodyne quadrature is noise of order 1e3..1e4
            mtol = max(tol, 1e-9 * max(1.0, float(np.abs(oa_).max()), float(np.abs(ma).max())))
            mdev = _maxdev(ma, mb)
            ctx.dev(mdev, mtol)
            if not mdev <= mtol:
                ctx.viol("%s:gaussian:post-measurement-mean" % kind,
                         "both runs observed the outcome %s, but the mean after the mid-circuit general-dyne measurement differs from the %s partner by "
                         "%.3g > tol %.3g" % (np.round(oa_, 6).tolist()[:6], kind, mdev, mtol), case)
        else:
            ctx.c["gaussian_post_measurement_outcomes_differ"] = ctx.c.get("gaussian_post_measurement_outcomes_differ", 0) + 1
        return
    sa = [tuple(int(x) for x in s) for s in res_a.samples]
    sb = [tuple(int(x) for x in s) for s in res_b.samples]
    ctx.c["sample_comparisons"] += 1
    ctx.c["deterministic_routing_checks"] += 1
    problems = []
    for quirk in (False, True):
        exp = routed_outcome(doc, quirk)
        expb = map_outcome(doc, partner, pi, exp, quirk)
        problems = []
        if len(sa) != doc["shots"] or any(s != exp for s in sa):
            problems.append(("sampler:%s:routing" % simname,
                             "deterministic program returned samples %s, the photons are routed to %s" % (sa[:4], exp)))
        elif len(sb) != doc["shots"] or any(s != expb for s in sb):
            problems.append(("sampler:%s:relabelled-samples" % simname,
                             "relabelled deterministic program returned samples %s, expected %s (original: %s)" % (sb[:4], expb, exp)))
        if not problems:
            if quirk:
                ctx.viol("passive:full-measurement-ignores-tuple-order",
                         "sampling a deterministic program: %s" % first[0][1], case)
            return
        if not quirk:
            first = problems
            if not (has_full_tuple_quirk(doc) or has_full_tuple_quirk(partner)):
                break
    ctx.viol(first[0][0], first[0][1], case)


def routed_outcome(doc, quirk=False):
    """Independent oracle for number states through phased permutation matrices / diagonal gates."""
    from vf.gen import matrices as M

    occ = None
    acts = active_before(doc)
    out = []
    for k, idoc in enumerate(doc["ins"]):
        t, p = idoc["t"], idoc.get("p", {})
        modes = idoc["m"] if idoc.get("m") is not None else acts[k]
        if t in ("NumberState", "DensityMatrix"):
            occ = {m: int(v) for m, v in zip(range(doc["d"]), p.get("occupation_numbers", p.get("ket")))}
        elif t == "Interferometer":
            u = M.dec(p["matrix"])
            new = {}
            for i, mi in enumerate(modes):  # output mode modes[i] receives input mode modes[j] where u[i, j] != 0
                j = int(np.argmax(np.abs(u[i])))
                if abs(abs(u[i, j]) - 1) > 1e-12:
                    raise AssertionError("not a permutation interferometer")
                new[mi] = occ[modes[j]]
            occ.update(new)
        elif t == "ParticleNumberMeasurement":
            if quirk and doc["sim"] == "passive" and set(modes) == set(acts[k]):
                modes = sorted(modes)
            out.extend(occ[m] for m in modes)
        elif t in ("Phaseshifter", "Fourier", "Kerr", "CrossKerr", "ControlledPhase"):
            pass
        else:
            raise AssertionError("routed_outcome: unsupported instruction %s" % t)
    return tuple(out)


# ----------------------------------------------------------------------------- generators
def _rand_perm(rng, d):
    for _ in range(8):
        pi = [int(x) for x in rng.permutation(d)]
        if pi != list(range(d)) or d == 1:
            return pi
    return pi


def _block_perm(rng, doc):
    """Permutation that moves every maximal run of modes linked by a multi-mode tuple rigidly (fermionic Fock)."""
    d = doc["d"]
    link = [False] * (d - 1)
    for idoc in doc["ins"]:
        m = idoc.get("m")
        if m is not None and len(m) >= 2 and idoc["t"] not in ("ParticleNumberMeasurement", "ControlledPhase"):
            for a in range(min(m), max(m)):
                link[a] = True
    blocks = [[0]]
    for a in range(1, d):
        if link[a - 1]:
            blocks[-1].append(a)
        else:
            blocks.append([a])
    for _ in range(8):
        order = [int(x) for x in rng.permutation(len(blocks))]
        pi = [None] * d
        pos = 0
        for bi in order:
            for a in blocks[bi]:
                pi[a] = pos
                pos += 1
        if pi != list(range(d)):
            break
    return pi


def gen_bosonic_fock(rng, sim, tier, for_commute):
    from vf.gen import programs as G

    r = rng.random()
    if sim == "purefock" and r < (0.3 if not for_commute else 0.35):
        doc = G.adaptive_program(rng, sim="purefock", shots=None, tight_cutoff=False, allow_active=False,
                                 postselect=bool(rng.random() < 0.5))
        doc["nc_history"] = True
        if rng.random() < 0.3 and ins_kind(doc["ins"][-1]) != "meas" and len(active_before(doc)[-1]) >= 1:
            doc["ins"].append({"t": "ParticleNumberMeasurement", "m": None, "p": {}})  # all-mode final measurement
        return doc
    d = int(rng.choice([1, 2, 3, 3, 4, 4])) if sim == "purefock" else int(rng.choice([1, 2, 2, 3, 3]))
    cmax = {1: 8, 2: 7, 3: 6, 4: 5}[d] if sim == "purefock" else {1: 7, 2: 5, 3: 4}[d]
    cutoff = int(rng.integers(3, cmax + 1))
    cfg = {"cutoff": cutoff, "hbar": float(rng.choice([2.0, 1.0, 0.37, 3.3]))}
    ins = []
    nmax = max(0, cutoff - 3)
    kind = rng.random()
    n_in = 0
    if sim == "purefock":
        if kind < 0.3:
            ins.append({"t": "Vacuum", "m": None, "p": {}})
        elif kind < 0.7:
            occ = G.number_state(rng, d, nmax + 1)
            ins.append({"t": "NumberState", "m": None, "p": {"occupation_numbers": occ}})
        else:
            sp, occs, amps = G.superposition(rng, d, nmax + 1, terms=3)
            ins.append(sp)
    else:
        if kind < 0.35:
            ins.append({"t": "Vacuum", "m": None, "p": {}})
        elif kind < 0.7:
            occ = G.number_state(rng, d, nmax + 1)
            ins.append({"t": "DensityMatrix", "m": None, "p": {"ket": occ, "bra": occ}})
        else:
            o1 = G.number_state(rng, d, nmax + 1)
            o2 = G.number_state(rng, d, nmax + 1)
            if o1 == o2:
                o2 = [0] * d
            if o1 == o2:
                o1 = [1] + [0] * (d - 1)
            p1 = float(rng.uniform(0.2, 0.8))
            coh = 0.9 * math.sqrt(p1 * (1 - p1)) * np.exp(1j * rng.uniform(0, 2 * np.pi))
            ins.append({"t": "DensityMatrix", "m": None, "p": {"ket": o1, "bra": o1}, "mul": p1})
            ins.append({"t": "DensityMatrix", "m": None, "p": {"ket": o2, "bra": o2}, "mul": 1 - p1})
            ins.append({"t": "DensityMatrix", "m": None, "p": {"ket": o1, "bra": o2}, "mul": G.enc_complex(coh)})
            ins.append({"t": "DensityMatrix", "m": None, "p": {"ket": o2, "bra": o1}, "mul": G.enc_complex(np.conj(coh))})
    n_in = total_photons({"ins": ins})
    nc_pool = list(PASSIVE) + ["Kerr", "CrossKerr", "SNAP", "Interferometer"]
    act_pool = ["Squeezing", "QuadraticPhase", "Squeezing2", "GaussianTransform", "Displacement", "PositionDisplacement",
                "MomentumDisplacement", "CubicPhase"] + (["Attenuator"] if sim == "fock" else [])
    mix = rng.random()
    ngates = int(rng.integers(2 if for_commute else 1, 7 if for_commute else 6))
    nc_history = True
    for _ in range(ngates):
        pool = nc_pool if (mix < 0.4 or rng.random() < 0.55) else act_pool
        name = str(rng.choice(pool))
        g = G.gate(rng, name, d, active_scale=0.25, disp_scale=0.4, cutoff=cutoff)
        if g is None:
            continue
        if for_commute and len(g["m"]) == d and d > 1 and rng.random() < 0.7:
            continue  # full-support gates never commute-pair
        if name == "Interferometer" and len(g["m"]) == d and rng.random() < 0.3:
            g["m"] = None  # all-mode instruction without a tuple
        if name in act_pool:
            nc_history = False
        ins.append(g)
    shots = None
    r2 = rng.random()
    if r2 < 0.45:
        k = int(rng.integers(1, d + 1))
        ins.append({"t": "ParticleNumberMeasurement", "m": G.ordered_subset(rng, d, k) if (k < d or rng.random() < 0.6) else None, "p": {}})
    doc = {"sim": sim, "d": d, "config": cfg, "ins": ins, "shots": shots}
    doc["nc_history"] = bool(nc_history and cutoff >= n_in + 3)
    return doc


def gen_gaussian(rng, tier, for_commute):
    from vf.gen import programs as G
    from vf.gen import matrices as M

    d = int(rng.choice([1, 2, 3, 3, 4, 4, 5]))
    hbar = float(rng.choice([2.0, 1.0, 0.37, 3.3]))
    cfg = {"hbar": hbar}
    ins = []
    k = rng.random()
    if k < 0.35:
        ins.append({"t": "Vacuum", "m": None, "p": {}})
    elif k < 0.85:
        # piquasso's Covariance parameter is dimensionless with vacuum = identity (state covariance = hbar * parameter)
        mean, cov = M.physical_gaussian(rng, d, 2.0)
        idx = M.xxpp_to_xpxp(d)
        ins.append({"t": "Vacuum", "m": None, "p": {}})
        ins.append({"t": "Mean", "m": None, "p": {"mean": M.enc(mean[idx] / math.sqrt(2.0))}})
        ins.append({"t": "Covariance", "m": None, "p": {"cov": M.enc(cov[np.ix_(idx, idx)])}})
    else:
        ins.append({"t": "Thermal", "m": None, "p": {"mean_photon_numbers": [float(x) for x in rng.uniform(0, 2, size=d)]}})
    pool = list(G.PASSIVE_GATES) + list(G.ACTIVE_GATES) * 2 + list(G.DISPLACEMENTS) + ["Attenuator"]
    ngates = int(rng.integers(2 if for_commute else 1, 8))
    dyne_at = int(rng.integers(1, ngates + 1)) if (not for_commute and d >= 2 and rng.random() < 0.35) else None
    active = list(range(d))
    for gi in range(ngates):
        if dyne_at is not None and gi == dyne_at and len(active) >= 2:
            km = int(rng.integers(1, len(active)))
            mm = [active[i] for i in G.ordered_subset(rng, len(active), km)]
            t = str(rng.choice(["HomodyneMeasurement", "HeterodyneMeasurement"]))
            # z of order one: the default z=1e-4 makes the conditional covariance ill-conditioned (cond ~1e16)
            ins.append({"t": t, "m": mm, "p": {"phi": G.angle(rng), "z": float(rng.choice([0.5, 1.0, 2.0]))} if t == "HomodyneMeasurement" else {}})
            active = [a for a in active if a not in mm]
        name = str(rng.choice(pool))
        g = G.gate(rng, name, len(active), active_scale=0.35, disp_scale=0.6)
        if g is None:
            continue
        if name == "Attenuator":
            g["p"]["mean_thermal_excitation"] = float(rng.choice([0.0, 0.0, 0.7]))
        if for_commute and len(g["m"]) == len(active) and d > 1 and rng.random() < 0.7:
            continue
        g["m"] = [active[i] for i in g["m"]]
        if name == "Interferometer" and len(g["m"]) == len(active) and rng.random() < 0.3:
            u = M.dec(g["p"]["matrix"])
            perm = np.argsort(g["m"])
            g["p"]["matrix"] = M.enc(u[np.ix_(perm, perm)])
            g["m"] = None
        ins.append(g)
    has_dyne = any(i["t"].endswith("dyneMeasurement") for i in ins)
    if has_dyne:
        cfg["seed_sequence"] = int(rng.integers(1, 2 ** 31))
    return {"sim": "gaussian", "d": d, "config": cfg, "ins": ins, "shots": 1 if has_dyne else None}


def gen_passive(rng, tier, for_commute):
    from vf.gen import programs as G
    from vf.gen import matrices as M

    r = rng.random()
    if r < 0.35:
        # one mid-circuit measurement, gates (conditions, outcome-dependent parameters) on the remaining modes
        for _ in range(20):
            doc = G.adaptive_program(rng, sim="passive", shots=None, max_meas=1, postselect=bool(rng.random() < 0.4))
            seen = False
            ok = True
            for idoc in doc["ins"]:
                if ins_kind(idoc) == "meas":
                    seen = True
                elif seen and idoc["t"] in ("Kerr", "CrossKerr"):
                    ok = False  # known defect (C13): Kerr after a mid-circuit measurement raises IndexError
            if ok:
                doc["config"] = {"hbar": doc["config"]["hbar"]}
                return doc
    d = int(rng.choice([2, 3, 3, 4, 4]))
    n = int(rng.integers(1, 5 if d < 4 else 4))
    ins = []
    multi = rng.random() < 0.2
    if multi:
        sp, occs, amps = G.superposition(rng, d, n, terms=3, same_n=True)
        ins.append(sp)
    else:
        occ = G.number_state(rng, d, n, bunched=rng.random() < 0.2)
        ins.append({"t": "NumberState", "m": None, "p": {"occupation_numbers": occ}})
    pool = list(PASSIVE) * 2 + ["Kerr", "CrossKerr"]
    lossy = False
    for _ in range(int(rng.integers(2 if for_commute else 1, 7))):
        name = str(rng.choice(pool))
        g = G.gate(rng, name, d)
        if g is None:
            continue
        if for_commute and len(g["m"]) == d and rng.random() < 0.7:
            continue
        if name == "Interferometer" and len(g["m"]) == d and rng.random() < 0.3:
            u = M.dec(g["p"]["matrix"])
            perm = np.argsort(g["m"])
            g["p"]["matrix"] = M.enc(u[np.ix_(perm, perm)])
            g["m"] = None
        ins.append(g)
        if not multi and rng.random() < 0.12:
            lossy = True
            q = rng.random()
            if q < 0.5:
                ins.append({"t": "Loss", "m": [int(rng.integers(0, d))], "p": {"transmissivity": float(rng.choice([0.0, 0.5, 0.9]))}})
            elif q < 0.75:
                T, s = M.transmission_matrix(rng, d)
                ins.append({"t": "LossyInterferometer", "m": None, "p": {"matrix": M.enc(T)}})
            else:
                ins.append({"t": "UniformLoss", "m": None, "p": {"transmissivity": float(rng.choice([0.3, 0.9]))}})
    if not multi and rng.random() < 0.4:
        k = int(rng.integers(1, d + 1))
        if lossy:
            k = d  # marginal probabilities of non-uniformly lossy states are not implemented
        ins.append({"t": "ParticleNumberMeasurement", "m": G.ordered_subset(rng, d, k) if (k < d or rng.random() < 0.5) else None, "p": {}})
    return {"sim": "passive", "d": d, "config": {"hbar": float(rng.choice([2.0, 1.0]))}, "ins": ins, "shots": None}


def _fermionic_hamiltonian(rng, k):
    a = rng.normal(size=(k, k)) + 1j * rng.normal(size=(k, k))
    A = (a + a.conj().T) / 2 * 0.4
    b = rng.normal(size=(k, k)) + 1j * rng.normal(size=(k, k))
    B = (b - b.T) / 2 * 0.4
    return np.block([[-A.conj(), B], [-B.conj(), A]])


def gen_fgaussian(rng, tier, for_commute):
    from vf.gen import programs as G
    from vf.gen import matrices as M

    d = int(rng.choice([2, 3, 3, 4, 4]))
    occ = [int(v) for v in rng.integers(0, 2, size=d)]
    ins = [{"t": "NumberState", "m": None, "p": {"occupation_numbers": occ}}] if rng.random() < 0.8 else [{"t": "Vacuum", "m": None, "p": {}}]
    for _ in range(int(rng.integers(2 if for_commute else 1, 7))):
        name = str(rng.choice(["Beamsplitter", "Phaseshifter", "Interferometer", "Squeezing2", "IsingXX", "GaussianHamiltonian"]))
        if name == "IsingXX":
            g = {"t": "IsingXX", "m": G.ordered_subset(rng, d, 2), "p": {"phi": G.angle(rng)}}
        elif name == "GaussianHamiltonian":
            k = int(rng.integers(1, min(d, 3) + 1))
            g = {"t": "GaussianHamiltonian", "m": G.ordered_subset(rng, d, k), "p": {"hamiltonian": M.enc(_fermionic_hamiltonian(rng, k))}}
        else:
            g = G.gate(rng, name, d, active_scale=0.8)
        if g is None:
            continue
        if for_commute and len(g["m"]) == d and rng.random() < 0.7:
            continue
        ins.append(g)
    return {"sim": "fgaussian", "d": d, "config": {}, "ins": ins, "shots": None}


def gen_ffock(rng, tier, for_commute):
    from vf.gen import programs as G

    d = int(rng.choice([2, 3, 3, 4, 4]))
    full = rng.random() < 0.8
    cutoff = d + 1 if full else int(rng.integers(2, d + 1))
    ins = []
    if rng.random() < 0.65:
        occ = [0] * d
        for m in rng.permutation(d)[: int(rng.integers(0, min(d, cutoff - 1) + 1))]:
            occ[int(m)] = 1
        ins.append({"t": "NumberState", "m": None, "p": {"occupation_numbers": occ}})
    else:
        occs = []
        for _ in range(6):
            o = [0] * d
            for m in rng.permutation(d)[: int(rng.integers(0, min(d, cutoff - 1) + 1))]:
                o[int(m)] = 1
            if o not in occs:
                occs.append(o)
            if len(occs) == 3:
                break
        amps = rng.normal(size=len(occs)) + 1j * rng.normal(size=len(occs))
        amps /= np.linalg.norm(amps)
        ins.append({"t": "FockStateVector", "m": None, "p": {"fock_amplitude_map": G.enc_map({tuple(o): a for o, a in zip(occs, amps)})}})
    # ControlledPhase on a truncated space (cutoff < d+1) raises IndexError on the unchanged tree (index list built for the
    # full space; a C17 matter) and the post-measurement gates below would hit it too: full space only
    pool = list(PASSIVE) + (["ControlledPhase", "Squeezing2", "IsingXX"] if full else [])
    span = d if rng.random() < 0.5 else max(2, d - 1)  # narrower windows leave blocks that can move
    for _ in range(int(rng.integers(2 if for_commute else 1, 7))):
        name = str(rng.choice(pool))
        if name == "ControlledPhase":
            if d < 2:
                continue
            g = {"t": "ControlledPhase", "m": G.ordered_subset(rng, d, 2), "p": {"phi": G.angle(rng)}}
        elif name == "IsingXX":
            a = int(rng.integers(0, d - 1))
            g = {"t": "IsingXX", "m": [a, a + 1], "p": {"phi": G.angle(rng)}}
        else:
            g = G.gate(rng, name, min(span, d) if name == "Interferometer" else d, active_scale=0.8)
            if g is None:
                continue
            k = len(g["m"])
            if for_commute and k == d and rng.random() < 0.8:
                continue
            start = int(rng.integers(0, d - k + 1))
            g["m"] = list(range(start, start + k))  # the fermionic Fock simulator accepts ascending consecutive tuples only
        ins.append(g)
    r = rng.random()
    if r < 0.35:
        k = int(rng.integers(1, d + 1))
        ins.append({"t": "ParticleNumberMeasurement", "m": G.ordered_subset(rng, d, k) if (k < d or rng.random() < 0.5) else None, "p": {}})
    elif r < 0.55 and d >= 3:
        k = int(rng.integers(1, d - 1))
        mm = G.ordered_subset(rng, d, k)
        ins.append({"t": "ParticleNumberMeasurement", "m": mm, "p": {}})
        left = [a for a in range(d) if a not in mm]
        for _ in range(int(rng.integers(1, 3))):
            if rng.random() < 0.5 or len(left) < 2 or not full:
                g = {"t": "Phaseshifter", "m": [int(rng.choice(left))], "p": {"phi": G.angle(rng)}}
            else:
                g = {"t": "ControlledPhase", "m": [int(x) for x in rng.permutation(left)[:2]], "p": {"phi": G.angle(rng)}}
            if rng.random() < 0.4:
                g["when"] = "x[%d] == %d" % (int(rng.integers(0, k)), int(rng.integers(0, 2)))
            ins.append(g)
    return {"sim": "ffock", "d": d, "config": {"cutoff": cutoff}, "ins": ins, "shots": None}


def gen_program(rng, sim, tier, for_commute=False):
    if sim in ("purefock", "fock"):
        return gen_bosonic_fock(rng, sim, tier, for_commute)
    if sim == "gaussian":
        return gen_gaussian(rng, tier, for_commute)
    if sim == "passive":
        return gen_passive(rng, tier, for_commute)
    if sim == "fgaussian":
        return gen_fgaussian(rng, tier, for_commute)
    return gen_ffock(rng, tier, for_commute)


GATEWISE = {
    "purefock": ["Interferometer", "Beamsplitter", "Beamsplitter5050", "MachZehnder", "CrossKerr", "Squeezing2", "GaussianTransform"],
    "fock": ["Interferometer", "Beamsplitter", "Beamsplitter5050", "MachZehnder", "CrossKerr", "Squeezing2", "GaussianTransform"],
    "gaussian": ["Interferometer", "Beamsplitter", "Beamsplitter5050", "MachZehnder", "Squeezing2", "GaussianTransform",
                 "ControlledX", "ControlledZ"],
    "passive": ["Interferometer", "Beamsplitter", "Beamsplitter5050", "MachZehnder", "CrossKerr"],
}


def gen_gatewise(rng, sim, name, tier):
    """A non-adaptive program of `sim` on d >= 2 modes with one extra multi-mode gate `name` inserted after the
    preparation; relabelled by the reversal and by a random permutation, so every (simulator, gate type) pair meets
    ascending and descending mode tuples in every run, whatever the random pools happen to draw."""
    from vf.gen import programs as G

    for _ in range(40):
        doc = gen_program(rng, sim, tier, False)
        kinds = [ins_kind(i) for i in doc["ins"]]
        if doc["d"] < 2 or any(has_dynamic_params(i) for i in doc["ins"]):
            continue
        if "meas" in kinds[:-1]:
            continue  # mid-circuit measurement: the active mode set changes
        if sim == "passive" and any(i["t"] in ("Loss", "LossyInterferometer", "UniformLoss") for i in doc["ins"]) and name == "CrossKerr":
            continue
        first_gate = max([k for k, x in enumerate(kinds) if x == "prep"] + [-1]) + 1
        last = len(doc["ins"]) - (1 if kinds and kinds[-1] == "meas" else 0)
        kw = {"cutoff": doc["config"]["cutoff"]} if sim in ("purefock", "fock") else {}
        g = G.gate(rng, name, doc["d"], active_scale=0.25, disp_scale=0.4, **kw)
        if g is None:
            continue
        doc["ins"].insert(int(rng.integers(first_gate, last + 1)), g)
        if sim in ("purefock", "fock") and not is_nc(sim, g):
            doc["nc_history"] = False
        return doc
    return None


def gen_sampler(rng, sim):
    """Number state through phased permutation interferometers: one possible outcome."""
    from vf.gen import matrices as M
    from vf.gen import programs as G

    d = int(rng.choice([2, 3, 3, 4, 4]))
    fermi = sim in ("ffock", "fgaussian")
    if fermi:
        occ = [int(v) for v in rng.integers(0, 2, size=d)]
        if sum(occ) == 0:
            occ[int(rng.integers(0, d))] = 1
    else:
        occ = G.number_state(rng, d, 3)
        if sum(occ) == 0:
            occ[int(rng.integers(0, d))] = 2
    n = sum(occ)
    cfg = {"seed_sequence": int(rng.integers(1, 2 ** 31))}
    if sim in ("purefock", "fock"):
        cfg["cutoff"] = n + 3
    if sim == "ffock":
        cfg["cutoff"] = d + 1
    if sim == "fock":
        ins = [{"t": "DensityMatrix", "m": None, "p": {"ket": occ, "bra": list(occ)}}]
    else:
        ins = [{"t": "NumberState", "m": None, "p": {"occupation_numbers": occ}}]
    active = list(range(d))

    def perm_gate(active):
        k = int(rng.integers(1 if len(active) == 1 else 2, len(active) + 1))
        u = (np.eye(k)[rng.permutation(k)] * np.exp(1j * rng.uniform(0, 2 * np.pi, size=k))).astype(complex)
        if sim == "ffock":
            pos = sorted(active)
            runs = [pos[i:i + k] for i in range(len(pos) - k + 1) if pos[i + k - 1] - pos[i] == k - 1]
            if not runs:
                return {"t": "Phaseshifter", "m": [int(rng.choice(active))], "p": {"phi": G.angle(rng)}}
            mm = runs[int(rng.integers(0, len(runs)))]
        else:
            mm = [active[i] for i in G.ordered_subset(rng, len(active), k)]
        return {"t": "Interferometer", "m": [int(x) for x in mm], "p": {"matrix": M.enc(u)}}

    def diag_gate(active):
        if sim in ("purefock", "fock", "passive") and rng.random() < 0.5:
            return {"t": "Kerr", "m": [int(rng.choice(active))], "p": {"xi": G.angle(rng)}}
        if not fermi and rng.random() < 0.3:
            return {"t": "Fourier", "m": [int(rng.choice(active))], "p": {}}
        return {"t": "Phaseshifter", "m": [int(rng.choice(active))], "p": {"phi": G.angle(rng)}}

    for _ in range(int(rng.integers(1, 4))):
        ins.append(perm_gate(active))
        if rng.random() < 0.4:
            ins.append(diag_gate(active))
    two = sim == "purefock" and d >= 2 and rng.random() < 0.6
    if two:
        k = int(rng.integers(1, d))
        mm = G.ordered_subset(rng, d, k)
        ins.append({"t": "ParticleNumberMeasurement", "m": mm, "p": {}})
        active = [a for a in active if a not in mm]
        for _ in range(int(rng.integers(0, 3))):
            ins.append(perm_gate(active))
        k2 = int(rng.integers(1, len(active) + 1))
        ins.append({"t": "ParticleNumberMeasurement", "m": [active[i] for i in G.ordered_subset(rng, len(active), k2)] if rng.random() < 0.7 else None, "p": {}})
    else:
        k = int(rng.integers(1, d + 1))
        ins.append({"t": "ParticleNumberMeasurement", "m": G.ordered_subset(rng, d, k) if (k < d or rng.random() < 0.5) else None, "p": {}})
    shots = int(rng.choice([1, 3, 5]))
    if sim in ("purefock", "fock", "passive", "ffock") and rng.random() < 0.35:
        shots = None
    return {"sim": sim, "d": d, "config": cfg, "ins": ins, "shots": shots}


# ----------------------------------------------------------------------------- case drivers
def choose_pi(rng, doc):
    return _block_perm(rng, doc) if doc["sim"] == "ffock" else _rand_perm(rng, doc["d"])


def strip(doc):
    return {k: v for k, v in doc.items() if k != "nc_history"}


def case_relabel(ctx, pq, doc, pi, base=None):
    case = {"kind": "relabel", "doc": doc, "pi": list(pi)}
    if pi == list(range(doc["d"])):
        return base
    return judge_pair(ctx, pq, "relabel", strip(doc), relabel(strip(doc), pi), case, list(pi), base)


def exchange_status(doc, i):
    """'exact' | 'skip-active' | None (not an admissible exchange)."""
    sim = doc["sim"]
    a, b = doc["ins"][i], doc["ins"][i + 1]
    ka, kb = ins_kind(a), ins_kind(b)
    if "prep" in (ka, kb) or a.get("m") is None or b.get("m") is None or set(a["m"]) & set(b["m"]):
        return None
    if ka == "meas" and kb == "meas":
        return None
    if "meas" in (ka, kb):
        g, m = (a, b) if ka == "gate" else (b, a)
        if sim not in ("purefock", "passive", "ffock") or m["t"] not in ("ParticleNumberMeasurement", "PostSelectPhotons"):
            return None
        if has_dynamic_params(g) or has_dynamic_params(m):
            return None  # the outcome tuple seen by a condition would change
        if sim == "passive" and g["t"] in ("Kerr", "CrossKerr", "Loss"):
            return None  # Kerr after a measurement: known defect; Loss changes which marginal routine is admissible
        if sim == "purefock":
            if not doc.get("nc_history") or not is_nc(sim, g) or g["t"] == "SNAP":
                return None  # the post-measurement cutoff differs: only number-conserving gates with head-room are exact
        if sim == "ffock" and g["t"] not in PASSIVE + ("ControlledPhase",) and doc["config"]["cutoff"] != doc["d"] + 1:
            return None
        return "exact"
    if sim in ("purefock", "fock"):
        if not (is_nc(sim, a) or is_nc(sim, b)):
            return "skip-active"
    if sim == "ffock" and doc["config"]["cutoff"] != doc["d"] + 1 and not (is_nc(sim, a) or is_nc(sim, b)):
        return "skip-active"
    return "exact"


def cases_commute(ctx, pq, doc, limit=None):
    base = None
    sdoc = strip(doc)
    ident = list(range(doc["d"]))
    n = 0
    for i in range(len(doc["ins"]) - 1):
        st = exchange_status(doc, i)
        if st is None:
            continue
        if st == "skip-active":
            ctx.c["skipped_active_active_pairs"] += 1
            continue
        a, b = doc["ins"][i], doc["ins"][i + 1]
        ctx.bump("commute_pair_types", "%s:%s" % (doc["sim"], "+".join(sorted([a["t"], b["t"]]))))
        if "meas" in (ins_kind(a), ins_kind(b)):
            ctx.c["gate_measurement_exchanges"] += 1
        case = {"kind": "commute", "doc": doc, "i": i}
        base = judge_pair(ctx, pq, "commute", sdoc, swap(sdoc, i), case, ident, base)
        n += 1
        if limit and n >= limit:
            break
    return n


def case_sampler(ctx, pq, doc, pi):
    case = {"kind": "sampler", "doc": doc, "pi": list(pi)}
    judge_pair(ctx, pq, "sampler", doc, relabel(doc, pi), case, list(pi))


# ----------------------------------------------------------------------------- plan / run / replay
def plan(tier, seed):
    env = {"OPENBLAS_NUM_THREADS": "1", "OMP_NUM_THREADS": "1", "MKL_NUM_THREADS": "1", "NUMBA_NUM_THREADS": "1"}
    q = tier == "quick"
    counts = {  # programs per shard (relabel: x2 permutations each; commute: all admissible exchanges each)
        "relabel": {"purefock": 45, "fock": 30, "gaussian": 90, "passive": 45, "fgaussian": 70, "ffock": 60},
        "commute": {"purefock": 60, "fock": 35, "gaussian": 80, "passive": 60, "fgaussian": 90, "ffock": 60},
    }
    specs = []
    k = 0
    reps = 1 if q else 2
    mult = 1 if q else 4
    for rep in range(reps):
        for kind in ("relabel", "commute"):
            for sim in ALL_SIMS:
                specs.append({"name": "%s-%s-%d" % (kind, sim, rep), "kind": kind, "sim": sim, "shard": k,
                              "programs": counts[kind][sim] * mult, "env": env})
                k += 1
    for rep in range(reps):
        specs.append({"name": "sampler-%d" % rep, "kind": "sampler", "sim": "all", "shard": 100 + rep,
                      "programs": 120 * mult, "env": env})
    for sim in sorted(GATEWISE):
        specs.append({"name": "gatewise-%s" % sim, "kind": "gatewise", "sim": sim, "shard": 200 + ALL_SIMS.index(sim),
                      "programs": len(GATEWISE[sim]) * (4 if q else 16), "env": env})
    # heavy shards first
    order = {"fock": 0, "purefock": 1, "passive": 2, "all": 3, "ffock": 4, "gaussian": 5, "fgaussian": 6}
    specs.sort(key=lambda s: order[s["sim"]])
    return specs


def run_shard(spec):
    from vf import boot

    pq = boot.import_piquasso()
    import warnings

    warnings.filterwarnings("ignore")
    rng = np.random.default_rng([int(spec["seed"]), 16, int(spec["shard"])])
    ctx = Ctx()
    t0 = time.time()
    # generous: a cold numba cache on a loaded machine costs minutes before the first program finishes; a shard that is cut
    # short before half of its programs ran makes the run inconclusive instead of silently thinner (wall-clock never decides)
    budget = 1200 if spec["tier"] == "quick" else 4000
    kind = spec["kind"]
    done = 0
    for i in range(int(spec["programs"])):
        if time.time() - t0 > budget:
            ctx.obs.add("shard %s stopped by its time budget after %d programs" % (spec["name"], done))
            break
        done += 1
        if kind == "sampler":
            sim = ["purefock", "passive", "fock", "ffock", "fgaussian", "purefock"][i % 6]
            doc = gen_sampler(rng, sim)
            case_sampler(ctx, pq, doc, choose_pi(rng, doc))
            if len(ctx.samples) < 2 and i % 6 == 0:
                ctx.samples.append({"kind": "sampler", "sim": sim, "shots": doc["shots"], "routed_outcome": list(routed_outcome(doc)),
                                    "ins": [[x["t"], x.get("m")] for x in doc["ins"]]})
            continue
        if kind == "gatewise":
            name = GATEWISE[spec["sim"]][i % len(GATEWISE[spec["sim"]])]
            doc = gen_gatewise(rng, spec["sim"], name, spec["tier"])
            if doc is None:
                continue
            base = case_relabel(ctx, pq, doc, [doc["d"] - 1 - j for j in range(doc["d"])], None)
            case_relabel(ctx, pq, doc, choose_pi(rng, doc), base)
            ctx.c["gatewise_cases"] = ctx.c.get("gatewise_cases", 0) + 1
            ctx.classes.add("gatewise|%s|%s" % (spec["sim"], name))
            continue
        doc = gen_program(rng, spec["sim"], spec["tier"], for_commute=(kind == "commute"))
        if kind == "relabel":
            base = None
            for _ in range(2):
                pi = choose_pi(rng, doc)
                base = case_relabel(ctx, pq, doc, pi, base)
            if len(ctx.samples) < 2:
                ctx.samples.append({"kind": "relabel", "sim": doc["sim"], "d": doc["d"], "pi": pi,
                                    "ins": [[x["t"], x.get("m")] for x in doc["ins"]],
                                    "relabelled": [[x["t"], x.get("m")] for x in relabel(strip(doc), pi)["ins"]]})
        else:
            n = cases_commute(ctx, pq, doc)
            if n and len(ctx.samples) < 2:
                ctx.samples.append({"kind": "commute", "sim": doc["sim"], "d": doc["d"], "exchanges": n,
                                    "ins": [[x["t"], x.get("m")] for x in doc["ins"]]})
    ctx.c["max_dev_over_tol"] = float(ctx.c["max_dev_over_tol"])
    out = {"evaluations": ctx.evals, "classes": sorted(ctx.classes), "violations": ctx.violations,
           "counters": ctx.c, "samples": ctx.samples, "observations": sorted(ctx.obs)[:25]}
    if done < 0.5 * int(spec["programs"]):
        out["harness_errors"] = ["shard %s ran only %d of %d programs within its time budget" % (spec["name"], done, int(spec["programs"]))]
    return out


def replay(case):
    from vf import boot

    pq = boot.import_piquasso()
    ctx = Ctx()
    doc = case["doc"]
    if case["kind"] == "relabel":
        case_relabel(ctx, pq, doc, list(case["pi"]))
    elif case["kind"] == "sampler":
        case_sampler(ctx, pq, doc, list(case["pi"]))
    else:
        sdoc = strip(doc)
        i = int(case["i"])
        judge_pair(ctx, pq, "commute", sdoc, swap(sdoc, i), case, list(range(doc["d"])))
    return ctx.violations
