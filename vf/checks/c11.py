"""C11 - seeded runs are reproducible and independent of parallel scheduling.

Monitors
  history : a history recorder; every history is executed in a fresh interpreter
            (vf.history_child) and the samples of every fresh, seeded simulator are compared with
            the canonical samples of (seed, program) produced by a pristine process
  schedule: dask scheduler / worker-count sweeps (samples must be identical), NUMBA/OMP thread
            sweeps in child processes and forced job counts via the interposed
            hardware_concurrency (values must agree within the rounding envelope)
"""

import json
import os
import subprocess
import time

import numpy as np

ID = "C11"
LEVEL = "exploration"
TECHNIQUE = "runtime monitoring: history recorder in fresh subprocesses (perturbation histories vs canonical samples); forced job counts through an interposed hardware_concurrency, thread-count and dask-scheduler sweeps with value/sample equality oracles"
DESIGN_REF = "DESIGN.md §4 C11"
LEVEL_TEXT = (
    "For every (program, seed) a pristine process defines the canonical samples; perturbed histories (draws from random / "
    "numpy.random, reseeding, creation of other Configs, other executions, gc, dask on/off with 1-16 workers) create fresh "
    "seeded simulators and must reproduce them exactly. Deterministic kernel values are recomputed under NUMBA/OMP thread "
    "counts 1..16 and under every job count 4*K, K=0..64 in-process (1..256 in the stand-alone driver) and must agree within "
    "the rounding envelope; different seeds must give different sequences for high-entropy measurements."
)
LEVEL_NOTE = (
    "Schedules beyond 16 hardware threads cannot be observed on this machine; job partitions are forced by a linked-in "
    "definition of std::thread::hardware_concurrency (verification build only). The RNG of a *reused* simulator advances by "
    "design and is outside the property."
)
RULE = (
    "cases = histories (one fresh process each) + (kernel case, schedule) pairs; non-trivial = a recorded sample list or "
    "kernel value was compared with its canonical counterpart; distinct_nontrivial = distinct (simulator, measurement, "
    "perturbation kind, seed) + (kernel, job count / thread count) classes."
)
ASSUMPTIONS = ["canonical samples are those of a pristine process executing only: Config(seed), simulator, execute"]
REQUIRED = ["histories_run", "sample_lists_compared", "schedule_value_comparisons", "job_counts_forced", "seed_pairs_compared", "dask_runs"]
WATCHDOG = {"quick": 1200, "thorough": 5400}

SEEDS = [0, 1, 7, 2 ** 31, 2 ** 63 - 1]


class Ctx:
    def __init__(self):
        self.violations = []
        self.c = {k: 0 for k in REQUIRED}
        self.c.update({"child_failures": 0, "by_sim": {}})
        self.classes = set()
        self.samples = []
        self.obs = set()
        self.evals = 0

    def viol(self, mech, msg, case):
        if len(self.violations) < 150:
            self.violations.append({"mechanism": mech, "message": msg[:700], "case": case})


# ----------------------------------------------------------------------------- programs
def sampling_programs(rng):
    """(name, sim kind, d, program doc, shots, extra config, measurement label)."""
    from vf.gen import programs as G
    from vf.gen import matrices as M

    out = []
    d = 3
    U = M.haar_unitary(rng, d)
    base_passive = [{"t": "NumberState", "m": None, "p": {"occupation_numbers": [1, 1, 1]}},
                    {"t": "Interferometer", "m": [2, 0, 1], "p": {"matrix": M.enc(U)}}]
    out.append(("passive-pnm", "passive", d, base_passive + [{"t": "ParticleNumberMeasurement", "m": None, "p": {}}], 12, {}, "ParticleNumberMeasurement"))
    out.append(("passive-uniform-loss", "passive", d, base_passive + [{"t": "UniformLoss", "m": None, "p": {"transmissivity": 0.8}},
                                                                     {"t": "ParticleNumberMeasurement", "m": None, "p": {}}], 12, {}, "ParticleNumberMeasurement+UniformLoss"))
    out.append(("passive-loss", "passive", d, base_passive + [{"t": "Loss", "m": [1], "p": {"transmissivity": 0.7}},
                                                             {"t": "ParticleNumberMeasurement", "m": None, "p": {}}], 12, {}, "ParticleNumberMeasurement+Loss"))
    out.append(("passive-marginal", "passive", d, base_passive + [{"t": "ParticleNumberMeasurement", "m": [2, 0], "p": {}}], 12, {}, "ParticleNumberMeasurement(subset)"))
    gauss = [{"t": "Vacuum", "m": None, "p": {}}, {"t": "Squeezing", "m": [0], "p": {"r": 0.6, "phi": 0.3}},
             {"t": "Squeezing", "m": [1], "p": {"r": 0.5, "phi": 1.0}}, {"t": "Displacement", "m": [2], "p": {"r": 0.4, "phi": 0.2}},
             {"t": "Interferometer", "m": [0, 1, 2], "p": {"matrix": M.enc(U)}}]
    out.append(("gaussian-pnm", "gaussian", d, gauss + [{"t": "ParticleNumberMeasurement", "m": None, "p": {}}], 10, {}, "ParticleNumberMeasurement"))
    out.append(("gaussian-threshold", "gaussian", d, gauss + [{"t": "ThresholdMeasurement", "m": None, "p": {}}], 10, {}, "ThresholdMeasurement"))
    out.append(("gaussian-threshold-torontonian", "gaussian", d, gauss + [{"t": "ThresholdMeasurement", "m": None, "p": {}}], 10, {"use_torontonian": True}, "ThresholdMeasurement(torontonian)"))
    out.append(("gaussian-homodyne", "gaussian", d, gauss + [{"t": "HomodyneMeasurement", "m": [0, 2], "p": {"phi": 0.3}}], 10, {}, "HomodyneMeasurement"))
    out.append(("gaussian-heterodyne", "gaussian", d, gauss + [{"t": "HeterodyneMeasurement", "m": [1], "p": {}}], 10, {}, "HeterodyneMeasurement"))
    sp, occs, amps = G.superposition(rng, 3, 2, terms=4)
    fockish = [sp, {"t": "Interferometer", "m": [1, 2, 0], "p": {"matrix": M.enc(U)}}, {"t": "Squeezing", "m": [0], "p": {"r": 0.2, "phi": 0.4}}]
    out.append(("purefock-pnm", "purefock", 3, fockish + [{"t": "ParticleNumberMeasurement", "m": None, "p": {}}], 20, {"cutoff": 5}, "ParticleNumberMeasurement"))
    out.append(("purefock-midcircuit", "purefock", 3, fockish + [{"t": "ParticleNumberMeasurement", "m": [1], "p": {}},
                                                                  {"t": "Phaseshifter", "m": [0], "p": {"phi": "x[0] * 0.5"}},
                                                                  {"t": "ParticleNumberMeasurement", "m": [0, 2], "p": {}}], 20, {"cutoff": 5}, "mid-circuit ParticleNumberMeasurement"))
    out.append(("purefock-homodyne", "purefock", 3, fockish + [{"t": "HomodyneMeasurement", "m": [0], "p": {"phi": 0.1}}], 20, {"cutoff": 5}, "HomodyneMeasurement"))
    fk = [{"t": "Vacuum", "m": None, "p": {}}, {"t": "Squeezing", "m": [0], "p": {"r": 0.5, "phi": 0.2}}, {"t": "Displacement", "m": [1], "p": {"r": 0.6, "phi": 0.0}},
          {"t": "Beamsplitter", "m": [1, 0], "p": {"theta": 0.7, "phi": 0.3}}]
    out.append(("fock-pnm", "fock", 2, fk + [{"t": "ParticleNumberMeasurement", "m": None, "p": {}}], 20, {"cutoff": 5}, "ParticleNumberMeasurement"))
    ferm = [{"t": "NumberState", "m": None, "p": {"occupation_numbers": [1, 0, 1]}}, {"t": "Interferometer", "m": [0, 1, 2], "p": {"matrix": M.enc(U)}},
            {"t": "Squeezing2", "m": [0, 1], "p": {"r": 0.4, "phi": 0.3}}]
    out.append(("ffock-pnm", "ffock", 3, ferm + [{"t": "ParticleNumberMeasurement", "m": None, "p": {}}], 20, {"cutoff": 4}, "ParticleNumberMeasurement"))
    out.append(("fgaussian-pnm", "fgaussian", 3, ferm + [{"t": "ParticleNumberMeasurement", "m": None, "p": {}}], 20, {}, "ParticleNumberMeasurement"))
    # sampler code paths the first fifteen programs never reach (found by a missed mutant: np.random.choice in
    # _separate_particles): partially distinguishable inputs, post-selection, their combinations with loss, general-dyne
    interf = {"t": "Interferometer", "m": [2, 0, 1], "p": {"matrix": M.enc(U)}}
    pnm_all = {"t": "ParticleNumberMeasurement", "m": None, "p": {}}
    dist = {"t": "DistinguishableNumberState", "m": None, "p": {"occupation_numbers": [2, 1, 0], "particle_overlap": 0.6}}
    out.append(("passive-distinguishable", "passive", d, [dist, interf, pnm_all], 12, {"cutoff": 4}, "ParticleNumberMeasurement+Distinguishable"))
    out.append(("passive-distinguishable-loss", "passive", d, [dist, interf, {"t": "Loss", "m": [0], "p": {"transmissivity": 0.8}}, pnm_all], 12,
                {"cutoff": 4}, "ParticleNumberMeasurement+Distinguishable+Loss"))
    out.append(("passive-postselect", "passive", d, base_passive + [{"t": "PostSelectPhotons", "m": [1], "p": {"photon_counts": [1]}},
                                                                    {"t": "ParticleNumberMeasurement", "m": None, "p": {}}], 12, {}, "ParticleNumberMeasurement+PostSelect"))
    out.append(("passive-distinguishable-postselect", "passive", d, [dist, interf, {"t": "PostSelectPhotons", "m": [2], "p": {"photon_counts": [1]}}, pnm_all], 12,
                {"cutoff": 4}, "ParticleNumberMeasurement+Distinguishable+PostSelect"))
    dc = np.array([[0.7, 0.1], [0.1, 1.6]])
    out.append(("gaussian-generaldyne", "gaussian", d, gauss + [{"t": "GeneraldyneMeasurement", "m": [2, 0], "p": {"detection_covariance": M.enc(dc)}}], 10, {},
                "GeneraldyneMeasurement"))
    return out


PERTURBATIONS = ["none", "random-draws", "np-random-draws", "random-reseed", "np-random-reseed", "other-config-same-seed",
                 "other-config-other-seed", "other-execution-before", "gc", "draw-between-config-and-sim",
                 "same-execution-before"]


def build_history(prog_name, kind, d, doc_ins, shots, extra, seed, perturbation, dask=None, other_ins=None):
    acts = []
    programs = {"p": {"ins": doc_ins}, "q": {"ins": doc_ins if other_ins is None else other_ins}}
    ex = dict(extra)
    if dask is not None:
        ex["use_dask"] = True
        acts.append({"op": "dask", "scheduler": dask[0], "workers": dask[1]})
        if len(dask) > 2:
            acts.append({"op": "dask_cpu_count", "value": dask[2]})
    if perturbation in ("other-execution-before", "same-execution-before"):
        acts += [{"op": "config", "as": "c0", "seed": 12345, "extra": ex}, {"op": "sim", "as": "s0", "config": "c0", "kind": kind, "d": d},
                 {"op": "execute", "sim": "s0", "program": "q", "shots": 3, "record": None}]
    if perturbation == "random-draws":
        acts.append({"op": "random_draw", "n": 5})
    if perturbation == "np-random-draws":
        acts.append({"op": "np_random_draw", "n": 5})
    acts.append({"op": "config", "as": "c1", "seed": seed, "extra": ex})
    if perturbation == "draw-between-config-and-sim":
        acts.append({"op": "random_draw", "n": 1})
        acts.append({"op": "np_random_draw", "n": 1})
    acts.append({"op": "sim", "as": "s1", "config": "c1", "kind": kind, "d": d})
    if perturbation == "random-reseed":
        acts.append({"op": "random_seed", "value": 999})
    if perturbation == "np-random-reseed":
        acts.append({"op": "np_random_seed", "value": 999})
    if perturbation == "other-config-same-seed":
        acts.append({"op": "config", "as": "cx", "seed": seed, "extra": ex})
    if perturbation == "other-config-other-seed":
        acts.append({"op": "config", "as": "cx", "seed": 424242, "extra": ex})
    if perturbation == "gc":
        acts.append({"op": "gc"})
    acts.append({"op": "execute", "sim": "s1", "program": "p", "shots": shots, "record": "r"})
    return {"programs": programs, "actions": acts}


def run_history(hist, workdir, tag, extra_env=None):
    from vf import boot

    path = os.path.join(workdir, "h-%s.json" % tag)
    with open(path, "w") as fh:
        json.dump(hist, fh)
    env = boot.child_env(extra_env)
    try:
        r = subprocess.run([boot.PYTHON, "-m", "vf.history_child", path], env=env, cwd=boot.VERIF, stdout=subprocess.PIPE,
                           stderr=subprocess.PIPE, text=True, timeout=600)
    except subprocess.TimeoutExpired:
        return None, "timeout"
    if r.returncode != 0 or not r.stdout.strip().startswith("{"):
        return None, "rc=%s %s" % (r.returncode, r.stderr[-300:])
    return json.loads(r.stdout[r.stdout.index("{"):]), None


def history_workload(ctx, rng, spec, workdir):
    progs = sampling_programs(rng)  # same rng in every shard: program k is the same document everywhere
    prng = np.random.default_rng([int(spec["seed"]), 11, 1, int(spec["part"])])  # per-shard choices
    if spec["tier"] == "quick":
        # one program per shard; which ones rotates with the seed so that repeated runs cover all of them
        k = (int(spec["part"]) + int(spec["seed"]) * int(spec["of"])) % len(progs)
        mine = [progs[k]]
    else:
        mine = [p for i, p in enumerate(progs) if i % int(spec["of"]) == int(spec["part"])]
    t0 = time.time()
    budget = 300 if spec["tier"] == "quick" else 2400
    for (name, kind, d, ins, shots, extra, label) in mine:
        # quick tier: seed 0 and one other seed (drawn per shard; never 0 twice - a duplicated seed made the
        # seed-pair comparison compare a sequence with itself: false alarm at VERIF_SEED 3, 5, 8.., DESIGN 7.4)
        seeds = SEEDS if spec["tier"] == "thorough" else [SEEDS[1 + int(prng.integers(0, len(SEEDS) - 1))], 0]
        canon = {}
        for seed in seeds:
            hist = build_history(name, kind, d, ins, shots, extra, seed, "none")
            out, err = run_history(hist, workdir, "%s-%s-canon" % (name, seed))
            ctx.c["histories_run"] += 1
            ctx.evals += 1
            if out is None or out["errors"]:
                ctx.c["child_failures"] += 1
                ctx.obs.add("canonical history of %s failed: %s" % (name, err or out["errors"][0]["error"]))
                continue
            canon[seed] = out["records"].get("r")
        # different seeds -> different sequences
        ss = [s for s in seeds if canon.get(s) is not None]
        for i in range(len(ss)):
            for j in range(i + 1, len(ss)):
                ctx.c["seed_pairs_compared"] += 1
                if canon[ss[i]] == canon[ss[j]] and len(set(map(tuple, canon[ss[i]]))) > 1:
                    ctx.viol("different-seeds-same-samples:%s" % kind, "%s: seeds %s and %s give the identical sample sequence" % (name, ss[i], ss[j]),
                             {"program": name, "seeds": [ss[i], ss[j]]})
        # quick tier: three perturbations per shard, rotating so that one run exercises every kind
        npert = len(PERTURBATIONS) - 1
        perts = PERTURBATIONS[1:] if spec["tier"] == "thorough" else [
            PERTURBATIONS[1 + (3 * int(spec["part"]) + int(spec["seed"]) + j) % npert] for j in range(3)]
        for si, seed in enumerate(ss):
            # a second pristine process must reproduce the canonical samples (every seed, seed 0 included);
            # perturbed histories: every seed in the thorough tier, the first seed in the quick tier
            for pert in ["none"] + (list(perts) if (spec["tier"] == "thorough" or si == 0) else []):
                if time.time() - t0 > budget:
                    ctx.obs.add("history shard stopped by time budget")
                    return
                other = None
                if pert == "other-execution-before":
                    # a different program of the same simulator kind and size first (a cache or generator state that
                    # leaks between executions); "same-execution-before" repeats the program itself
                    cands = [p for p in progs if p[1] == kind and p[2] == d and p[0] != name and p[5].get("cutoff") == extra.get("cutoff")]
                    if cands:
                        other = cands[int(prng.integers(0, len(cands)))][3]
                hist = build_history(name, kind, d, ins, shots, extra, seed, pert, other_ins=other)
                out, err = run_history(hist, workdir, "%s-%s-%s" % (name, seed, pert))
                ctx.c["histories_run"] += 1
                ctx.evals += 1
                if out is None or out["errors"]:
                    ctx.c["child_failures"] += 1
                    ctx.obs.add("history %s/%s failed: %s" % (name, pert, err or out["errors"][0]["error"]))
                    continue
                got = out["records"].get("r")
                ctx.c["sample_lists_compared"] += 1
                ctx.c["by_sim"][kind] = ctx.c["by_sim"].get(kind, 0) + 1
                ctx.classes.add("history|%s|%s|%s|seed%s" % (kind, label, pert, seed))
                if got != canon[seed]:
                    ndiff = sum(1 for a, b in zip(got, canon[seed]) if a != b)
                    mech = "samples-depend-on-history:%s:%s" % (kind, pert)
                    if kind in ("purefock", "fock", "ffock") and "ParticleNumberMeasurement" in label and pert != "none":
                        # symptom of the known defect: these samplers draw from the process-global `random` module,
                        # which Config.__init__ reseeds; anything touching that stream changes the samples
                        mech = "fock-sampler-uses-process-global-random"
                    ctx.viol(mech, "%s, seed %s: a fresh seeded simulator after perturbation '%s' returns different samples (%d of %d differ); canonical %s..., got %s..." % (
                        name, seed, pert, ndiff, len(got), canon[seed][:3], got[:3]), {"history": hist, "program": name, "seed": seed, "perturbation": pert})
                if len(ctx.samples) < 3 and pert != "none":
                    ctx.samples.append({"program": name, "seed": seed, "perturbation": pert, "actions": [a["op"] for a in hist["actions"]], "first_samples": got[:3]})
        # dask on/off and worker counts (samplers that honour use_dask)
        if kind in ("passive", "gaussian") and "Homodyne" not in label and "Heterodyne" not in label and ss:
            seed = ss[0]
            ref = canon[seed]
            for sched in ([("synchronous", 1), ("threads", 4)] if spec["tier"] == "quick" else
                          [("synchronous", 1), ("threads", 1), ("threads", 2), ("threads", 4), ("threads", 16)]):
                hist = build_history(name, kind, d, ins, shots, extra, seed, "none", dask=sched)
                out, err = run_history(hist, workdir, "%s-dask-%s-%s" % (name, sched[0], sched[1]))
                ctx.c["histories_run"] += 1
                ctx.evals += 1
                if out is None or out["errors"]:
                    ctx.c["child_failures"] += 1
                    ctx.obs.add("dask history %s failed: %s" % (name, err or out["errors"][0]["error"]))
                    continue
                ctx.c["dask_runs"] += 1
                ctx.c["sample_lists_compared"] += 1
                ctx.classes.add("dask|%s|%s|%s%d" % (kind, label, sched[0], sched[1]))
                if out["records"].get("r") != ref:
                    ctx.viol("samples-depend-on-dask:%s:%s" % (kind, label), "%s, seed %s: use_dask with scheduler %s/%d workers changes the samples" % (name, seed, sched[0], sched[1]),
                             {"history": hist, "program": name, "seed": seed})
            # many shots: work distribution that depends on the shot count or on the number of CPUs dask reports only shows
            # beyond a few shots per CPU (a seeded change that batched shots per worker needed shots >= 8 * CPU_COUNT)
            many = 300 if kind == "passive" else 150
            variants = [("no-dask", None), ("threads-4-cpu16", ("threads", 4, 16)), ("threads-4-cpu1", ("threads", 4, 1)), ("sync-cpu3", ("synchronous", 1, 3))]
            if spec["tier"] == "thorough":
                variants += [("threads-2-cpu64", ("threads", 2, 64)), ("threads-16-cpu2", ("threads", 16, 2))]
            base = None
            for vname, sched in variants:
                hist = build_history(name, kind, d, ins, many, extra, seed, "none", dask=sched)
                out, err = run_history(hist, workdir, "%s-many-%s" % (name, vname))
                ctx.c["histories_run"] += 1
                ctx.evals += 1
                if out is None or out["errors"]:
                    ctx.c["child_failures"] += 1
                    ctx.obs.add("many-shot history %s/%s failed: %s" % (name, vname, err or out["errors"][0]["error"]))
                    continue
                got = out["records"].get("r")
                if base is None:
                    base = got
                    continue
                ctx.c["dask_runs"] += 1
                ctx.c["sample_lists_compared"] += 1
                ctx.c["many_shot_dask_comparisons"] = ctx.c.get("many_shot_dask_comparisons", 0) + 1
                ctx.classes.add("dask-many|%s|%s|%s" % (kind, label, vname))
                if got != base:
                    nd = sum(1 for a, b in zip(got, base) if a != b)
                    ctx.viol("samples-depend-on-dask:%s:%s" % (kind, label), "%s, seed %s, %d shots: %s gives different samples than the serial run (%d of %d differ)" % (
                        name, seed, many, vname, nd, len(base)), {"history": hist, "program": name, "seed": seed})


# ----------------------------------------------------------------------------- schedules of deterministic kernels
def kernel_cases(rng, n):
    from vf.checks import c04

    cases = []
    for i in range(n):
        regime = ["many-modes", "high-multiplicity"][i % 2]
        A, rows, cols, kind = c04.perm_case(rng, regime)
        if A.shape[0] == 0 or A.shape[1] == 0 or sum(rows) == 0:
            continue
        cases.append((A, rows, cols))
    return cases


def hwc_workload(ctx, rng, spec):
    """Forced job counts in-process through the interposed hardware_concurrency."""
    from vf import boot

    boot.import_piquasso()
    from piquasso._math.permanent import permanent, permanent_laplace
    from vf.refs import combinatorial as R

    cases = kernel_cases(rng, int(spec["count"]))
    hwcs = spec["hwc"]
    for A, rows, cols in cases:
        ref, env = R.perm_multiplicity(A, rows, cols)
        env = max(env, R.glynn_envelope(A, rows, cols))
        tol = 1e4 * np.finfo(float).eps * float(env) + 1e-300
        vals = {}
        r32, c32 = rows.astype(np.int32), cols.astype(np.int32)
        cl = cols.copy()
        cl[int(rng.integers(0, len(cl)))] += 1
        for h in hwcs:
            os.environ["VERIF_HWC"] = str(h)
            v = complex(np.asarray(permanent(A, r32, c32)).item())
            ctx.c["schedule_value_comparisons"] += 1
            ctx.c["job_counts_forced"] += 1
            ctx.evals += 1
            ctx.classes.add("hwc|permanent|K%d" % h)
            vals[h] = v
            if not abs(v - complex(ref)) <= tol:
                ctx.viol("permanent-depends-on-job-count:hwc%s" % ("0" if h == 0 else "N"),
                         "permanent with hardware_concurrency=%d (%d jobs max) = %r, reference %r (tol %.2e); rows %s cols %s" % (
                             h, 4 * h, v, complex(ref), tol, rows.tolist(), cols.tolist()),
                         {"kernel": "permanent", "hwc": h, "rows": rows.tolist(), "cols": cols.tolist(), "A_re": A.real.tolist(), "A_im": A.imag.tolist()})
            if (cl > 0).all():
                vl = np.asarray(permanent_laplace(A, r32, cl.astype(np.int32)))
                refs = R.perm_laplace(A, rows, cl)
                for j, rv in enumerate(refs):
                    c2 = cl.copy()
                    c2[j] -= 1
                    e2 = max(rv[1], R.glynn_envelope(A, rows, c2))
                    ctx.c["schedule_value_comparisons"] += 1
                    if not abs(complex(vl[j]) - complex(rv[0])) <= 1e4 * np.finfo(float).eps * float(e2) + 1e-300:
                        ctx.viol("permanent_laplace-depends-on-job-count", "permanent_laplace[%d] with hardware_concurrency=%d = %r, reference %r" % (j, h, complex(vl[j]), complex(rv[0])),
                                 {"kernel": "permanent_laplace", "hwc": h, "rows": rows.tolist(), "cols": cl.tolist(), "A_re": A.real.tolist(), "A_im": A.imag.tolist()})
    os.environ.pop("VERIF_HWC", None)


def driver_workload(ctx, rng, spec):
    """Stand-alone driver (plain build): job counts 4*K for K up to 256, values vs K=1."""
    from vf import boot
    from vf.native import build
    from vf.checks import c04

    exe = build.build_driver(boot.REPO, "plain")
    work = os.path.join(boot.BUILD, "run", "c11-driver-%d" % os.getpid())
    os.makedirs(work, exist_ok=True)
    casefile = os.path.join(work, "cases.txt")
    meta = []
    n = c04.write_driver_cases(casefile, rng, int(spec["count"]), meta=meta)
    tols = []
    for m in meta:
        eps = float(np.finfo(np.float32 if m["prec"] == "f" else np.float64).eps)
        tols.append(np.array([2e4 * eps * e + 1e-300 for e in c04.driver_case_envelopes(m)]))
    base = None
    for h in spec["hwc"]:
        env = dict(os.environ)
        env["VERIF_HWC"] = str(h)
        env["OMP_THREAD_LIMIT"] = "1100"
        r = subprocess.run([exe, casefile, "1"], env=env, stdout=subprocess.PIPE, stderr=subprocess.PIPE, text=True, timeout=600)
        ctx.c["job_counts_forced"] += 1
        ctx.evals += n
        if r.returncode != 0:
            ctx.viol("driver-crash", "kernel driver exited %d at hardware_concurrency=%d: %s" % (r.returncode, h, r.stderr[-300:]), {"kernel": "driver", "hwc": h})
            continue
        rows = [l.split() for l in r.stdout.splitlines() if l and l[0].isdigit()]
        vals = []
        for row in rows:
            f = np.array([float(x) for x in row[1:]])
            vals.append(f[0::2] + 1j * f[1::2])
        ctx.classes.add("driver|K%d" % h)
        if base is None:
            base = vals
            continue
        for i, (a, b) in enumerate(zip(base, vals)):
            ctx.c["schedule_value_comparisons"] += 1
            if a.shape != b.shape or len(tols[i]) != len(a):
                ctx.viol("driver-value-depends-on-job-count", "case %d: %d values at hardware_concurrency=%d, %d at K=%d" % (i, len(b), h, len(a), spec["hwc"][0]),
                         {"kernel": "driver", "hwc": h, "case": i})
                continue
            if a.size and not np.all(np.abs(a - b) <= tols[i]):
                k = int(np.argmax(np.abs(a - b) - tols[i]))
                ctx.viol("driver-value-depends-on-job-count", "case %d (%s, %s): value %d at hardware_concurrency=%d is %r, at K=%d %r (tolerance %.3e)" % (
                    i, meta[i]["kind"], meta[i]["prec"], k, h, complex(b[k]), spec["hwc"][0], complex(a[k]), tols[i][k]), {"kernel": "driver", "hwc": h, "case": i})
    import shutil

    shutil.rmtree(work, ignore_errors=True)


VALUES_CHILD = r'''
import json, sys, os
from vf import boot
pq = boot.import_piquasso()
import numpy as np
from piquasso._math.hafnian import hafnian_with_reduction, loop_hafnian_with_reduction
from piquasso._math.permanent import permanent
from vf.gen import programs as G, matrices as M
rng = np.random.default_rng(int(sys.argv[1]))
out = []
for i in range(12):
    n = int(rng.integers(2, 7))
    B = rng.normal(size=(n, n)) + 1j * rng.normal(size=(n, n)); B = B + B.T
    red = rng.integers(0, 3, size=n).astype(np.int64)
    dg = rng.normal(size=n) + 0j
    out.append(complex(hafnian_with_reduction(B, red)))
    out.append(complex(loop_hafnian_with_reduction(B, dg, red)))
    A = rng.normal(size=(n, n)) + 1j * rng.normal(size=(n, n))
    rows = rng.integers(0, 3, size=n).astype(np.int32); cols = rows[rng.permutation(n)].copy()
    out.append(complex(np.asarray(permanent(A, rows, cols)).item()))
for i in range(4):
    doc = G.adaptive_program(rng, sim="purefock", shots=None, max_meas=1, allow_active=True)
    sim, prog = G.build_adaptive(pq, doc)
    res = sim.execute(prog, shots=None)
    for b in res.branches[:3]:
        out.append(float(b.frequency))
        if b.state is not None:
            out.extend(complex(z) for z in np.asarray(b.state.state_vector)[:6])
json.dump([[z.real, z.imag] if isinstance(z, complex) else [z, 0.0] for z in out], sys.stdout)
sys.stdout.flush(); os._exit(0)
'''


def threads_workload(ctx, rng, spec):
    from vf import boot

    seed = int(rng.integers(0, 2 ** 31))
    base = None
    for nt in spec["threads"]:
        env = boot.child_env({"NUMBA_NUM_THREADS": nt, "OMP_NUM_THREADS": nt, "OPENBLAS_NUM_THREADS": nt})
        r = subprocess.run([boot.PYTHON, "-c", VALUES_CHILD, str(seed)], env=env, cwd=boot.VERIF, stdout=subprocess.PIPE, stderr=subprocess.PIPE, text=True, timeout=900)
        ctx.evals += 1
        if r.returncode != 0 or "[" not in r.stdout:
            ctx.c["child_failures"] += 1
            ctx.obs.add("values child failed with %s threads: %s" % (nt, r.stderr[-200:]))
            continue
        vals = np.array(json.loads(r.stdout[r.stdout.index("["):]))
        vals = vals[:, 0] + 1j * vals[:, 1]
        ctx.classes.add("threads|%s" % nt)
        if base is None:
            base = vals
            continue
        ctx.c["schedule_value_comparisons"] += len(vals)
        if vals.shape != base.shape:
            ctx.viol("values-depend-on-thread-count", "different number of values with %s threads" % nt, {"threads": nt, "seed": seed})
            continue
        dev = np.abs(vals - base) / np.maximum(1.0, np.abs(base))
        if dev.max() > 1e-9:
            i = int(np.argmax(dev))
            ctx.viol("values-depend-on-thread-count", "value #%d is %r with %s threads and %r with %s threads" % (i, complex(vals[i]), nt, complex(base[i]), spec["threads"][0]),
                     {"threads": nt, "seed": seed, "index": i})


def plan(tier, seed):
    q = tier == "quick"
    specs = []
    nhist = 20  # one shard per sampling program (quick: one program each; thorough: all seeds and perturbations)
    for i in range(nhist):
        specs.append({"name": "history-%d" % i, "kind": "history", "part": i, "of": nhist, "shard": i, "weight": 2})
    specs.append({"name": "hwc", "kind": "hwc", "shard": 40, "count": 24 if q else 120, "hwc": [0, 1, 2, 3, 5, 16, 64] if q else list(range(0, 17)) + [24, 32, 48, 64]})
    specs.append({"name": "driver", "kind": "driver", "shard": 41, "count": 24 if q else 100, "no_piquasso": True,
                  "hwc": [1, 2, 3, 7, 64, 256] if q else [1, 2, 3, 4, 5, 6, 7, 8, 9, 13, 16, 31, 32, 64, 100, 128, 255, 256]})
    specs.append({"name": "threads", "kind": "threads", "shard": 42, "threads": [1, 2, 3, 8, 16] if not q else [1, 3, 16], "no_piquasso": True, "weight": 4})
    return specs


def run_shard(spec):
    from vf import boot

    rng = np.random.default_rng([int(spec["seed"]), 11, 0 if spec["kind"] == "history" else int(spec["shard"])])
    ctx = Ctx()
    if spec["kind"] == "history":
        boot.import_piquasso()
        workdir = os.path.join(boot.BUILD, "run", "c11-%d" % os.getpid())
        os.makedirs(workdir, exist_ok=True)
        try:
            history_workload(ctx, rng, spec, workdir)
        finally:
            import shutil

            shutil.rmtree(workdir, ignore_errors=True)
    elif spec["kind"] == "hwc":
        hwc_workload(ctx, rng, spec)
    elif spec["kind"] == "driver":
        driver_workload(ctx, rng, spec)
    elif spec["kind"] == "threads":
        threads_workload(ctx, rng, spec)
    return {"evaluations": ctx.evals, "classes": sorted(ctx.classes), "violations": ctx.violations,
            "counters": ctx.c, "samples": ctx.samples, "observations": sorted(ctx.obs)[:20]}


def replay(case):
    from vf import boot

    ctx = Ctx()
    if "history" in case:
        boot.import_piquasso()
        workdir = os.path.join(boot.BUILD, "run", "c11-replay-%d" % os.getpid())
        os.makedirs(workdir, exist_ok=True)
        hist = case["history"]
        canon_hist = {"programs": hist["programs"], "actions": [a for a in hist["actions"] if a["op"] in ("config", "sim", "execute") and a.get("as") in (None, "c1", "s1") and a.get("record", "r") == "r" or a["op"] == "dask"]}
        canon_hist["actions"] = [a for a in canon_hist["actions"] if not (a["op"] == "config" and a["as"] != "c1") and not (a["op"] == "sim" and a["as"] != "s1")]
        c, _ = run_history(canon_hist, workdir, "canon")
        o, _ = run_history(hist, workdir, "pert")
        if c and o and c["records"].get("r") != o["records"].get("r"):
            ctx.viol("samples-depend-on-history:replay", "perturbed history differs from the canonical one", case)
    elif case.get("kernel") in ("permanent", "permanent_laplace"):
        boot.import_piquasso()
        from piquasso._math.permanent import permanent
        from vf.refs import combinatorial as R

        A = np.array(case["A_re"]) + 1j * np.array(case["A_im"])
        rows, cols = np.array(case["rows"]), np.array(case["cols"])
        if case["kernel"] == "permanent":
            os.environ["VERIF_HWC"] = str(case["hwc"])
            v = complex(np.asarray(permanent(A, rows.astype(np.int32), cols.astype(np.int32))).item())
            ref, env = R.perm_multiplicity(A, rows, cols)
            env = max(env, R.glynn_envelope(A, rows, cols))
            if not abs(v - complex(ref)) <= 1e4 * np.finfo(float).eps * float(env) + 1e-300:
                ctx.viol("permanent-depends-on-job-count:hwc%s" % ("0" if case["hwc"] == 0 else "N"), "%r vs %r" % (v, complex(ref)), case)
    return ctx.violations
