"""C08 - every reachable state is a physical quantum state.

Monitor: vf/monitors/physical.py subscribed to the step hook: independent validators
(eigenvalue decompositions, never state.validate()) after every instruction on every branch;
norm preservation by number-conserving gates; reported probabilities / purity at run end.
"""

import copy
import time

import numpy as np

ID = "C08"
LEVEL = "exploration"
TECHNIQUE = "runtime monitoring: physicality invariants (uncertainty relation, positivity, trace/norm bounds, fermionic spectra, probability and purity ranges) asserted at the step hook after every instruction on every branch"
DESIGN_REF = "DESIGN.md §4 C08"
LEVEL_TEXT = (
    "Valid programs on all six simulators (gates, channels, thermal/mean/covariance preparations, graph embedding, "
    "mid-circuit particle-number / post-selection / homodyne / heterodyne / general-dyne measurements, all hbar and cutoffs) "
    "run with the physicality monitor attached; every post-instruction state of every branch is validated by independent "
    "code, number-conserving gates must preserve the norm to 1e-10, and all reported probabilities and purities are "
    "range-checked at the end of each run."
)
LEVEL_NOTE = (
    "Only programs that pass the library's own validation (Config.validate=True) are monitored; tolerance 1e-9*scale. "
    "Purity of an unnormalised (truncated or post-selected) state is not judged."
)
RULE = (
    "cases = executed programs; non-trivial = at least one post-instruction state was validated by the monitor; "
    "distinct_nontrivial = distinct structural classes (simulator, d, cutoff, hbar, sorted instruction types, mode-order patterns)."
)
ASSUMPTIONS = ["piquasso's quadrature convention: vacuum covariance = hbar * identity, uncertainty relation cov + i*hbar*Omega >= 0"]
REQUIRED = ["states_validated", "hook_steps", "norm_preservation_checks", "reported_quantities_checked", "post_measurement_states_validated"]
WATCHDOG = {"quick": 900, "thorough": 5400}


class Monitor:
    def __init__(self, ctx, doc):
        self.ctx = ctx
        self.doc = doc
        self.norm_in = {}
        self.last_step = None

    def on_step_pre(self, run, idx, ins, state, shots):
        from vf.monitors import physical as P

        if run.depth == 0:
            self.last_step = type(ins).__name__
        if run.depth == 0 and state is not None:
            self.norm_in[id(state)] = P.norm_of(state)

    def on_step_post(self, run, idx, ins, state, shots, sub, exc):
        from vf.monitors import physical as P

        if run.depth != 0 or exc is not None or sub is None:
            return
        ctx = self.ctx
        ctx.c["hook_steps"] += 1
        name = type(ins).__name__
        is_meas = name.endswith("Measurement") or name.endswith("PostSelectPhotons")
        for b in sub:
            st = b.state
            if st is None:
                continue
            ctx.c["states_validated"] += 1
            if is_meas:
                ctx.c["post_measurement_states_validated"] += 1
            for suffix, msg in P.check_state(st):
                ctx.viol("%s:after:%s" % (suffix, name), "%s after instruction %d (%s, modes %s): %s" % (
                    P.kind_of(st), idx, name, tuple(ins.modes), msg), {"doc": self.doc, "index": idx})
            unitary_here = name in P.NUMBER_CONSERVING or (P.kind_of(st) == "ffock" and not is_meas and name not in P.PREPARATIONS)
            if unitary_here and len(sub) == 1:
                n_in = self.norm_in.get(id(state))
                n_out = P.norm_of(st)
                if n_in is not None and n_out is not None:
                    ctx.c["norm_preservation_checks"] += 1
                    if abs(n_out - n_in) > 1e-10 * max(1.0, n_in):
                        ctx.viol("norm-not-preserved:%s:%s" % (P.kind_of(st), name),
                                 "number-conserving %s changed the norm from %.15f to %.15f" % (name, n_in, n_out),
                                 {"doc": self.doc, "index": idx})


class Ctx:
    def __init__(self):
        self.violations = []
        self.c = {k: 0 for k in REQUIRED}
        self.c.update({"programs": 0, "programs_raising": 0, "not_implemented": 0, "by_sim": {}})
        self.classes = set()
        self.samples = []
        self.obs = set()
        self.evals = 0

    def viol(self, mech, msg, case):
        if len(self.violations) < 150:
            self.violations.append({"mechanism": mech, "message": msg[:700], "case": case})


def run_doc(ctx, pq, doc):
    from vf.gen import programs as G
    from vf.monitors import stephook, physical as P
    from piquasso.api.exceptions import NotImplementedCalculation

    hook = stephook.get().install()
    mon = hook.subscribe(Monitor(ctx, doc))
    ctx.evals += 1
    ctx.c["programs"] += 1
    before = ctx.c["states_validated"]
    try:
        sim, prog = G.build_adaptive(pq, doc)
        res = sim.execute(prog, shots=doc.get("shots"))
    except NotImplementedCalculation:
        ctx.c["not_implemented"] += 1
        return
    except Exception as e:
        # refusals are C13's subject; here only executions that return are monitored - except InvalidState: the library's own
        # validator refusing the state that a step of a valid program has just produced *is* an unphysical state
        ctx.c["programs_raising"] += 1
        from piquasso.api.exceptions import InvalidState

        if isinstance(e, InvalidState):
            last = mon.last_step
            ctx.viol("state-rejected-by-library-validator:%s:%s" % (doc["sim"], last or "preparation"),
                     "%s: a step of a valid program (%s) produced a state that the library's validator rejects: %s" % (
                         doc["sim"], last, str(e)[:300]), {"doc": doc})
        ctx.obs.add("%s program raised %s: %s" % (doc["sim"], type(e).__name__, str(e)[:80]))
        return
    finally:
        hook.unsubscribe(mon)
    for b in res.branches[:12]:
        if b.state is None:
            continue
        viols, q = P.reported_quantities(b.state)
        ctx.c["reported_quantities_checked"] += q
        for suffix, msg in viols:
            ctx.viol(suffix, "%s final state: %s" % (doc["sim"], msg), {"doc": doc})
    if ctx.c["states_validated"] > before:
        ctx.classes.add(G.class_key(doc))
        ctx.c["by_sim"][doc["sim"]] = ctx.c["by_sim"].get(doc["sim"], 0) + 1
        if len(ctx.samples) < 4:
            ctx.samples.append({"sim": doc["sim"], "d": doc["d"], "config": doc["config"], "instructions": [[i["t"], i.get("m")] for i in doc["ins"]]})


def gaussian_special(rng, d, hbar):
    """Gaussian programs with preparations, channels, graph embedding and dyne measurements."""
    from vf.gen import programs as G
    from vf.gen import matrices as M

    ins = []
    r = rng.random()
    if r < 0.25:
        ins.append({"t": "Vacuum", "m": None, "p": {}})
        ins.append({"t": "Thermal", "m": None, "p": {"mean_photon_numbers": [float(v) for v in rng.uniform(0, 2, size=d)]}})
    elif r < 0.55:
        P_, A_ = M.symplectic_blocks(rng, d, rmax=0.6)
        S = M.real_symplectic_xxpp(P_, A_)
        nu = 1.05 + rng.exponential(0.5, size=d)
        cov = S @ np.diag(np.concatenate([nu, nu])) @ S.T
        idx = M.xxpp_to_xpxp(d)
        cov = cov[np.ix_(idx, idx)]
        cov = (cov + cov.T) / 2
        ins.append({"t": "Vacuum", "m": None, "p": {}})
        ins.append({"t": "Covariance", "m": None, "p": {"cov": M.enc(cov)}})
        if rng.random() < 0.6:
            ins.append({"t": "Mean", "m": None, "p": {"mean": M.enc(rng.normal(size=2 * d))}})
    else:
        ins.append({"t": "Vacuum", "m": None, "p": {}})
    pool = list(G.PASSIVE_GATES) + list(G.ACTIVE_GATES) + list(G.DISPLACEMENTS) + ["Attenuator", "Channel", "Graph"]
    for _ in range(int(rng.integers(1, 6))):
        name = str(rng.choice(pool))
        if name == "Attenuator":
            ins.append({"t": "Attenuator", "m": [int(rng.integers(0, d))],
                        "p": {"theta": G.angle(rng), "mean_thermal_excitation": float(rng.choice([0, 0.3, 2.0]))}})
        elif name == "Channel":
            k = int(rng.integers(1, min(d, 2) + 1))
            x = float(rng.uniform(0, 1.3))
            X = x * M.haar_orthogonal(rng, 2 * k)
            Y = (1 + x * x) * (1 + rng.exponential(0.3)) * np.eye(2 * k)  # accepted by the library's own validation
            ins.append({"t": "DeterministicGaussianChannel", "m": G.ordered_subset(rng, d, k), "p": {"X": M.enc(X), "Y": M.enc(Y)}})
        elif name == "Graph":
            if d >= 2:
                k = int(rng.integers(2, d + 1))
                adj = (rng.random(size=(k, k)) < 0.6).astype(float)
                adj = np.triu(adj, 1)
                adj = adj + adj.T
                if adj.sum() == 0:
                    adj[0, 1] = adj[1, 0] = 1.0
                ins.append({"t": "Graph", "m": G.ordered_subset(rng, d, k), "p": {"adjacency_matrix": M.enc(adj), "mean_photon_number": float(rng.uniform(0.1, 1.5))}})
        else:
            g = G.gate(rng, name, d, active_scale=0.5, disp_scale=0.8)
            if g is not None:
                ins.append(g)
    # measurements: one or two dyne measurements mid-circuit, then maybe a final one
    active = list(range(d))
    for _ in range(int(rng.integers(0, 3))):
        if len(active) <= 1:
            break
        k = int(rng.integers(1, len(active)))
        mm = [active[i] for i in G.ordered_subset(rng, len(active), k)]
        t = str(rng.choice(["HomodyneMeasurement", "HeterodyneMeasurement", "GeneraldyneMeasurement"]))
        if t == "HomodyneMeasurement":
            p = {"phi": G.angle(rng), "z": float(rng.choice([1e-4, 1e-2, 0.5]))}
        elif t == "GeneraldyneMeasurement":
            a = rng.normal(size=(2, 2))
            det_cov = a @ a.T + np.eye(2) * 0.1
            det_cov = det_cov / np.sqrt(np.linalg.det(det_cov))  # pure single-mode detection state: det = 1
            p = {"detection_covariance": M.enc(det_cov)}
        else:
            p = {}
        ins.append({"t": t, "m": mm, "p": p})
        active = [a_ for a_ in active if a_ not in mm]
        if active and rng.random() < 0.7:
            g = G.gate(rng, str(rng.choice(["Squeezing", "Phaseshifter", "Displacement"])), len(active), active_scale=0.4)
            g["m"] = [active[i] for i in g["m"]]
            ins.append(g)
    return {"sim": "gaussian", "d": d, "config": {"hbar": hbar, "cutoff": 4}, "ins": ins, "shots": int(rng.choice([1, 3, 20]))}


def plan(tier, seed):
    n = 15 if tier == "quick" else 16
    return [{"name": "s%d" % i, "shard": i, "programs": 90 if tier == "quick" else 1200,
             "env": {"OPENBLAS_NUM_THREADS": "1", "OMP_NUM_THREADS": "1", "NUMBA_NUM_THREADS": "2"}} for i in range(n)]


SIMS = ["purefock", "fock", "gaussian", "passive", "ffock", "fgaussian"]


def run_shard(spec):
    from vf import boot

    pq = boot.import_piquasso()
    from vf.gen import programs as G
    from vf.checks import c13

    rng = np.random.default_rng([int(spec["seed"]), 8, int(spec["shard"])])
    ctx = Ctx()
    t0 = time.time()
    budget = 140 if spec["tier"] == "quick" else 1500
    for i in range(int(spec["programs"])):
        if time.time() - t0 > budget:
            ctx.obs.add("shard stopped by time budget after %d programs" % i)
            break
        kind = i % 4
        hbar = float(rng.choice([0.37, 1.0, 2.0, 3.3]))
        if kind == 0:
            doc = gaussian_special(rng, int(rng.integers(1, 5)), hbar)
        elif kind == 1:
            sim = str(rng.choice(["purefock", "passive", "gaussian", "ffock"]))
            doc = G.adaptive_program(rng, sim=sim, shots=(None if sim != "gaussian" else 6) if rng.random() < 0.6 else 9,
                                     tight_cutoff=bool(rng.random() < 0.4), hbar=hbar)
        else:
            sim = SIMS[int(rng.integers(0, len(SIMS)))]
            d = int(rng.integers(1, 5))
            if sim in ("ffock", "fgaussian"):
                d = max(d, 2)
            doc = c13.valid_program(rng, sim, d, int(rng.integers(1, 7)))
            doc["config"]["hbar"] = hbar
            if rng.random() < 0.35:
                # the same gate twice in a row: a block that is an isometry on basis states only (e.g. a sign slip in a
                # 2x2 fermionic squeezing block) first shows on the superposition its own first application creates
                from vf.monitors import physical as P

                gates = [j for j, g in enumerate(doc["ins"]) if g["t"] not in P.PREPARATIONS and "Measurement" not in g["t"]
                         and "PostSelect" not in g["t"] and g.get("when") is None]
                if gates:
                    j = int(gates[int(rng.integers(0, len(gates)))])
                    doc["ins"].insert(j + 1, copy.deepcopy(doc["ins"][j]))
        run_doc(ctx, pq, doc)
    from vf.monitors import physical as P

    ctx.c["gaussian_ill_conditioned_not_judged"] = P.STATS["gaussian_ill_conditioned_not_judged"]
    ctx.c["max_gaussian_kappa_judged"] = P.STATS["max_gaussian_kappa_judged"]
    return {"evaluations": ctx.evals, "classes": sorted(ctx.classes), "violations": ctx.violations,
            "counters": ctx.c, "samples": ctx.samples, "observations": sorted(ctx.obs)[:25]}


def replay(case):
    from vf import boot

    pq = boot.import_piquasso()
    ctx = Ctx()
    run_doc(ctx, pq, case["doc"])
    return ctx.violations
