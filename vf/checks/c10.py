"""C10 - automatic derivatives equal the true derivatives.

Monitor: a *gradient recorder*. Every generated circuit document (gates whose parameters are
slots of one real vector x) is executed through the TensorFlow connector (eager custom-gradient
path with tape.gradient and tape.jacobian, `decorate_with=tf.function` graph path, everything
inside an outer tf.function) and through the JAX connector (jax.grad, jax.jacrev, jax.jacfwd,
jax.jit(jax.grad)); the recorder stores the full Jacobian d(outputs)/dx that the framework
returns. `piquasso.jax_extensions.perm` is differentiated w.r.t. every matrix entry (Re, Im,
|.|^2, holomorphic), through jax.vmap, through the PassiveSimulator, and by direct batched calls
of the `perm_bwd` FFI target.

Oracle: central differences of the *NumPy* simulation of the same document (same cutoff, so the
truncation is the same function in both runs and cancels) with one Richardson step
(h = 1e-3 and 5e-4) / of `piquasso._math.permanent.permanent`.

Conventions (derived, and verified at the start of every shard on pure jnp/tf functions):
  JAX: for f: C -> R, z = x + i y, jax.grad(f)(z) = df/dx - i df/dy  (= 2 df/dz; for f = |z|^2 it
       returns 2 conj(z)).  Hence  df/dRe(A_ij) = Re g_ij  and  df/dIm(A_ij) = -Im g_ij.
       For a holomorphic p the VJP is ct * p'(z) without conjugation, so jax.grad(Re p) = p' and
       jax.grad(Im p) = -i p' (convention checked numerically: see `convention_selfcheck_jax`).
  TF : tape.gradient of a real f w.r.t. complex z returns df/dx + i df/dy (2 z for |z|^2); all
       parameters differentiated here are real float64, so only the real convention is used.

Bound: |g_ad - g_fd| <= 1e-6 * max(1, |g_fd|) + 8 eps F / h_min, where F is the largest |f| on the
stencil (rounding of the difference quotient). Richardson's truncation error is h^4 |f^(5)| / 480
(2e-15 |f^(5)|); when a comparison fails the oracle is refined with h = 2.5e-4 (sixth-order
extrapolation) and the change of the estimate is added to the bound, so a large fifth derivative
(Kerr phases, n^2 <= 36) cannot produce a false alarm.
"""

import time

import numpy as np

ID = "C10"
LEVEL = "exploration"
TECHNIQUE = ("runtime monitoring: gradient recorder on tf.GradientTape / jax.grad / jax.jacobian / jax.jit(jax.grad) of simulator "
             "outputs and of the FFI permanent, differential oracle = Richardson-extrapolated central differences of the NumPy simulation")
DESIGN_REF = "DESIGN.md §4 C10"
LEVEL_TEXT = (
    "Parameter points are drawn uniformly from a box (squeezing r in [-0.8, 0.8], displacement r in [0.05, 0.8], angles in "
    "[-pi, pi]); circuits of Displacement, Squeezing, Beamsplitter, Phaseshifter, Kerr, Interferometer (U = expm(i H(theta)) and "
    "additive perturbations of the real and imaginary part of every matrix entry) and GaussianTransform blocks on d <= 3 modes, "
    "cutoff 4..7, from vacuum, number-state, superposition and batched (BatchPrepare/BatchApply) inputs. Every entry of the "
    "Jacobian of Fock probabilities, mean photon number, mean position and a fidelity loss returned by TensorFlow (eager "
    "tape.gradient and tape.jacobian, decorate_with=tf.function, outer tf.function) and JAX (grad, jacrev, jacfwd, jit(grad)) "
    "must equal the Richardson central difference of the NumPy simulation. jax.grad of Re/Im/|.|^2 of the FFI permanent is "
    "compared entry by entry (both Wirtinger components) for n <= 4 and multiplicity patterns with zeros and repeats, also "
    "through vmap, the PassiveSimulator, and direct batched perm_bwd calls (batch 1, 2, 5, 16)."
)
LEVEL_NOTE = (
    "Exploration of generated circuits only: <= 6 gates, <= 10 differentiated parameters per circuit, float64. The batched "
    "perm_bwd loop is not reachable through jax.vmap in this JAX version (vmap_method='sequential'), so it is exercised by "
    "calling the registered FFI target directly. GaussianTransform is differentiated w.r.t. its squeezing magnitudes with "
    "fixed random unitaries and pairwise distinct magnitudes (SVD derivatives do not exist at degenerate singular values)."
)
RULE = (
    "cases = (circuit document or permanent input, backend, differentiation mode); non-trivial = the framework returned a Jacobian "
    "and at least one entry was compared with the finite-difference oracle; distinct_nontrivial = distinct (backend, mode, d, "
    "cutoff, input kind, sorted gate types, output kinds) / (perm function, n, multiplicity pattern class, batch size) classes."
)
ASSUMPTIONS = [
    "the NumPy simulation is a smooth function of the parameters in the box (all gates are analytic in their parameters)",
    "Richardson-extrapolated central differences with h = 1e-3, 5e-4 are exact to h^4 |f^(5)|/480 + 8 eps |f|/h; the oracle is refined with h = 2.5e-4 before a violation is reported",
    "the NumPy connector / piquasso._math.permanent.permanent compute the function whose derivative is claimed (C01/C04/C09 cover the values)",
]
REQUIRED = ["gradient_entries_compared", "tf_eager_gradient_entries", "tf_eager_jacobian_entries", "tf_function_entries", "jax_grad_entries",
            "jax_jacobian_entries", "jax_jit_entries", "perm_entries", "perm_vmap_entries", "perm_batched_backward_calls",
            "convention_selfchecks", "batched_state_entries", "interferometer_entries"]
WATCHDOG = {"quick": 1500, "thorough": 5400}

H1, H2, H3 = 1e-3, 5e-4, 2.5e-4
REL = 1e-6
VALUE_TOL = 1e-8  # forward values, float64, quantities of order one (the bound C09 uses)
EPS = float(np.finfo(np.float64).eps)

GATE_PARAMS = {
    "Displacement": ("r", "phi"), "Squeezing": ("r", "phi"), "Beamsplitter": ("theta", "phi"), "Phaseshifter": ("phi",),
    "Kerr": ("xi",),
}
ARITY = {"Displacement": 1, "Squeezing": 1, "Beamsplitter": 2, "Phaseshifter": 1, "Kerr": 1}


class Ctx:
    def __init__(self):
        self.violations = []
        self.c = {k: 0 for k in REQUIRED}
        self.c.update({"max_dev_over_tol": 0.0, "max_abs_dev": 0.0, "by_backend": {}, "by_gate_param": {}, "by_output": {}, "circuits": 0,
                       "oracle_refinements": 0, "unsupported": {}, "backend_raises": 0})
        self.classes = set()
        self.samples = []
        self.obs = set()
        self.evals = 0

    def viol(self, mech, msg, case):
        if len(self.violations) < 120:
            self.violations.append({"mechanism": mech, "message": msg[:900], "case": case})

    def bump(self, table, key, n=1):
        self.c[table][key] = self.c[table].get(key, 0) + n


# =========================================================================== documents
def hermitian_basis(n):
    """n^2 Hermitian generators: E_jj, (E_jk + E_kj), i (E_jk - E_kj)."""
    out = []
    for j in range(n):
        g = np.zeros((n, n), dtype=complex)
        g[j, j] = 1.0
        out.append(g)
    for j in range(n):
        for k in range(j + 1, n):
            g = np.zeros((n, n), dtype=complex)
            g[j, k] = g[k, j] = 1.0
            out.append(g)
            g = np.zeros((n, n), dtype=complex)
            g[j, k] = 1j
            g[k, j] = -1j
            out.append(g)
    return out


def entry_basis(n):
    """2 n^2 directions: E_jk (real part of entry jk) and i E_jk (imaginary part)."""
    out = []
    for j in range(n):
        for k in range(n):
            g = np.zeros((n, n), dtype=complex)
            g[j, k] = 1.0
            out.append(g)
            out.append(1j * g)
    return out


class Lib:
    """Scalar/matrix construction in one framework. xs is a sequence of framework scalars."""

    name = "numpy"

    def __init__(self):
        import scipy.linalg

        self._expm = scipy.linalg.expm

    def const(self, v):
        return float(v)

    def lincomb(self, xs, idx, mats, base=None):
        acc = np.zeros_like(mats[0]) if base is None else np.array(base, dtype=complex)
        for i, g in zip(idx, mats):
            acc = acc + xs[i] * g
        return acc

    def expm_i(self, H):
        return self._expm(1j * H)

    def bloch_messiah(self, U1, U2, rs):
        rs = np.array([float(r) for r in rs])
        P = U1 @ np.diag(np.cosh(rs)) @ U2
        A = U1 @ np.diag(np.sinh(rs)) @ U2.conj()
        return P, A

    def overlap_sq(self, target_conj, sv):
        amp = np.tensordot(target_conj, np.asarray(sv), axes=1)
        return np.real(amp * np.conj(amp))


class TfLib(Lib):
    name = "tensorflow"

    def __init__(self, tf):
        self.tf = tf

    def const(self, v):
        return float(v)

    def lincomb(self, xs, idx, mats, base=None):
        tf = self.tf
        acc = tf.zeros(mats[0].shape, dtype=tf.complex128) if base is None else tf.constant(np.asarray(base, dtype=complex))
        for i, g in zip(idx, mats):
            acc = acc + tf.cast(xs[i], tf.complex128) * tf.constant(g)
        return acc

    def expm_i(self, H):
        return self.tf.linalg.expm(tf_complex(self.tf, 0.0, 1.0) * H)

    def bloch_messiah(self, U1, U2, rs):
        tf = self.tf
        r = tf.stack(list(rs))
        ch = tf.linalg.diag(tf.cast(tf.cosh(r), tf.complex128))
        sh = tf.linalg.diag(tf.cast(tf.sinh(r), tf.complex128))
        P = tf.constant(U1) @ ch @ tf.constant(U2)
        A = tf.constant(U1) @ sh @ tf.constant(U2.conj())
        return P, A

    def overlap_sq(self, target_conj, sv):
        tf = self.tf
        amp = tf.tensordot(tf.constant(target_conj), tf.convert_to_tensor(sv), axes=1)
        return tf.math.real(amp * tf.math.conj(amp))


def tf_complex(tf, re, im):
    return tf.complex(tf.constant(re, dtype=tf.float64), tf.constant(im, dtype=tf.float64))


class JaxLib(Lib):
    name = "jax"

    def __init__(self, jax):
        self.jax = jax
        self.jnp = jax.numpy

    def lincomb(self, xs, idx, mats, base=None):
        jnp = self.jnp
        acc = jnp.zeros(mats[0].shape, dtype=jnp.complex128) if base is None else jnp.asarray(np.asarray(base, dtype=complex))
        for i, g in zip(idx, mats):
            acc = acc + xs[i] * jnp.asarray(g)
        return acc

    def expm_i(self, H):
        return self.jax.scipy.linalg.expm(1j * H)

    def bloch_messiah(self, U1, U2, rs):
        jnp = self.jnp
        r = jnp.stack(list(rs))
        P = jnp.asarray(U1) @ jnp.diag(jnp.cosh(r)).astype(jnp.complex128) @ jnp.asarray(U2)
        A = jnp.asarray(U1) @ jnp.diag(jnp.sinh(r)).astype(jnp.complex128) @ jnp.asarray(U2.conj())
        return P, A

    def overlap_sq(self, target_conj, sv):
        jnp = self.jnp
        amp = jnp.tensordot(jnp.asarray(target_conj), sv, axes=1)
        return jnp.real(amp * jnp.conj(amp))


def _ref(lib, xs, ref):
    if "x" in ref:
        return xs[int(ref["x"])]
    return lib.const(ref["c"])


def build_gate(pq, lib, xs, g):
    from vf.gen import matrices as M

    t = g["t"]
    if t in GATE_PARAMS:
        kw = {k: _ref(lib, xs, g["p"][k]) for k in GATE_PARAMS[t]}
        ins = getattr(pq, t)(**kw)
    elif t == "Interferometer":
        n = len(g["m"])
        if g["kind"] == "expm":
            U = lib.expm_i(lib.lincomb(xs, g["x"], hermitian_basis(n)))
        else:
            U = lib.lincomb(xs, g["x"], entry_dirs(g), base=M.dec(g["U0"]))
        ins = pq.Interferometer(U)
    elif t == "GaussianTransform":
        P, A = lib.bloch_messiah(M.dec(g["U1"]), M.dec(g["U2"]), [xs[i] for i in g["x"]])
        ins = pq.GaussianTransform(passive=P, active=A)
    else:
        raise KeyError(t)
    return ins.on_modes(*g["m"])


def build_prep(pq, lib, xs, prep):
    if prep["kind"] == "vacuum":
        return [pq.Vacuum()]
    if prep["kind"] == "number":
        return [pq.StateVector(tuple(prep["occ"]))]
    if prep["kind"] == "superposition":
        return [pq.StateVector(tuple(o)) * complex(a[0], a[1]) for o, a in zip(prep["occs"], prep["amps"])]
    if prep["kind"] == "batch":
        subs = []
        for sub in prep["subs"]:
            ins = build_prep(pq, lib, xs, sub["prep"]) + [build_gate(pq, lib, xs, g) for g in sub["gates"]]
            subs.append(pq.Program(instructions=ins))
        return [pq.BatchPrepare(subs)]
    raise KeyError(prep["kind"])


def build_program(pq, lib, xs, doc):
    ins = build_prep(pq, lib, xs, doc["prep"])
    for g in doc["gates"]:
        if g["t"] == "BatchApply":
            subs = [pq.Program(instructions=[build_gate(pq, lib, xs, gg) for gg in sub]) for sub in g["subs"]]
            ins.append(pq.BatchApply(subs))
        else:
            ins.append(build_gate(pq, lib, xs, g))
    return pq.Program(instructions=ins)


def batch_size(doc):
    return len(doc["prep"]["subs"]) if doc["prep"]["kind"] == "batch" else 0


def read_outputs(lib, state, doc):
    """List of framework scalars, one per (output, batch element)."""
    from vf.gen import matrices as M

    B = batch_size(doc)
    outs = []
    for o in doc["outputs"]:
        k = o["k"]
        if k == "prob":
            fp = state.fock_probabilities
            vals = [fp[b][o["i"]] for b in range(B)] if B else [fp[o["i"]]]
        elif k == "mean_photon":
            v = state.mean_photon_number()
            vals = [v[b] for b in range(B)] if B else [v]
        elif k == "mean_position":
            v = state.mean_position(o["mode"])
            vals = [v[b] for b in range(B)] if B else [v]
        elif k == "fidelity":
            v = lib.overlap_sq(np.conj(M.dec(o["target"])), state.state_vector)
            vals = [v[b] for b in range(B)] if B else [v]
        else:
            raise KeyError(k)
        outs.extend(vals)
    return outs


def output_labels(doc):
    B = batch_size(doc)
    lab = []
    for o in doc["outputs"]:
        lab.extend([o["k"]] * (B if B else 1))
    return lab


def param_labels(doc):
    """label per x slot: 'Gate.param' (the first gate that uses it)."""
    lab = {}

    def visit(g):
        t = g["t"]
        if t in GATE_PARAMS:
            for k in GATE_PARAMS[t]:
                if "x" in g["p"][k]:
                    lab.setdefault(int(g["p"][k]["x"]), "%s.%s" % (t, k))
        elif t == "Interferometer":
            for i in g["x"]:
                lab.setdefault(int(i), "Interferometer.%s" % g["kind"])
        elif t == "GaussianTransform":
            for i in g["x"]:
                lab.setdefault(int(i), "GaussianTransform.r")
        elif t == "BatchApply":
            for sub in g["subs"]:
                for gg in sub:
                    visit(gg)

    if doc["prep"]["kind"] == "batch":
        for sub in doc["prep"]["subs"]:
            for g in sub["gates"]:
                visit(g)
    for g in doc["gates"]:
        visit(g)
    return [lab.get(i, "unused") for i in range(len(doc["x0"]))]


def make_sim(pq, doc, connector):
    # validate=False for GaussianTransform circuits: GaussianTransform._validate calls `.conj()` on the blocks, which eager
    # TensorFlow tensors do not have (AttributeError before any derivative exists); recorded as an observation
    cfg = pq.Config(cutoff=doc["cutoff"], validate=bool(doc.get("validate", True)))
    return pq.PureFockSimulator(d=doc["d"], config=cfg, connector=connector)


# =========================================================================== oracle
def numpy_function(pq, doc):
    lib = Lib()
    conn = pq.NumpyConnector()

    def f(x):
        sim = make_sim(pq, doc, conn)
        st = sim.execute(build_program(pq, lib, [float(v) for v in x], doc)).state
        return np.array([float(np.real(v)) for v in read_outputs(lib, st, doc)])

    return f


def central(f, x, i, h):
    e = np.zeros_like(x)
    e[i] = h
    fp, fm = f(x + e), f(x - e)
    return (fp - fm) / (2 * h), max(float(np.max(np.abs(fp))), float(np.max(np.abs(fm))))


def fd_jacobian(f, x):
    """Richardson central differences. Returns J (n_out, n_par) and F (max |f| on the stencil)."""
    x = np.asarray(x, dtype=float)
    cols = []
    F = 0.0
    for i in range(len(x)):
        d1, s1 = central(f, x, i, H1)
        d2, s2 = central(f, x, i, H2)
        cols.append((4 * d2 - d1) / 3)
        F = max(F, s1, s2)
    return np.array(cols).T.reshape(-1, len(x)), F


def fd_refined_column(f, x, i):
    """Sixth-order estimate of df/dx_i and the change w.r.t. the fourth-order one."""
    x = np.asarray(x, dtype=float)
    d1, _ = central(f, x, i, H1)
    d2, _ = central(f, x, i, H2)
    d3, _ = central(f, x, i, H3)
    r12 = (4 * d2 - d1) / 3
    r23 = (4 * d3 - d2) / 3
    r = (16 * r23 - r12) / 15
    return r, np.abs(r - r12)


def rounding_term(F, hmin=H2):
    return 8 * EPS * max(F, 1e-300) / hmin


def compare_jacobian(ctx, path, J_ad, J_fd, F, f_np, x0, plabels, olabels, case, counter_keys):
    """Entry-wise comparison; refines the oracle before reporting. Returns number of failing entries."""
    J_ad = np.asarray(J_ad)
    if J_ad.shape != J_fd.shape:
        ctx.viol("jacobian-shape:%s" % path, "%s returned a Jacobian of shape %s, expected %s" % (path, J_ad.shape, J_fd.shape), case)
        return 1
    if np.iscomplexobj(J_ad):
        if float(np.max(np.abs(J_ad.imag))) > 1e-9:
            ctx.viol("jacobian-complex:%s" % path, "%s returned a complex gradient (max |Im| = %.3e) for real parameters" % (
                path, float(np.max(np.abs(J_ad.imag)))), case)
        J_ad = J_ad.real
    J_ad = J_ad.astype(float)
    tol = REL * np.maximum(1.0, np.abs(J_fd)) + rounding_term(F)
    dev = np.abs(J_ad - J_fd)
    bad = ~(dev <= tol)
    refined = {}
    if bad.any():
        for i in sorted(set(np.nonzero(bad)[1].tolist())):
            ctx.c["oracle_refinements"] += 1
            r, change = fd_refined_column(f_np, x0, i)
            refined[i] = (r, change)
            J_fd = J_fd.copy()
            tol = tol.copy()
            J_fd[:, i] = r
            tol[:, i] = REL * np.maximum(1.0, np.abs(r)) + rounding_term(F, H3) + change
        dev = np.abs(J_ad - J_fd)
        bad = ~(dev <= tol)
    n = int(J_fd.size)
    ctx.c["gradient_entries_compared"] += n
    for k in counter_keys:
        ctx.c[k] = ctx.c.get(k, 0) + n
    ctx.bump("by_backend", path, n)
    for j, pl in enumerate(plabels):
        ctx.bump("by_gate_param", pl, J_fd.shape[0])
    for ol in olabels:
        ctx.bump("by_output", ol, J_fd.shape[1])
    ok = ~bad
    if ok.any():
        ratio = float(np.max(dev[ok] / tol[ok]))
        ctx.c["max_dev_over_tol"] = max(ctx.c["max_dev_over_tol"], ratio)
        ctx.c["max_abs_dev"] = max(ctx.c["max_abs_dev"], float(np.max(dev[ok])))
        ctx.c["max_dev_over_tol__" + path] = max(ctx.c.get("max_dev_over_tol__" + path, 0.0), ratio)
    nbad = int(bad.sum())
    if nbad:
        seen = set()
        for o, i in zip(*np.nonzero(bad)):
            key = (plabels[i], olabels[o])
            if key in seen:
                continue
            seen.add(key)
            kind = "nan" if not np.isfinite(J_ad[o, i]) else "mismatch"
            ctx.viol("grad-%s:%s:%s" % (kind, path, plabels[i]),
                     "%s: d(%s #%d)/d(x%d = %s) = %.12g, finite differences of the NumPy simulation give %.12g (|dev| = %.3e > tol %.3e); "
                     "%d of %d Jacobian entries differ; x0 = %s" % (
                         path, olabels[o], o, i, plabels[i], J_ad[o, i], J_fd[o, i], dev[o, i], tol[o, i], nbad, n,
                         np.round(np.asarray(x0), 4).tolist()), case)
    return nbad


# =========================================================================== TensorFlow backends
_TF = {}


def get_tf():
    if "tf" not in _TF:
        import tensorflow as tf

        _TF["tf"] = tf
    return _TF["tf"]


def tf_run(pq, doc, mode, connectors):
    """mode: eager-gradient | eager-jacobian | function-gradient | function-jacobian | outer-function."""
    tf = get_tf()
    lib = TfLib(tf)
    n = len(doc["x0"])
    v = tf.Variable(np.asarray(doc["x0"], dtype=np.float64), dtype=tf.float64)
    zero = tf.UnconnectedGradients.ZERO
    if mode == "outer-function":
        @tf.function
        def whole(v):
            conn = pq.TensorflowConnector()
            with tf.GradientTape(persistent=True) as tape:
                xs = [v[i] for i in range(n)]
                st = make_sim(pq, doc, conn).execute(build_program(pq, lib, xs, doc)).state
                outs = [tf.cast(o, tf.float64) for o in read_outputs(lib, st, doc)]
            return tf.stack([tape.gradient(o, v, unconnected_gradients=zero) for o in outs]), tf.stack(outs)

        J, vals = whole(v)
        return np.asarray(J), np.asarray(vals)
    conn = connectors["function" if mode.startswith("function") else "eager"]
    with tf.GradientTape(persistent=True) as tape:
        xs = [v[i] for i in range(n)]
        st = make_sim(pq, doc, conn).execute(build_program(pq, lib, xs, doc)).state
        outs = read_outputs(lib, st, doc)
        if mode.endswith("jacobian"):
            stacked = tf.stack([tf.cast(o, tf.float64) for o in outs])
    vals = np.array([float(np.real(np.asarray(o))) for o in outs])
    if mode.endswith("jacobian"):
        return np.asarray(tape.jacobian(stacked, v, unconnected_gradients=zero)), vals
    return np.array([np.asarray(tape.gradient(o, v, unconnected_gradients=zero)) for o in outs]), vals


# =========================================================================== JAX backends
_JAX = {}


def get_jax():
    if "jax" not in _JAX:
        import jax

        jax.config.update("jax_enable_x64", True)
        # Eager JAX compiles one XLA kernel per (primitive, shape): ~700 per circuit. A persistent cache keyed by the HLO
        # (so a changed computation never hits a stale entry) keeps later runs inside the time budget.
        try:
            import os
            from vf import boot

            cache = os.path.join(boot.BUILD, "jaxcache")
            os.makedirs(cache, exist_ok=True)
            jax.config.update("jax_compilation_cache_dir", cache)
            jax.config.update("jax_persistent_cache_min_compile_time_secs", 0.0)
            jax.config.update("jax_persistent_cache_min_entry_size_bytes", -1)
        except Exception:
            pass
        _JAX["jax"] = jax
    return _JAX["jax"]


def jax_function(pq, doc):
    jax = get_jax()
    jnp = jax.numpy
    lib = JaxLib(jax)

    def f(x):
        conn = pq.JaxConnector()
        xs = [x[i] for i in range(len(doc["x0"]))]
        st = make_sim(pq, doc, conn).execute(build_program(pq, lib, xs, doc)).state
        return jnp.stack([jnp.real(o) for o in read_outputs(lib, st, doc)])

    return f


def jax_run(pq, doc, mode, rows=None):
    """mode: grad | jacrev | jacfwd | jit-grad. `rows`: output rows for the scalar modes."""
    jax = get_jax()
    jnp = jax.numpy
    f = jax_function(pq, doc)
    x0 = jnp.asarray(np.asarray(doc["x0"], dtype=np.float64))
    vals = np.asarray(f(x0))
    if mode == "jacrev":
        return np.asarray(jax.jacrev(f)(x0)), vals
    if mode == "jacfwd":
        return np.asarray(jax.jacfwd(f)(x0)), vals
    out = []
    for k in rows:
        g = jax.grad(lambda x, k=k: f(x)[k])
        if mode == "jit-grad":
            g = jax.jit(g)
        out.append(np.asarray(g(x0)))
    return np.array(out), vals


# =========================================================================== circuit generator
def gen_param(rng, x, t, k, variable=0.75):
    if t == "Displacement" and k == "r":
        v = float(rng.uniform(0.05, 0.8))
    elif t == "Squeezing" and k == "r":
        v = float(rng.uniform(-0.8, 0.8))
    elif t == "Kerr":
        v = float(rng.uniform(-np.pi, np.pi))
    else:
        v = float(rng.uniform(-np.pi, np.pi))
    if rng.random() < variable:
        x.append(v)
        return {"x": len(x) - 1}
    return {"c": v}


def gen_gate(rng, x, t, d, variable=0.75, real_blocks=False):
    from vf.gen import matrices as M

    if t in GATE_PARAMS:
        m = [int(v) for v in rng.choice(d, size=ARITY[t], replace=False)]
        return {"t": t, "m": m, "p": {k: gen_param(rng, x, t, k, variable) for k in GATE_PARAMS[t]}}
    if t == "Interferometer":
        n = int(rng.integers(2, d + 1)) if d > 1 else 1
        m = [int(v) for v in rng.choice(d, size=n, replace=False)]
        if rng.random() < 0.6:
            idx = []
            for _ in range(n * n):
                x.append(float(rng.uniform(-1.0, 1.0)))
                idx.append(len(x) - 1)
            return {"t": t, "m": m, "kind": "expm", "x": idx}
        U0, _ = M.structured_unitary(rng, n)
        # perturbation of Re and Im of a random subset of the entries (at most 6 slots)
        slots = [int(v) for v in rng.permutation(2 * n * n)[: min(6, 2 * n * n)]]
        idx, dirs = [], []
        for s in sorted(slots):
            x.append(0.0)
            idx.append(len(x) - 1)
            dirs.append(s)
        return {"t": t, "m": m, "kind": "entries", "U0": M.enc(U0), "x": idx, "dirs": dirs}
    if t == "GaussianTransform":
        n = int(rng.integers(1, min(d, 2) + 1))
        m = [int(v) for v in rng.choice(d, size=n, replace=False)]
        if not real_blocks:
            U1, U2 = M.haar_unitary(rng, n), M.haar_unitary(rng, n)
        else:  # real blocks
            U1, U2 = M.haar_orthogonal(rng, n).astype(complex), M.haar_orthogonal(rng, n).astype(complex)
        while True:
            rs = rng.uniform(0.1, 0.6, size=n)
            if n == 1 or abs(rs[0] - rs[1]) > 0.15:
                break
        idx = []
        for r in rs:
            x.append(float(r))
            idx.append(len(x) - 1)
        return {"t": t, "m": m, "U1": M.enc(U1), "U2": M.enc(U2), "x": idx}
    raise KeyError(t)


def entry_dirs(g):
    n = len(g["m"])
    full = entry_basis(n)
    return [full[s] for s in g["dirs"]]


def gen_prep(rng, d, cutoff, allow=("vacuum", "number", "superposition")):
    kind = str(rng.choice(allow))
    if kind == "vacuum":
        return {"kind": "vacuum"}
    nmax = min(2, cutoff - 2)
    if kind == "number":
        occ = [0] * d
        for _ in range(int(rng.integers(1, nmax + 1))):
            occ[int(rng.integers(0, d))] += 1
        return {"kind": "number", "occ": occ}
    occs = []
    while len(occs) < 3:
        occ = [0] * d
        for _ in range(int(rng.integers(0, nmax + 1))):
            occ[int(rng.integers(0, d))] += 1
        if occ not in occs:
            occs.append(occ)
        elif d == 1 and len(occs) >= nmax + 1:
            break
    amps = rng.normal(size=len(occs)) + 1j * rng.normal(size=len(occs))
    amps = amps / np.linalg.norm(amps)
    return {"kind": "superposition", "occs": occs, "amps": [[float(a.real), float(a.imag)] for a in amps]}


def gen_outputs(rng, pq, doc):
    """Output list chosen after one NumPy run (the largest and one random probability)."""
    from piquasso._math.fock import cutoff_fock_space_dim
    from vf.gen import matrices as M

    N = int(cutoff_fock_space_dim(cutoff=doc["cutoff"], d=doc["d"]))
    doc["outputs"] = [{"k": "mean_photon"}]
    f = numpy_function(pq, dict(doc, outputs=[{"k": "prob", "i": i} for i in range(N)]))
    probs = f(np.asarray(doc["x0"]))
    B = batch_size(doc)
    p = probs.reshape(N, B).sum(axis=1) if B else probs
    top = int(np.argmax(p))
    second = int(np.argsort(p)[-2]) if N > 1 else top
    rnd = int(rng.integers(0, N))
    idx = []
    for i in (top, second, rnd):
        if i not in idx:
            idx.append(i)
    outs = [{"k": "prob", "i": i} for i in idx]
    outs.append({"k": "mean_photon"})
    outs.append({"k": "mean_position", "mode": int(rng.integers(0, doc["d"]))})
    t = rng.normal(size=N) + 1j * rng.normal(size=N)
    t = t / np.linalg.norm(t)
    outs.append({"k": "fidelity", "target": M.enc(t)})
    doc["outputs"] = outs
    return doc


def gen_circuit(rng, pq, flavour, dc=None, max_params=10):
    """flavour: plain | batch | interferometer | gaussian (complex blocks) | gaussian-real."""
    while True:
        if dc is None:
            d = int(rng.choice([1, 2, 2, 3]))
            cutoff = int(rng.integers(4, 8)) if d < 3 else int(rng.integers(4, 7))
        else:
            d, cutoff = dc[int(rng.integers(0, len(dc)))]
        x = []
        pool = ["Displacement", "Squeezing", "Phaseshifter", "Kerr"] + (["Beamsplitter", "Beamsplitter"] if d > 1 else [])
        if flavour in ("plain", "interferometer") and (d > 1 or flavour == "interferometer"):
            pool.append("Interferometer")
        gates = []
        if flavour == "batch":
            subs = []
            for _ in range(int(rng.integers(2, 4))):
                sg = [gen_gate(rng, x, str(rng.choice(["Displacement", "Squeezing"])), d, variable=0.4) for _ in range(int(rng.integers(1, 3)))]
                subs.append({"prep": gen_prep(rng, d, cutoff, allow=("vacuum", "vacuum", "number")), "gates": sg})
            prep = {"kind": "batch", "subs": subs}
        else:
            prep = gen_prep(rng, d, cutoff)
        ngates = int(rng.integers(2, 6))
        if prep["kind"] == "vacuum":
            gates.append(gen_gate(rng, x, str(rng.choice(["Displacement", "Squeezing"])), d))
            if rng.random() < 0.5:
                gates.append(gen_gate(rng, x, str(rng.choice(["Displacement", "Squeezing"])), d))
        for _ in range(ngates):
            gates.append(gen_gate(rng, x, str(rng.choice(pool)), d))
        if flavour == "interferometer" and not any(g["t"] == "Interferometer" for g in gates):
            gates.insert(int(rng.integers(1, len(gates) + 1)), gen_gate(rng, x, "Interferometer", d))
        if flavour.startswith("gaussian"):
            gates.insert(int(rng.integers(0, len(gates) + 1)), gen_gate(rng, x, "GaussianTransform", d, real_blocks=flavour == "gaussian-real"))
        if flavour == "batch" and rng.random() < 0.6:
            nb = len(prep["subs"])
            subs = [[gen_gate(rng, x, str(rng.choice(pool[:4] + (["Beamsplitter"] if d > 1 else []))), d, variable=0.5)] for _ in range(nb)]
            gates.insert(int(rng.integers(0, len(gates) + 1)), {"t": "BatchApply", "subs": subs})
        if 1 <= len(x) <= max_params:
            break
    doc = {"d": d, "cutoff": cutoff, "prep": prep, "gates": gates, "x0": x, "flavour": flavour, "validate": not flavour.startswith("gaussian")}
    return gen_outputs(rng, pq, doc)


def class_key(doc, path):
    def types(gs):
        out = []
        for g in gs:
            if g["t"] == "BatchApply":
                out.append("BatchApply[%s]" % ",".join(sorted(gg["t"] for s in g["subs"] for gg in s)))
            elif g["t"] == "Interferometer":
                out.append("Interferometer-%s%d" % (g["kind"], len(g["m"])))
            else:
                out.append(g["t"])
        return ",".join(sorted(out))

    return "%s|d%d|c%d|%s%s|%s|%s" % (path, doc["d"], doc["cutoff"], doc["prep"]["kind"],
                                       batch_size(doc) or "", types(doc["gates"]), ",".join(sorted({o["k"] for o in doc["outputs"]})))


# =========================================================================== circuit shards
UNSUPPORTED_OK = ("NotImplementedError", "NotImplementedCalculation")


def run_circuit_case(ctx, pq, doc, paths, connectors=None):
    """paths: list of (backend, mode)."""
    f_np = numpy_function(pq, doc)
    x0 = np.asarray(doc["x0"], dtype=float)
    J_fd, F = fd_jacobian(f_np, x0)
    f0 = f_np(x0)
    if not np.all(np.isfinite(J_fd)):
        raise RuntimeError("non-finite finite-difference oracle: %r" % doc)
    plabels, olabels = param_labels(doc), output_labels(doc)
    ctx.c["circuits"] += 1
    nout = len(olabels)
    for backend, mode in paths:
        path = "%s-%s" % (backend, mode)
        case = {"kind": "circuit", "doc": doc, "backend": backend, "mode": mode}
        rows = list(range(nout))
        if mode == "jit-grad":
            rows = rows[:1] + rows[-2:] if nout > 3 else rows
        ctx.evals += 1
        try:
            if backend == "tf":
                J, vals = tf_run(pq, doc, mode, connectors)
            else:
                J, vals = jax_run(pq, doc, mode, rows)
        except Exception as e:  # the call under test
            name = type(e).__name__
            if name in UNSUPPORTED_OK:
                ctx.bump("unsupported", "%s:%s:%s" % (path, doc["flavour"], name))
                ctx.obs.add("%s on a %s circuit is not supported: %s: %s" % (path, doc["flavour"], name, str(e)[:160]))
                continue
            ctx.c["backend_raises"] += 1
            import traceback

            tb = traceback.extract_tb(e.__traceback__)
            where = next(("%s:%s" % (fr.filename.split("piquasso/")[-1], fr.name) for fr in reversed(tb) if "/piquasso/" in fr.filename), "?")
            ctx.viol("grad-raises:%s:%s:%s" % (path, name, where), "%s raised %s: %s (flavour %s, gates %s)" % (
                path, name, str(e)[:300], doc["flavour"], [g["t"] for g in doc["gates"]]), case)
            continue
        # the derivative of a *different* function is not a derivative defect: when the connector's forward values already
        # differ from the NumPy simulation (C09's subject) the case is classified as such and no Jacobian is compared
        vdev = float(np.max(np.abs(np.asarray(vals, dtype=float) - f0))) if np.asarray(vals).shape == f0.shape else float("inf")
        if not (vdev <= VALUE_TOL):
            ctx.c["forward_value_mismatches"] = ctx.c.get("forward_value_mismatches", 0) + 1
            what = "GaussianTransform" if doc["flavour"].startswith("gaussian") else "circuit"
            ctx.viol("forward-value-differs:%s:%s" % (backend, what),
                     "%s: forward outputs differ from the NumPy simulation by %.3e (> %.0e) before any differentiation; gates %s" % (
                         path, vdev, VALUE_TOL, [g["t"] for g in doc["gates"]]), case)
            continue
        Jf = J_fd[rows]
        ol = [olabels[r] for r in rows]
        keys = {"tf-eager-gradient": ["tf_eager_gradient_entries"], "tf-eager-jacobian": ["tf_eager_jacobian_entries"],
                "tf-function-gradient": ["tf_function_entries"], "tf-function-jacobian": ["tf_function_entries"],
                "tf-outer-function": ["tf_function_entries"], "jax-grad": ["jax_grad_entries"], "jax-jacrev": ["jax_jacobian_entries"],
                "jax-jacfwd": ["jax_jacobian_entries"], "jax-jit-grad": ["jax_jit_entries"]}[path][:]
        if batch_size(doc):
            keys.append("batched_state_entries")
        if any(g["t"] == "Interferometer" for g in doc["gates"]):
            keys.append("interferometer_entries")

        def f_rows(x, rows=rows):
            return f_np(x)[rows]

        nbad = compare_jacobian(ctx, path, J, Jf, F, f_rows, x0, plabels, ol, case, keys)
        ctx.classes.add(class_key(doc, path))
        if len(ctx.samples) < 3 and nbad == 0:
            ctx.samples.append({"path": path, "d": doc["d"], "cutoff": doc["cutoff"], "prep": doc["prep"]["kind"],
                                "gates": [g["t"] for g in doc["gates"]], "x0": np.round(x0, 4).tolist(),
                                "outputs": olabels, "jacobian_ad_row0": np.round(np.asarray(J).real[0], 9).tolist(),
                                "jacobian_fd_row0": np.round(Jf[0], 9).tolist()})


def convention_selfcheck_jax(ctx):
    """jax.grad of a real function of a complex variable returns df/dx - i df/dy."""
    jax = get_jax()
    jnp = jax.numpy
    z = jnp.asarray(0.3 - 0.7j)
    c = 0.4 + 0.9j
    g = complex(jax.grad(lambda z_: jnp.real(c * z_ * z_) + jnp.abs(z_) ** 2)(z))
    zz = complex(z)
    dfdx = (2 * c * zz).real + 2 * zz.real
    dfdy = (2j * c * zz).real + 2 * zz.imag
    if abs(g - (dfdx - 1j * dfdy)) > 1e-12:
        raise RuntimeError("jax.grad convention differs from df/dx - i df/dy: %r vs %r" % (g, dfdx - 1j * dfdy))
    ctx.c["convention_selfchecks"] += 1


def convention_selfcheck_tf(ctx):
    tf = get_tf()
    v = tf.Variable(np.array([0.3, -0.7]), dtype=tf.float64)
    with tf.GradientTape() as tape:
        z = tf.complex(v[0], v[1])
        f = tf.math.real(z * z * tf_complex(tf, 0.4, 0.9)) + tf.math.real(z * tf.math.conj(z))
    g = np.asarray(tape.gradient(f, v))
    zz, c = 0.3 - 0.7j, 0.4 + 0.9j
    ref = np.array([(2 * c * zz).real + 2 * zz.real, (2j * c * zz).real + 2 * zz.imag])
    if np.max(np.abs(g - ref)) > 1e-12:
        raise RuntimeError("tf gradient w.r.t. real parameters of a complex expression is off: %r vs %r" % (g, ref))
    ctx.c["convention_selfchecks"] += 1


def probe_gaussian_validation(ctx, pq, tf):
    """Observation only: GaussianTransform with eager tensor blocks and the default validate=True."""
    try:
        prog = pq.Program(instructions=[pq.Vacuum(), pq.GaussianTransform(
            passive=tf.constant(np.array([[np.cosh(0.3) + 0j]])), active=tf.constant(np.array([[np.sinh(0.3) + 0j]]))).on_modes(0)])
        pq.PureFockSimulator(d=1, config=pq.Config(cutoff=4), connector=pq.TensorflowConnector()).execute(prog)
    except Exception as e:
        ctx.obs.add("GaussianTransform with eager TensorFlow tensor blocks and validate=True raises %s: %s (circuits with "
                    "GaussianTransform therefore run with Config(validate=False))" % (type(e).__name__, str(e)[:100]))


def shard_circuits(ctx, spec, pq, rng):
    backend = spec["backend"]
    t0 = time.time()
    budget = float(spec["budget"])
    connectors = None
    if backend == "tf":
        tf = get_tf()
        convention_selfcheck_tf(ctx)
        connectors = {"eager": pq.TensorflowConnector(), "function": pq.TensorflowConnector(decorate_with=tf.function)}
        if any(f.startswith("gaussian") for f in spec["flavours"]):
            probe_gaussian_validation(ctx, pq, tf)
    else:
        convention_selfcheck_jax(ctx)
    t_start = time.time()
    flavours = spec["flavours"]
    dc = [tuple(v) for v in spec["dc"]] if spec.get("dc") else None
    for it in range(int(spec["count"])):
        # count cap and time budget; a floor keeps a slow (shared) machine from emptying the workload -- the watchdog is the
        # only hard limit and wall-clock never decides a verdict
        if time.time() - t_start > budget and it >= int(spec.get("min_count", 0)):
            ctx.obs.add("shard %s stopped by its time budget after %d circuits" % (spec["name"], it))
            break
        flavour = flavours[it % len(flavours)]
        doc = gen_circuit(rng, pq, flavour, dc=dc, max_params=int(spec.get("max_params", 10)))
        paths = [(backend, m) for m in spec["modes"]]
        if spec.get("rotate_modes"):
            paths = [paths[it % len(paths)]]
        run_circuit_case(ctx, pq, doc, paths, connectors)
    ctx.c["shard_seconds_total"] = ctx.c.get("shard_seconds_total", 0) + int(time.time() - t0)


# =========================================================================== permanent
def gen_mult(rng, n, total):
    v = np.zeros(n, dtype=np.int64)
    for _ in range(total):
        v[int(rng.integers(0, n))] += 1
    return v


def gen_perm_input(rng, n=None):
    from vf.gen import matrices as M

    n = int(rng.integers(1, 5)) if n is None else n
    kind = str(rng.choice(["gauss", "gauss", "unitary", "sparse", "real"]))
    if kind == "unitary":
        A = M.haar_unitary(rng, n)
    else:
        A = (rng.normal(size=(n, n)) + 1j * rng.normal(size=(n, n))) / np.sqrt(2.0 * n)
        if kind == "sparse":
            A = A * (rng.random(size=(n, n)) < 0.6)
        if kind == "real":
            A = A.real + 0j
    pat = int(rng.integers(0, 5))
    if pat == 0:
        rows = np.ones(n, dtype=np.int64)
        cols = np.ones(n, dtype=np.int64)
    elif pat == 1:  # repeats, no zeros
        total = int(rng.integers(n, 8))
        rows = np.ones(n, dtype=np.int64) + gen_mult(rng, n, total - n)
        cols = np.ones(n, dtype=np.int64) + gen_mult(rng, n, total - n)
    elif pat == 2:  # zeros and repeats
        total = int(rng.integers(1, 8))
        rows, cols = gen_mult(rng, n, total), gen_mult(rng, n, total)
    elif pat == 3:  # one row carries everything
        total = int(rng.integers(1, 8))
        rows = np.zeros(n, dtype=np.int64)
        rows[int(rng.integers(0, n))] = total
        cols = gen_mult(rng, n, total)
    else:  # all zero multiplicities: the permanent is the constant 1
        rows = np.zeros(n, dtype=np.int64)
        cols = np.zeros(n, dtype=np.int64)
    return A, rows, cols, kind


def mult_class(v):
    v = [int(x) for x in v]
    return "z%d-max%d-tot%d" % (sum(1 for x in v if x == 0), max(v), sum(v))


def perm_np(A, rows, cols):
    from piquasso._math.permanent import permanent

    return complex(permanent(np.ascontiguousarray(A, dtype=np.complex128), np.asarray(rows, dtype=np.int32), np.asarray(cols, dtype=np.int32)))


PERM_FUNCS = {
    "re": lambda p: p.real, "im": lambda p: p.imag, "abs2": lambda p: p.real * p.real + p.imag * p.imag,
}


_STENCIL = {}


def perm_stencil(A, rows, cols):
    """perm on the central-difference stencil around A: P[i, j, part, h, sign] (cached for the last input)."""
    key = (A.tobytes(), tuple(int(v) for v in rows), tuple(int(v) for v in cols))
    if _STENCIL.get("key") == key:
        return _STENCIL["P"]
    n = A.shape[0]
    P = np.zeros((n, n, 2, 2, 2), dtype=complex)
    for i in range(n):
        for j in range(n):
            for pi, part in enumerate((1.0, 1j)):
                for hi, h in enumerate((H1, H2)):
                    E = np.zeros((n, n), dtype=complex)
                    E[i, j] = part * h
                    P[i, j, pi, hi, 0] = perm_np(A + E, rows, cols)
                    P[i, j, pi, hi, 1] = perm_np(A - E, rows, cols)
    _STENCIL["key"], _STENCIL["P"] = key, P
    return P


def perm_fd(A, rows, cols, fname):
    """(d f / d Re A_ij, d f / d Im A_ij, F) by Richardson central differences of the NumPy permanent."""
    P = perm_stencil(A, rows, cols)
    f = PERM_FUNCS[fname]
    V = f(P)
    F = float(np.max(np.abs(V))) if V.size else 0.0
    d1 = (V[:, :, :, 0, 0] - V[:, :, :, 0, 1]) / (2 * H1)
    d2 = (V[:, :, :, 1, 0] - V[:, :, :, 1, 1]) / (2 * H2)
    R = (4 * d2 - d1) / 3
    return R[:, :, 0], R[:, :, 1], F


def perm_compare(ctx, label, g, A, rows, cols, fname, case, counter_keys, cls):
    """g: complex gradient returned by JAX for the real function `fname` of perm."""
    dre, dim, F = perm_fd(A, rows, cols, fname)
    g = np.asarray(g)
    got_re, got_im = g.real, -g.imag  # JAX: grad = df/dx - i df/dy
    n = 0
    worst = None
    for name, got, ref in (("Re", got_re, dre), ("Im", got_im, dim)):
        tol = REL * np.maximum(1.0, np.abs(ref)) + rounding_term(F)
        dev = np.abs(got - ref)
        bad = ~(dev <= tol)
        n += ref.size
        ok = ~bad
        if ok.any():
            ctx.c["max_dev_over_tol"] = max(ctx.c["max_dev_over_tol"], float(np.max(dev[ok] / tol[ok])))
            ctx.c["max_abs_dev"] = max(ctx.c["max_abs_dev"], float(np.max(dev[ok])))
            ctx.c["max_dev_over_tol__" + label] = max(ctx.c.get("max_dev_over_tol__" + label, 0.0), float(np.max(dev[ok] / tol[ok])))
        if bad.any() and worst is None:
            i, j = [int(v[0]) for v in np.nonzero(bad)]
            worst = (name, i, j, got[i, j], ref[i, j], dev[i, j], tol[i, j], int(bad.sum()))
    ctx.c["gradient_entries_compared"] += n
    for k in counter_keys:
        ctx.c[k] += n
    ctx.bump("by_backend", label, n)
    ctx.bump("by_output", "perm-" + fname, n)
    ctx.classes.add("%s|%s|%s" % (label, fname, cls))
    if worst is not None:
        name, i, j, got, ref, dev, tol, nb = worst
        zero = "zero-multiplicity" if (rows[i] == 0 or cols[j] == 0) else "positive-multiplicity"
        ctx.viol("perm-grad-mismatch:%s:%s" % (label, fname),
                 "%s of %s(perm): d/d%s(A[%d,%d]) = %.12g, finite differences of the NumPy permanent give %.12g (|dev| = %.3e > tol %.3e; %d "
                 "entries of this component differ; rows %s cols %s; entry has %s)" % (
                     label, fname, name, i, j, got, ref, dev, tol, nb, rows.tolist(), cols.tolist(), zero), case)
        return False
    return True


def jax_perm():
    jax = get_jax()
    from piquasso.jax_extensions.permanent import perm

    return jax, jax.numpy, perm


def jax_perm_func(fname):
    jax, jnp, perm = jax_perm()
    if fname == "re":
        return lambda A, r, c: jnp.real(perm(A, r, c))
    if fname == "im":
        return lambda A, r, c: jnp.imag(perm(A, r, c))
    return lambda A, r, c: jnp.abs(perm(A, r, c)) ** 2


def perm_case_doc(A, rows, cols, fname, how, extra=None):
    from vf.gen import matrices as M

    d = {"kind": "perm", "A": M.enc(A), "rows": [int(v) for v in rows], "cols": [int(v) for v in cols], "f": fname, "how": how}
    d.update(extra or {})
    return d


def perm_single(ctx, A, rows, cols, fname, how, ut="uint64"):
    """how: grad | jit-grad | holomorphic."""
    jax, jnp, perm = jax_perm()
    dt = jnp.uint32 if ut == "uint32" else jnp.uint64
    Aj = jnp.asarray(A, dtype=jnp.complex128)
    rj, cj = jnp.asarray(rows, dtype=dt), jnp.asarray(cols, dtype=dt)
    case = perm_case_doc(A, rows, cols, fname, how, {"ut": ut})
    cls = "n%d|r:%s|c:%s" % (A.shape[0], mult_class(rows), mult_class(cols))
    ctx.evals += 1
    try:
        if how == "holomorphic":
            g = np.asarray(jax.grad(perm, holomorphic=True)(Aj, rj, cj))
        else:
            gf = jax.grad(jax_perm_func(fname))
            if how == "jit-grad":
                gf = jax.jit(gf)
            g = np.asarray(gf(Aj, rj, cj))
    except Exception as e:
        ctx.c["backend_raises"] += 1
        ctx.viol("perm-grad-raises:%s:%s" % (how, type(e).__name__), "jax.grad of %s(perm) raised %s: %s" % (fname, type(e).__name__, str(e)[:300]), case)
        return
    if how == "holomorphic":
        # p'(A): equals jax.grad(Re p) in JAX's convention; compare through the 're' oracle and the
        # Cauchy-Riemann partner d Im p / d Re A = Im p'
        ok = perm_compare(ctx, "perm-holomorphic", g, A, rows, cols, "re", case, ["perm_entries"], cls)
        if ok:
            dre_im, _, F = perm_fd(A, rows, cols, "im")
            dev = np.abs(g.imag - dre_im)
            tol = REL * np.maximum(1.0, np.abs(dre_im)) + rounding_term(F)
            ctx.c["gradient_entries_compared"] += dev.size
            ctx.c["perm_entries"] += dev.size
            if not np.all(dev <= tol):
                ctx.viol("perm-grad-mismatch:perm-holomorphic:im", "holomorphic gradient: Im p' differs from d Im(perm)/d Re(A) by %.3e" % float(np.max(dev)), case)
        return
    perm_compare(ctx, "perm-" + how, g, A, rows, cols, fname, case, ["perm_entries"], cls)


def perm_vmap(ctx, rng, B, fname, share_mult):
    """jax.vmap(jax.grad(f)) over a batch of matrices (and of multiplicities unless shared)."""
    jax, jnp, perm = jax_perm()
    n = int(rng.integers(1, 5))
    items = [gen_perm_input(rng, n) for _ in range(B)]
    if share_mult:
        items = [(it[0], items[0][1], items[0][2], it[3]) for it in items]
    As = np.array([it[0] for it in items])
    rows = np.array([it[1] for it in items])
    cols = np.array([it[2] for it in items])
    gf = jax.grad(jax_perm_func(fname))
    from vf.gen import matrices as M

    case = {"kind": "perm-vmap", "A": M.enc(As.reshape(B * n, n)), "B": B, "n": n, "rows": rows.tolist(), "cols": cols.tolist(), "f": fname,
            "share": bool(share_mult)}
    ctx.evals += 1
    try:
        if share_mult:
            G = jax.vmap(gf, in_axes=(0, None, None))(jnp.asarray(As), jnp.asarray(rows[0], dtype=jnp.uint64), jnp.asarray(cols[0], dtype=jnp.uint64))
        else:
            G = jax.vmap(gf, in_axes=(0, 0, 0))(jnp.asarray(As), jnp.asarray(rows, dtype=jnp.uint64), jnp.asarray(cols, dtype=jnp.uint64))
        G = np.asarray(G)
    except Exception as e:
        ctx.c["backend_raises"] += 1
        ctx.viol("perm-grad-raises:vmap:%s" % type(e).__name__, "jax.vmap(jax.grad(%s perm)) raised %s: %s" % (fname, type(e).__name__, str(e)[:300]), case)
        return
    if G.shape != As.shape:
        ctx.viol("perm-grad-shape:vmap", "vmapped gradient has shape %s for input %s" % (G.shape, As.shape), case)
        return
    for b in range(B):
        cls = "B%d|n%d|r:%s|c:%s|%s" % (B, n, mult_class(rows[b]), mult_class(cols[b]), "shared" if share_mult else "per-item")
        perm_compare(ctx, "perm-vmap", G[b], As[b], rows[b], cols[b], fname, dict(case, item=b), ["perm_entries", "perm_vmap_entries"], cls)


def perm_batched_backward(ctx, rng, B):
    """Direct call of the registered `perm_bwd` FFI target with a leading batch dimension: the
    OpenMP parallel-for of PermBwdImpl. Expected: ct_x[b] = ct[b] * p'(A[b]) (JAX VJP convention
    for a holomorphic function: no conjugation), p' taken from finite differences."""
    jax, jnp, perm = jax_perm()
    from vf.gen import matrices as M

    n = int(rng.integers(1, 5))
    items = [gen_perm_input(rng, n) for _ in range(B)]
    As = np.array([it[0] for it in items])
    rows = np.array([it[1] for it in items])
    cols = np.array([it[2] for it in items])
    ct = rng.normal(size=B) + 1j * rng.normal(size=B)
    res = np.array([perm_np(As[b], rows[b], cols[b]) for b in range(B)])
    case = {"kind": "perm-bwd-batch", "A": M.enc(As.reshape(B * n, n)), "B": B, "n": n, "rows": rows.tolist(), "cols": cols.tolist(),
            "ct": M.enc(ct)}
    ctx.evals += 1
    try:
        call = jax.ffi.ffi_call("perm_bwd", jax.ShapeDtypeStruct(As.shape, jnp.complex128), vmap_method="sequential")
        out = np.asarray(call(jnp.asarray(res), jnp.asarray(As), jnp.asarray(rows, dtype=jnp.uint64), jnp.asarray(cols, dtype=jnp.uint64),
                              jnp.asarray(ct)))
    except Exception as e:
        ctx.c["backend_raises"] += 1
        ctx.viol("perm-grad-raises:bwd-batch:%s" % type(e).__name__, "batched perm_bwd call raised %s: %s" % (type(e).__name__, str(e)[:300]), case)
        return
    ctx.c["perm_batched_backward_calls"] += 1
    for b in range(B):
        dre_re, _, F1 = perm_fd(As[b], rows[b], cols[b], "re")
        dre_im, _, F2 = perm_fd(As[b], rows[b], cols[b], "im")
        pprime = dre_re + 1j * dre_im  # p' = d p / d Re A for holomorphic p
        ref = ct[b] * pprime
        tol = (REL * np.maximum(1.0, np.abs(ref)) + rounding_term(max(F1, F2))) * max(1.0, abs(ct[b])) * 2
        dev = np.abs(out[b] - ref)
        ctx.c["gradient_entries_compared"] += 2 * dev.size
        ctx.c["perm_entries"] += 2 * dev.size
        ctx.bump("by_backend", "perm-bwd-batch", 2 * dev.size)
        ctx.classes.add("perm-bwd-batch|B%d|n%d|r:%s|c:%s" % (B, n, mult_class(rows[b]), mult_class(cols[b])))
        ok = dev <= tol
        if ok.any():
            ctx.c["max_dev_over_tol"] = max(ctx.c["max_dev_over_tol"], float(np.max(dev[ok] / tol[ok])))
        if not ok.all():
            i, j = [int(v[0]) for v in np.nonzero(~ok)]
            ctx.viol("perm-grad-mismatch:perm-bwd-batch", "batched perm_bwd (B=%d): item %d entry (%d,%d) = %r, expected ct*p' = %r (|dev| %.3e > %.3e)" % (
                B, b, i, j, complex(out[b][i, j]), complex(ref[i, j]), dev[i, j], tol[i, j]), dict(case, item=b))
            break


def gen_passive_doc(rng):
    d = int(rng.integers(2, 4))
    occ = [0] * d
    for _ in range(int(rng.integers(1, 4))):
        occ[int(rng.integers(0, d))] += 1
    x = []
    gates = []
    for _ in range(int(rng.integers(1, 4))):
        t = str(rng.choice(["Beamsplitter", "Beamsplitter", "Phaseshifter", "Interferometer"]))
        g = gen_gate(rng, x, t, d)
        gates.append(g)
    if not x or len(x) > 10:
        return None
    total = sum(occ)
    outs = []
    for _ in range(3):
        o = gen_mult(rng, d, total).tolist()
        if o not in outs:
            outs.append(o)
    return {"d": d, "occ": occ, "gates": gates, "x0": x, "outs": outs, "cutoff": total + 1}


def passive_case(ctx, pq, doc):
    """PassiveSimulator + JaxConnector: detection probabilities differentiate through perm's VJP."""
    jax = get_jax()
    jnp = jax.numpy
    d, occ, gates, x, outs = doc["d"], doc["occ"], doc["gates"], doc["x0"], doc["outs"]

    def run(lib, conn, xs):
        ins = [pq.StateVector(tuple(occ))] + [build_gate(pq, lib, xs, g) for g in gates]
        sim = pq.PassiveSimulator(d=d, config=pq.Config(cutoff=doc["cutoff"]), connector=conn)
        st = sim.execute(pq.Program(instructions=ins)).state
        return [st.get_particle_detection_probability(tuple(o)) for o in outs]

    libn, connn = Lib(), pq.NumpyConnector()

    def f_np(xv):
        return np.array([float(np.real(v)) for v in run(libn, connn, [float(v) for v in xv])])

    x0 = np.asarray(x, dtype=float)
    J_fd, F = fd_jacobian(f_np, x0)
    libj = JaxLib(jax)

    def f_jax(xv):
        return jnp.stack([jnp.real(v) for v in run(libj, pq.JaxConnector(), [xv[i] for i in range(len(x))])])

    ctx.evals += 1
    case = {"kind": "passive", "doc": doc}
    try:
        J = np.asarray(jax.jacrev(f_jax)(jnp.asarray(x0)))
    except Exception as e:
        ctx.c["backend_raises"] += 1
        ctx.viol("grad-raises:jax-passive:%s" % type(e).__name__, "jax.jacrev of PassiveSimulator detection probabilities raised %s: %s" % (
            type(e).__name__, str(e)[:300]), case)
        return
    plabels = param_labels({"prep": {"kind": "number"}, "gates": gates, "x0": x})
    compare_jacobian(ctx, "jax-passive-jacrev", J, J_fd, F, f_np, x0, plabels, ["detection_probability"] * len(outs), case, ["perm_entries"])
    ctx.classes.add("jax-passive|d%d|n%d|%s" % (d, sum(occ), ",".join(sorted(g["t"] for g in gates))))


def shard_perm(ctx, spec, pq, rng):
    convention_selfcheck_jax(ctx)
    t0 = time.time()
    budget = float(spec["budget"])
    fnames = ["re", "im", "abs2"]
    for it in range(int(spec["count"])):
        if time.time() - t0 > budget and it >= int(spec.get("min_count", 0)):
            ctx.obs.add("shard %s stopped by its time budget after %d inputs" % (spec["name"], it))
            break
        A, rows, cols, kind = gen_perm_input(rng)
        for fname in fnames:
            perm_single(ctx, A, rows, cols, fname, "grad", ut="uint32" if it % 3 == 0 else "uint64")
        if it % 4 == 0:
            perm_single(ctx, A, rows, cols, "re", "holomorphic")
        if it % 6 == 0:
            perm_single(ctx, A, rows, cols, fnames[(it // 6) % 3], "jit-grad")
        if len(ctx.samples) < 2:
            ctx.samples.append({"perm": {"n": int(A.shape[0]), "rows": rows.tolist(), "cols": cols.tolist(), "kind": kind}})
    for rep in range(int(spec.get("batch_reps", 1))):
        for B in (1, 2, 5, 16):
            if time.time() - t0 > 2 * budget and rep >= 1:
                ctx.obs.add("batched permanent workload stopped by the time budget")
                break
            perm_vmap(ctx, rng, B, fnames[(rep + B) % 3], share_mult=(rep + B) % 2 == 0)
            perm_batched_backward(ctx, rng, B)
    for it in range(int(spec.get("passive", 0))):
        if time.time() - t0 > 3 * budget and it >= 3:
            break
        pdoc = gen_passive_doc(rng)
        if pdoc is not None:
            passive_case(ctx, pq, pdoc)


# =========================================================================== plan / run
TF_ENV = {"OPENBLAS_NUM_THREADS": "1", "OMP_NUM_THREADS": "1", "TF_NUM_INTRAOP_THREADS": "2", "TF_NUM_INTEROP_THREADS": "1",
          "NUMBA_NUM_THREADS": "1"}
JAX_ENV = {"OPENBLAS_NUM_THREADS": "1", "OMP_NUM_THREADS": "1", "NUMBA_NUM_THREADS": "1",
           "XLA_FLAGS": "--xla_cpu_multi_thread_eigen=false intra_op_parallelism_threads=2"}
# VERIF_HWC=1: the permanent kernel starts 4*hardware_concurrency threads per call; the oracle needs ~100 calls per input and the
# partition of that kernel is the subject of C04/C11. The batched backward loop is sized by OMP_NUM_THREADS (4 threads here).
PERM_ENV = {"OPENBLAS_NUM_THREADS": "1", "OMP_NUM_THREADS": "4", "NUMBA_NUM_THREADS": "1", "VERIF_HWC": "1"}


def plan(tier, seed):
    q = tier == "quick"
    b = 1.0 if q else 5.0
    specs = []

    def add(name, **kw):
        kw.update({"name": name, "shard": len(specs)})
        specs.append(kw)

    # TensorFlow, eager custom-gradient path
    add("tf-eager-0", kind="circuits", backend="tf", modes=["eager-gradient", "eager-jacobian"], flavours=["plain", "interferometer", "plain", "batch"],
        count=int(40 * b), min_count=10, budget=75 * b, env=TF_ENV, weight=3)
    add("tf-eager-1", kind="circuits", backend="tf", modes=["eager-gradient", "eager-jacobian"], flavours=["batch", "gaussian", "plain", "gaussian-real", "interferometer"],
        count=int(40 * b), min_count=10, budget=75 * b, env=TF_ENV, weight=3)
    # TensorFlow, graph path (each new (d, cutoff, modes) retraces: few shapes per shard)
    add("tf-function-0", kind="circuits", backend="tf", modes=["function-gradient", "function-jacobian"], rotate_modes=True,
        flavours=["plain", "interferometer", "batch"], dc=[[1, 6], [2, 5]], count=int(14 * b), min_count=5, budget=80 * b, env=TF_ENV, weight=3, max_params=7)
    add("tf-function-1", kind="circuits", backend="tf", modes=["function-gradient", "outer-function", "function-jacobian"], rotate_modes=True,
        flavours=["plain", "batch", "interferometer"], dc=[[2, 4], [3, 4]], count=int(14 * b), min_count=5, budget=80 * b, env=TF_ENV, weight=3, max_params=7)
    # JAX (eager JAX compiles one kernel per primitive and shape: two (d, cutoff) pairs per shard)
    add("jax-grad-0", kind="circuits", backend="jax", modes=["grad"], flavours=["plain", "interferometer", "plain", "gaussian-real"],
        dc=[[1, 6], [2, 5]], count=int(30 * b), min_count=4, budget=80 * b, env=JAX_ENV)
    add("jax-grad-1", kind="circuits", backend="jax", modes=["grad"], flavours=["interferometer", "plain", "batch", "plain"],
        dc=[[2, 4], [3, 4]], count=int(30 * b), min_count=4, budget=80 * b, env=JAX_ENV)
    add("jax-jacobian", kind="circuits", backend="jax", modes=["jacrev", "jacfwd"], flavours=["plain", "interferometer", "batch", "plain"],
        dc=[[2, 6], [1, 7]], count=int(30 * b), min_count=4, budget=80 * b, env=JAX_ENV)
    add("jax-jit", kind="circuits", backend="jax", modes=["jit-grad"], flavours=["plain", "interferometer", "plain", "batch"],
        dc=[[2, 5], [3, 5], [1, 7]], count=int(14 * b), min_count=4, budget=85 * b, env=JAX_ENV, max_params=7)
    # permanent
    add("perm-0", kind="perm", count=int(60 * b), min_count=15, budget=45 * b, batch_reps=int(2 * b), passive=int(6 * b), env=PERM_ENV)
    add("perm-1", kind="perm", count=int(60 * b), min_count=15, budget=45 * b, batch_reps=int(2 * b), passive=int(6 * b), env=PERM_ENV)
    if not q:
        add("tf-eager-2", kind="circuits", backend="tf", modes=["eager-gradient", "eager-jacobian"], flavours=["interferometer", "gaussian-real", "batch", "plain", "gaussian"],
            count=int(40 * b), budget=75 * b, env=TF_ENV, weight=3)
        add("jax-jacobian-1", kind="circuits", backend="jax", modes=["jacrev", "jacfwd"], flavours=["batch", "plain", "interferometer"],
            dc=[[3, 6], [2, 7]], count=int(30 * b), budget=80 * b, env=JAX_ENV)
    return specs


def run_shard(spec):
    from vf import boot

    pq = boot.import_piquasso()
    rng = np.random.default_rng([int(spec["seed"]), 10, int(spec["shard"])])
    ctx = Ctx()
    if spec["kind"] == "circuits":
        shard_circuits(ctx, spec, pq, rng)
    else:
        shard_perm(ctx, spec, pq, rng)
    return {"evaluations": ctx.evals, "classes": sorted(ctx.classes), "violations": ctx.violations,
            "counters": ctx.c, "samples": ctx.samples, "observations": sorted(ctx.obs)[:20]}


def replay(case):
    from vf import boot
    from vf.gen import matrices as M

    pq = boot.import_piquasso()
    ctx = Ctx()
    k = case.get("kind")
    if k == "circuit":
        connectors = None
        if case["backend"] == "tf":
            tf = get_tf()
            connectors = {"eager": pq.TensorflowConnector(), "function": pq.TensorflowConnector(decorate_with=tf.function)}
        run_circuit_case(ctx, pq, case["doc"], [(case["backend"], case["mode"])], connectors)
    elif k == "perm":
        perm_single(ctx, M.dec(case["A"]), np.array(case["rows"]), np.array(case["cols"]), case["f"], case["how"], case.get("ut", "uint64"))
    elif k == "perm-vmap":
        jax, jnp, perm = jax_perm()
        B, n = case["B"], case["n"]
        As = M.dec(case["A"]).reshape(B, n, n)
        rows, cols = np.array(case["rows"]), np.array(case["cols"])
        gf = jax.grad(jax_perm_func(case["f"]))
        if case.get("share"):
            G = jax.vmap(gf, in_axes=(0, None, None))(jnp.asarray(As), jnp.asarray(rows[0], dtype=jnp.uint64), jnp.asarray(cols[0], dtype=jnp.uint64))
        else:
            G = jax.vmap(gf, in_axes=(0, 0, 0))(jnp.asarray(As), jnp.asarray(rows, dtype=jnp.uint64), jnp.asarray(cols, dtype=jnp.uint64))
        for b in range(B):
            perm_compare(ctx, "perm-vmap", np.asarray(G)[b], As[b], rows[b], cols[b], case["f"], dict(case, item=b), ["perm_entries"], "replay")
    elif k == "perm-bwd-batch":
        jax, jnp, perm = jax_perm()
        B, n = case["B"], case["n"]
        As = M.dec(case["A"]).reshape(B, n, n)
        rows, cols, ct = np.array(case["rows"]), np.array(case["cols"]), M.dec(case["ct"])
        res = np.array([perm_np(As[b], rows[b], cols[b]) for b in range(B)])
        call = jax.ffi.ffi_call("perm_bwd", jax.ShapeDtypeStruct(As.shape, jnp.complex128), vmap_method="sequential")
        out = np.asarray(call(jnp.asarray(res), jnp.asarray(As), jnp.asarray(rows, dtype=jnp.uint64), jnp.asarray(cols, dtype=jnp.uint64), jnp.asarray(ct)))
        for b in range(B):
            dre_re, _, F1 = perm_fd(As[b], rows[b], cols[b], "re")
            dre_im, _, F2 = perm_fd(As[b], rows[b], cols[b], "im")
            ref = ct[b] * (dre_re + 1j * dre_im)
            tol = (REL * np.maximum(1.0, np.abs(ref)) + rounding_term(max(F1, F2))) * max(1.0, abs(ct[b])) * 2
            if not np.all(np.abs(out[b] - ref) <= tol):
                ctx.viol("perm-grad-mismatch:perm-bwd-batch", "batched perm_bwd item %d differs by %.3e" % (b, float(np.max(np.abs(out[b] - ref)))), case)
    elif k == "passive":
        passive_case(ctx, pq, case["doc"])
    return ctx.violations
