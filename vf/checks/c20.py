"""C20 - condition / parameter expressions are safe and mean what Python means.

Monitor: sys.monitoring CALL tracer on piquasso/core/_expressions.py + sys.addaudithook
around every Expression(src) and expr(outcomes).
Oracle : Python's eval with empty builtins; an independent AST whitelist transcribed from
the property statement decides must-accept / open / must-reject.
"""

import ast
import math
import time

import numpy as np

ID = "C20"
LEVEL = "exploration"
TECHNIQUE = "runtime monitoring: call tracer + audit hook around Expression; differential oracle against Python eval and an independent AST whitelist"
DESIGN_REF = "DESIGN.md §4 C20"
LEVEL_TEXT = (
    "Every generated string (grammar to depth 4, single-token mutants, hostile corpus) is constructed and "
    "evaluated on the real Expression class while a CALL tracer and an audit hook watch; acceptance is compared "
    "with an independent whitelist and values with Python's eval. Held = no disagreement on the strings generated."
)
LEVEL_NOTE = (
    "Trusts CPython's ast/eval as the meaning of 'what Python means'; strings outside the generators are not covered; "
    "constructs the statement leaves open (tuple/list displays, //, bit operators, in/is, complex literals) may be "
    "accepted or rejected but must evaluate as Python when accepted."
)
RULE = (
    "cases = strings from the documented grammar (depth 0-4, outcome tuples of length 0-4 over {0..3} and floats), "
    "every single-token mutation of seed strings, a hostile corpus and long/deep inputs; each accepted string is "
    "evaluated on several outcome tuples. distinct_nontrivial = number of distinct AST shape signatures "
    "(sorted multiset of node types) among strings on which the deciding comparison (acceptance + value) ran."
)
ASSUMPTIONS = [
    "Python's own eval(src, {'__builtins__': {}}, {'x': outcomes}) defines the expected value",
    "exception class differences when both sides raise are recorded as observations, not violations",
]
REQUIRED = ["accept_compared", "reject_compared", "value_comparisons", "tracer_call_events", "api_comparisons"]
WATCHDOG = {"quick": 600, "thorough": 3000}

CORE_BINOPS = (ast.Add, ast.Sub, ast.Mult, ast.Div, ast.Mod, ast.Pow, ast.BitXor)
CORE_UNARY = (ast.UAdd, ast.USub, ast.Not)
CORE_CMP = (ast.Eq, ast.NotEq, ast.Lt, ast.LtE, ast.Gt, ast.GtE)
CORE_BOOL = (ast.And, ast.Or)
OPEN_OPS = (ast.FloorDiv, ast.BitAnd, ast.BitOr, ast.LShift, ast.RShift, ast.Invert, ast.MatMult,
            ast.Is, ast.IsNot, ast.In, ast.NotIn)


def classify(src):
    """'accept' | 'open' | 'reject' by the property statement (independent of piquasso)."""
    s = src.strip()
    try:
        tree = ast.parse(s, mode="eval")
    except (SyntaxError, ValueError, RecursionError, MemoryError):
        return "reject"
    verdict = "accept"
    for n in ast.walk(tree):
        if isinstance(n, (ast.Expression, ast.Load, ast.BoolOp, ast.UnaryOp, ast.BinOp, ast.Compare,
                          ast.Subscript, ast.Slice)):
            continue
        if isinstance(n, CORE_BINOPS + CORE_UNARY + CORE_CMP + CORE_BOOL):
            continue
        if isinstance(n, OPEN_OPS):
            verdict = "open"
            continue
        if isinstance(n, ast.Name):
            if n.id == "x" and isinstance(n.ctx, ast.Load):
                continue
            return "reject"
        if isinstance(n, ast.Constant):
            v = n.value
            if isinstance(v, (bool, int, float)):
                continue
            if isinstance(v, complex):
                verdict = "open"
                continue
            return "reject"
        if isinstance(n, (ast.Tuple, ast.List)) and isinstance(n.ctx, ast.Load):
            verdict = "open"
            continue
        return "reject"
    return verdict


def shape(src):
    try:
        tree = ast.parse(src.strip(), mode="eval")
    except Exception:
        return "unparsable"
    names = sorted(type(n).__name__ for n in ast.walk(tree) if not isinstance(n, (ast.Load, ast.Expression)))
    return ",".join(names)


def py_eval(src, x):
    try:
        code = compile(src.strip(), "<expr>", "eval")
        return ("v", eval(code, {"__builtins__": {}}, {"x": x}))
    except BaseException as e:  # noqa
        if isinstance(e, (KeyboardInterrupt, SystemExit)):
            raise
        return ("e", type(e).__name__)


def same_value(a, b):
    if type(a) is not type(b):
        return False
    if isinstance(a, float):
        if math.isnan(a) and math.isnan(b):
            return True
        return a == b and math.copysign(1, a) == math.copysign(1, b)
    if isinstance(a, complex):
        return same_value(a.real, b.real) and same_value(a.imag, b.imag)
    if isinstance(a, (tuple, list)):
        return len(a) == len(b) and all(same_value(p, q) for p, q in zip(a, b))
    return a == b


FORBIDDEN_CALLEES = (
    "builtins.eval", "builtins.exec", "builtins.compile", "builtins.__import__", "builtins.open",
    "builtins.globals", "builtins.locals", "builtins.vars", "builtins.setattr", "builtins.delattr",
    "builtins.input", "builtins.breakpoint", "importlib.", "os.", "posix.", "subprocess.", "nt.",
    "socket.", "shutil.", "ctypes.", "pickle.", "marshal.", "code.", "runpy.", "ast.literal_eval",
)
FORBIDDEN_AUDIT = ("exec", "import", "open", "os.system", "os.exec", "os.spawn", "os.posix_spawn",
                   "subprocess.Popen", "socket.connect", "ctypes.dlopen", "os.remove", "os.rename")
EVAL_MARKERS = ("_operator.", "Expression._eval", "builtins.slice")


class Ctx:
    def __init__(self):
        self.violations = []
        self.obs = set()
        self.c = {k: 0 for k in (
            "accept_compared", "reject_compared", "open_accepted", "open_rejected", "value_comparisons",
            "both_raise", "exception_class_differs", "tracer_call_events", "audit_events", "api_comparisons",
            "hostile_strings", "mutants", "grammar_strings", "leaked_non_piquasso_rejection", "repeat_constructions")}
        self.callees = {}
        self.classes = set()
        self.samples = []
        self.evals = 0

    def viol(self, mech, msg, case):
        if len(self.violations) < 200:
            self.violations.append({"mechanism": mech, "message": msg, "case": case})


def _outcomes_for(rng, n, k):
    outs = []
    for _ in range(k):
        r = rng.random()
        if r < 0.7:
            outs.append(tuple(int(v) for v in rng.integers(0, 4, size=n)))
        elif r < 0.85:
            outs.append(tuple(float(v) for v in np.round(rng.normal(size=n), 3)))
        else:
            outs.append(tuple((int(v) if rng.random() < 0.5 else float(v) + 0.5) for v in rng.integers(0, 4, size=n)))
    return outs


def check_string(ctx, pq_expr_mod, InvalidExpression, src, outcomes_list, origin):
    from vf.monitors.calltrace import CallWindow

    ctx.evals += 1
    expected = classify(src)
    case = {"src": src, "origin": origin, "outcomes": [list(o) for o in outcomes_list]}

    # --- construction under the monitors
    expr = None
    err = None
    with CallWindow("core/_expressions.py") as w:
        try:
            expr = pq_expr_mod.Expression(src)
        except InvalidExpression as e:
            err = e
        except BaseException as e:  # noqa
            if isinstance(e, (KeyboardInterrupt, SystemExit)):
                raise
            err = e
    ctx.c["tracer_call_events"] += w.events
    ctx.c["audit_events"] += len(w.audit)
    for k, v in w.calls.items():
        ctx.callees[k] = ctx.callees.get(k, 0) + v
    _judge_window(ctx, w, case, "construction", evaluated_ok=False)

    accepted = expr is not None
    if err is not None and not isinstance(err, InvalidExpression):
        ctx.c["leaked_non_piquasso_rejection"] += 1
        ctx.obs.add("construction of %r raised %s instead of InvalidExpression" % (src[:40], type(err).__name__))

    if expected == "reject":
        ctx.c["reject_compared"] += 1
        if accepted:
            ctx.viol("accepts-construct-outside-grammar",
                     "Expression(%r) was accepted but contains a construct outside the grammar" % src[:200], case)
            return
        ctx.classes.add("reject:" + shape(src)[:120])
        # rejection must not depend on history: the same string (and a whitespace variant of it)
        # constructed again in the same process must be rejected again
        for variant in (src, " " + src + " "):
            ctx.c["repeat_constructions"] += 1
            try:
                again = pq_expr_mod.Expression(variant)
            except BaseException as e:  # noqa
                if isinstance(e, (KeyboardInterrupt, SystemExit)):
                    raise
                again = None
            if again is not None:
                ctx.viol("accepts-construct-outside-grammar-on-repeat",
                         "Expression(%r) was rejected the first time and accepted when constructed again" % variant[:200], case)
                break
        return
    if expected == "accept":
        ctx.c["accept_compared"] += 1
        if not accepted:
            ctx.viol("rejects-documented-grammar",
                     "Expression(%r) inside the documented grammar was rejected: %r" % (src[:200], err), case)
            return
    else:
        if not accepted:
            ctx.c["open_rejected"] += 1
            return
        ctx.c["open_accepted"] += 1

    # --- evaluation under the monitors
    sig = shape(src)
    ctx.classes.add(sig[:160])
    for x in outcomes_list:
        py = py_eval(src, x)
        with CallWindow("core/_expressions.py") as w:
            try:
                got = ("v", expr(x))
            except BaseException as e:  # noqa
                if isinstance(e, (KeyboardInterrupt, SystemExit)):
                    raise
                got = ("e", type(e).__name__)
        ctx.c["tracer_call_events"] += w.events
        ctx.c["audit_events"] += len(w.audit)
        for k, v in w.calls.items():
            ctx.callees[k] = ctx.callees.get(k, 0) + v
        _judge_window(ctx, w, dict(case, x=list(x)), "evaluation", evaluated_ok=True)
        ctx.c["value_comparisons"] += 1
        if py[0] == "v" and got[0] == "v":
            if not same_value(py[1], got[1]):
                ctx.viol("value-differs-from-python",
                         "%r on x=%r: Expression gives %r (%s), Python gives %r (%s)" % (
                             src[:200], x, got[1], type(got[1]).__name__, py[1], type(py[1]).__name__),
                         dict(case, x=list(x)))
        elif py[0] == "v" and got[0] == "e":
            if got[1] == "RecursionError":
                ctx.obs.add("RecursionError evaluating a deep but valid expression (python evaluates it)")
                ctx.viol("raises-where-python-returns",
                         "%r on x=%r: Expression raises %s, Python gives %r" % (src[:200], x, got[1], py[1]),
                         dict(case, x=list(x)))
            else:
                ctx.viol("raises-where-python-returns",
                         "%r on x=%r: Expression raises %s, Python gives %r" % (src[:200], x, got[1], py[1]),
                         dict(case, x=list(x)))
        elif py[0] == "e" and got[0] == "v":
            ctx.viol("returns-where-python-raises",
                     "%r on x=%r: Expression gives %r, Python raises %s" % (src[:200], x, got[1], py[1]),
                     dict(case, x=list(x)))
        else:
            ctx.c["both_raise"] += 1
            if py[1] != got[1]:
                ctx.c["exception_class_differs"] += 1
                ctx.obs.add("both raise, classes differ: python %s / Expression %s" % (py[1], got[1]))
    # a second construction of the same string must mean the same thing (no stale memoisation)
    if outcomes_list:
        x = outcomes_list[-1]
        ctx.c["repeat_constructions"] += 1
        try:
            e2 = pq_expr_mod.Expression(src)
            got2 = ("v", e2(x))
        except BaseException as e:  # noqa
            if isinstance(e, (KeyboardInterrupt, SystemExit)):
                raise
            got2 = ("e", type(e).__name__)
        try:
            got1 = ("v", expr(x))
        except BaseException as e:  # noqa
            if isinstance(e, (KeyboardInterrupt, SystemExit)):
                raise
            got1 = ("e", type(e).__name__)
        if got1[0] != got2[0] or (got1[0] == "v" and not same_value(got1[1], got2[1])) or (got1[0] == "e" and got1[1] != got2[1]):
            ctx.viol("repeated-construction-evaluates-differently",
                     "%r on x=%r: first Expression gives %r, a second Expression of the same string %r" % (src[:200], x, got1, got2),
                     dict(case, x=list(x)))
    if len(ctx.samples) < 6 and origin in ("grammar", "mutant"):
        ctx.samples.append({"src": src, "class": expected, "x": list(outcomes_list[0]) if outcomes_list else [],
                            "python": repr(py_eval(src, outcomes_list[0]))[:80] if outcomes_list else None})


def _judge_window(ctx, w, case, phase, evaluated_ok):
    for name in w.calls:
        if name.startswith(FORBIDDEN_CALLEES):
            ctx.viol("forbidden-callee", "%s of %r invoked %s" % (phase, case["src"][:120], name), case)
        if not evaluated_ok and name.startswith(EVAL_MARKERS):
            ctx.viol("evaluated-during-construction",
                     "construction of %r invoked %s (expression evaluated before/without validation)" % (case["src"][:120], name),
                     case)
    ncompile = 0
    for ev, args in w.audit:
        if ev == "compile":
            ncompile += 1
        if ev.startswith(FORBIDDEN_AUDIT):
            ctx.viol("forbidden-audit-event", "%s of %r raised audit event %s%r" % (phase, case["src"][:120], ev, args), case)
    if ncompile > (1 if phase == "construction" else 0):
        ctx.viol("forbidden-audit-event", "%s of %r compiled source %d time(s)" % (phase, case["src"][:120], ncompile), case)


def check_api(ctx, pq, src, outcomes_list):
    """The same strings through Instruction.when(...) and string parameters."""
    from piquasso.api.exceptions import PiquassoException

    if classify(src) != "accept":
        return
    try:
        cond_ins = pq.Phaseshifter(phi=0.1).when(src)
        par_ins = pq.Phaseshifter(phi=src)
    except PiquassoException as e:
        ctx.viol("rejects-documented-grammar", "Instruction rejected %r: %r" % (src[:200], e), {"src": src, "api": True})
        return
    for x in outcomes_list:
        py = py_eval(src, x)
        ctx.c["api_comparisons"] += 1
        case = {"src": src, "x": list(x), "api": True}
        try:
            got = ("v", cond_ins._is_condition_met(x))
        except PiquassoException:
            got = ("e", "PiquassoException")
        except Exception as e:
            got = ("e!", type(e).__name__)
        _cmp_api(ctx, "condition", src, x, py, got, case)
        try:
            par_ins._resolve_params(outcomes=x)
            got = ("v", par_ins.params["phi"])
        except PiquassoException:
            got = ("e", "PiquassoException")
        except Exception as e:
            got = ("e!", type(e).__name__)
        finally:
            par_ins._unresolve_params()
        _cmp_api(ctx, "parameter", src, x, py, got, case)


def _cmp_api(ctx, what, src, x, py, got, case):
    if got[0] == "e!":
        ctx.viol("api-leaks-foreign-exception", "%s %r on x=%r raised %s (not a Piquasso exception)" % (what, src[:200], x, got[1]), case)
    elif py[0] == "v" and got[0] == "v":
        if not same_value(py[1], got[1]):
            ctx.viol("value-differs-from-python", "%s %r on x=%r: piquasso %r, Python %r" % (what, src[:200], x, got[1], py[1]), case)
    elif py[0] != got[0]:
        ctx.viol("returns-where-python-raises" if py[0] == "e" else "raises-where-python-returns",
                 "%s %r on x=%r: piquasso %r, Python %r" % (what, src[:200], x, got, py), case)


def plan(tier, seed):
    n = 8 if tier == "quick" else 16
    per = 500 if tier == "quick" else 6000
    specs = [{"name": "grammar-%d" % i, "kind": "grammar", "shard": i, "count": per} for i in range(n)]
    specs.append({"name": "hostile", "kind": "hostile", "shard": 99, "count": 0})
    return specs


def run_shard(spec):
    from vf import boot

    pq = boot.import_piquasso()
    from piquasso.core import _expressions as em
    from piquasso.api.exceptions import InvalidExpression
    from vf.gen import expressions as G

    rng = np.random.default_rng([int(spec["seed"]), 20, int(spec["shard"])])
    ctx = Ctx()
    t0 = time.time()
    budget = 240 if spec["tier"] == "quick" else 1500

    if spec["kind"] == "hostile":
        for src in G.HOSTILE + G.long_inputs():
            ctx.c["hostile_strings"] += 1
            outs = [(), (0,), (1, 2), (3, 0, 1), (0, 1, 2, 3), (2.5, 1.0)]
            check_string(ctx, em, InvalidExpression, src, outs, "hostile")
            if len(src) < 200:
                check_api(ctx, pq, src, outs[:3])
        # all outcome tuples of length <= 4 over {0,1,2,3} on a fixed set of core expressions
        import itertools

        core = ["x[0] == 1", "x[-1] > x[0]", "x[0] + x[-1] * 2 ** x[0]", "x[0] != 0 and 1 / x[0] >= 0.5",
                "not x[0] or x[-1] % 2 == 1", "0 < x[0] <= x[-1] < 3", "x[:2] == x[-2:]", "x[::-1][0] ^ x[0]"]
        for L in range(1, 5):
            for x in itertools.product(range(4), repeat=L):
                for src in core[: (8 if L < 4 else 3)]:
                    check_string(ctx, em, InvalidExpression, src, [x], "exhaustive-outcomes")
    else:
        seeds = []
        for i in range(int(spec["count"])):
            if time.time() - t0 > budget:
                ctx.obs.add("shard stopped by time budget after %d strings" % i)
                break
            n = int(rng.integers(0, 5))
            depth = int(rng.integers(0, 5))
            src = G.gen_expr(rng, depth, n)
            if len(src) > 600:
                continue
            ctx.c["grammar_strings"] += 1
            outs = _outcomes_for(rng, n, 4)
            check_string(ctx, em, InvalidExpression, src, outs, "grammar")
            if i % 5 == 0:
                check_api(ctx, pq, src, outs[:2])
            if len(seeds) < 200 and len(src) < 120:
                seeds.append((src, n))
            # mutants of this string
            for _ in range(3):
                m = G.mutate(rng, src)
                ctx.c["mutants"] += 1
                check_string(ctx, em, InvalidExpression, m, outs[:2], "mutant")
        # every single-token replacement of a few seeds
        for src, n in seeds[: (6 if spec["tier"] == "quick" else 25)]:
            toks = G.tokens_of(src)
            outs = _outcomes_for(rng, n, 2)
            for i in range(len(toks)):
                for t in G.MUTATION_TOKENS:
                    if time.time() - t0 > budget * 1.5:
                        break
                    m = " ".join(toks[:i] + [t] + toks[i + 1:])
                    ctx.c["mutants"] += 1
                    check_string(ctx, em, InvalidExpression, m, outs, "mutant-exhaustive")

    counters = dict(ctx.c)
    counters["callees_seen"] = dict(sorted(ctx.callees.items(), key=lambda kv: -kv[1])[:40])
    return {
        "evaluations": ctx.evals,
        "classes": sorted(ctx.classes),
        "violations": ctx.violations,
        "counters": counters,
        "samples": ctx.samples,
        "observations": sorted(ctx.obs)[:30],
    }


def replay(case):
    from vf import boot

    pq = boot.import_piquasso()
    from piquasso.core import _expressions as em
    from piquasso.api.exceptions import InvalidExpression

    ctx = Ctx()
    outs = [tuple(o) for o in case.get("outcomes", [])] or ([tuple(case["x"])] if "x" in case else [()])
    if "x" in case:
        outs = [tuple(case["x"])]
    if case.get("api"):
        check_api(ctx, pq, case["src"], outs)
    else:
        check_string(ctx, em, InvalidExpression, case["src"], outs, case.get("origin", "replay"))
    return ctx.violations
