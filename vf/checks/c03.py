"""C03 - shot accounting and the chain rule of measurement.

Monitor: branch-tree checker on the step-hook event log (exact Fraction arithmetic):
  * per measurement step: child frequencies are k/budget with positive integer k, sum to 1;
    budget = int(parent frequency * shots)
  * per conditioned instruction: the step ran exactly on the branches whose outcome satisfies the
    condition as re-evaluated by the harness (Python eval / the named callable)
  * per outcome-dependent parameter: the value the step saw equals the harness' evaluation on
    that branch's own outcome
  * result level: len(samples) == shots, counts sum to shots, frequencies sum to 1
  * shots=None: weights sum to the norm^2 of the measured state, sequential == joint,
    branch state == normalised projection of the hook's pre-measurement snapshot
"""

import itertools
import time
from fractions import Fraction

import numpy as np

ID = "C03"
LEVEL = "exploration"
TECHNIQUE = "runtime monitoring: offline checker over the step-hook branch-tree log (conservation in exact fractions, condition/parameter re-evaluation per branch) plus joint-vs-sequential and projection oracles for shots=None"
DESIGN_REF = "DESIGN.md §4 C03"
LEVEL_TEXT = (
    "Adaptive programs (1-3 partial measurements on random ordered subsets, conditioned instructions, outcome-dependent "
    "parameters) run on every simulator that supports the construct with shots in {1,2,3,7,100,1000} and shots=None while "
    "the hook logs every branch before and after every step; conservation is checked in exact rational arithmetic, "
    "conditions and parameters are re-evaluated by the harness, every ordered split of a mode set into successive "
    "measurements is compared with the joint measurement, and each branch state with the independently projected snapshot."
)
LEVEL_NOTE = (
    "Conditions/parameters use the generator's expression templates and named callables; Gaussian mid-circuit measurements "
    "have float outcomes and are checked for accounting only (no shots=None support). Tolerance 1e-10 on exact weights "
    "(1e-6 on the imperfect-detector path)."
)
RULE = (
    "cases = executed adaptive programs and (joint, sequential) program pairs; non-trivial = at least one measurement step "
    "with >= 1 branch was checked by the branch-tree checker; distinct_nontrivial = distinct (simulator, d, shots class, "
    "measurement pattern, #conditions, #outcome-dependent parameters, split pattern) classes."
)
ASSUMPTIONS = ["Python's eval defines the expected truth value of a condition string and the value of a parameter expression (C20 checks that separately)"]
REQUIRED = ["measurement_steps_checked", "branches_checked", "conditions_checked", "parameters_checked", "results_checked",
            "exact_weight_sums_checked", "joint_vs_sequential_pairs", "projection_checks"]
WATCHDOG = {"quick": 900, "thorough": 5400}

SHOTS = [1, 2, 3, 7, 100, 1000]


class Ctx:
    def __init__(self):
        self.violations = []
        self.c = {k: 0 for k in REQUIRED}
        self.c.update({"programs": 0, "programs_raising": 0, "not_implemented": 0, "by_sim": {}})
        self.classes = set()
        self.samples = []
        self.obs = set()
        self.evals = 0

    def viol(self, mech, msg, case):
        if len(self.violations) < 150:
            self.violations.append({"mechanism": mech, "message": msg[:700], "case": case})


def _pyval(idoc_value, outcome):
    from vf.gen import programs as G

    if isinstance(idoc_value, dict) and "__call__" in idoc_value:
        return G.CALLABLES[idoc_value["__call__"]](outcome)
    return eval(compile(idoc_value, "<p>", "eval"), {"__builtins__": {}}, {"x": outcome})


def _cond_expected(idoc, outcome):
    from vf.gen import programs as G

    try:
        if idoc.get("when") is not None:
            return bool(eval(compile(idoc["when"], "<c>", "eval"), {"__builtins__": {}}, {"x": outcome}))
        if idoc.get("when_call") is not None:
            return bool(G.CALLABLES[idoc["when_call"]](outcome))
    except Exception:
        return None  # python itself raises: the library must raise as well, nothing to compare
    return True


class TreeChecker:
    """Subscriber: checks the branch tree of one run."""

    def __init__(self, ctx, doc):
        self.ctx = ctx
        self.doc = doc
        self.state_outcome = {}
        self.ran_on = {}
        self.pre_snapshots = {}
        self.measurements = []  # (index, parent outcome, pre snapshot, subbranches, modes)

    def case(self, extra=None):
        c = {"doc": self.doc}
        if extra:
            c.update(extra)
        return c

    def on_instruction_pre(self, run, idx, ins, branches, shots):
        if run.depth != 0:
            return
        self.state_outcome = {id(b.state): tuple(b.outcome) for b in branches if b.state is not None}
        self.expected_branches = list(branches)
        self.ran_on[idx] = []

    def on_step_pre(self, run, idx, ins, state, shots):
        if run.depth != 0:
            return
        ctx = self.ctx
        outcome = self.state_outcome.get(id(state))
        self.ran_on[idx].append(outcome)
        idoc = self.doc["ins"][idx] if idx < len(self.doc["ins"]) else None
        if idoc is None or outcome is None:
            return
        # outcome-dependent parameters as seen by the step
        for key, v in idoc.get("p", {}).items():
            if isinstance(v, str) or (isinstance(v, dict) and "__call__" in v):
                try:
                    exp = _pyval(v, outcome)
                except Exception:
                    continue
                got = ins.params.get(key)
                ctx.c["parameters_checked"] += 1
                try:
                    ok = (type(got) is not str) and abs(complex(got) - complex(exp)) <= 1e-15 * max(1.0, abs(complex(exp)))
                except Exception:
                    ok = False
                if not ok:
                    ctx.viol("parameter-resolved-with-wrong-outcome", "instruction %d (%s): parameter %s seen by the step is %r, expected %r on the branch with outcome %s" % (
                        idx, idoc["t"], key, got, exp, outcome), self.case({"index": idx}))
        name = type(ins).__name__
        if name.endswith("Measurement") or name.endswith("PostSelectPhotons"):
            self.pre_snapshots[(idx, outcome)] = _snapshot(state)
        if name in ("HomodyneMeasurement", "HeterodyneMeasurement", "GeneraldyneMeasurement") and type(state).__name__ == "GaussianState":
            self.gauss_pre = (idx, np.array(state.xpxp_mean_vector, dtype=float), np.array(state.xpxp_covariance_matrix, dtype=float),
                              float(state._config.hbar), int(state.d))

    def on_step_post(self, run, idx, ins, state, shots, sub, exc):
        if run.depth != 0 or exc is not None or sub is None:
            return
        ctx = self.ctx
        name = type(ins).__name__
        if not (name.endswith("Measurement")):
            return
        ctx.c["measurement_steps_checked"] += 1
        outcome = self.state_outcome.get(id(state))
        if shots is not None:
            total = Fraction(0)
            for b in sub:
                ctx.c["branches_checked"] += 1
                f = b.frequency
                if not isinstance(f, Fraction):
                    try:
                        f = Fraction(f).limit_denominator(10 ** 9)
                    except Exception:
                        ctx.viol("frequency-not-a-fraction", "branch frequency %r of instruction %d is not a rational number" % (b.frequency, idx), self.case({"index": idx}))
                        continue
                k = f * shots
                if k.denominator != 1 or k <= 0:
                    ctx.viol("frequency-not-k-over-n", "instruction %d (%s): child frequency %s with budget %d is not k/N with positive integer k" % (idx, name, f, shots), self.case({"index": idx}))
                total += f
            if total != 1:
                ctx.viol("children-do-not-add-up", "instruction %d (%s): child frequencies sum to %s (budget %d shots) instead of 1" % (idx, name, total, shots), self.case({"index": idx}))
        gp = getattr(self, "gauss_pre", None)
        if gp is not None and gp[0] == idx and name in ("HomodyneMeasurement", "HeterodyneMeasurement", "GeneraldyneMeasurement"):
            self.gauss_pre = None
            _check_gaussian_conditional_states(ctx, self, idx, ins, gp, sub)
        # states are evolved in place by later instructions: snapshot the post-measurement states now
        self.measurements.append((idx, outcome, self.pre_snapshots.get((idx, outcome)),
                                  [(tuple(b.outcome), b.frequency, _snapshot(b.state) if b.state is not None else None) for b in sub], tuple(ins.modes)))

    def on_instruction_post(self, run, idx, ins, branches_in, branches_out, exc):
        if run.depth != 0 or exc is not None:
            return
        ctx = self.ctx
        idoc = self.doc["ins"][idx] if idx < len(self.doc["ins"]) else None
        if idoc is None or (idoc.get("when") is None and idoc.get("when_call") is None):
            return
        expected = []
        for b in branches_in:
            e = _cond_expected(idoc, tuple(b.outcome))
            if e is None:
                return
            if e:
                expected.append(tuple(b.outcome))
        ran = self.ran_on.get(idx, [])
        ctx.c["conditions_checked"] += 1
        if sorted(map(repr, ran)) != sorted(map(repr, expected)):
            ctx.viol("condition-applied-to-wrong-branches", "instruction %d (%s when %s): ran on outcomes %s, condition holds on %s" % (
                idx, idoc["t"], idoc.get("when") or idoc.get("when_call"), sorted(ran)[:6], sorted(expected)[:6]), self.case({"index": idx}))


def _check_gaussian_conditional_states(ctx, checker, idx, ins, pre, sub):
    """Gaussian (general)dyne measurement: every post-measurement state must be the textbook conditional state of the
    pre-measurement moments recorded at the hook, given *its own* outcome in the order of the instruction's mode tuple:
        mean' = mean_B + C (S_A + hbar D)^-1 (outcome - mean_A),   cov' = S_B - C (S_A + hbar D)^-1 C^T
    (A: measured modes in tuple order, B: the others ascending; homodyne: x_phi = cos(phi) x + sin(phi) p first)."""
    _, mean, cov, hbar, d = pre
    modes = [int(m) for m in ins.modes]
    name = type(ins).__name__
    from piquasso._simulators.connectors import NumpyConnector

    allp = ins._get_all_params(NumpyConnector())
    D = np.array(allp["detection_covariance"], dtype=float)
    if name == "HomodyneMeasurement":
        phi = float(allp["phi"])
        R = np.eye(2 * d)
        c, sn = np.cos(phi), np.sin(phi)
        for m in modes:
            R[2 * m:2 * m + 2, 2 * m:2 * m + 2] = [[c, sn], [-sn, c]]
        mean = R @ mean
        cov = R @ cov @ R.T
    ia = [j for m in modes for j in (2 * m, 2 * m + 1)]
    ib = [j for j in range(2 * d) if j not in ia]
    SA = cov[np.ix_(ia, ia)] + hbar * np.kron(np.eye(len(modes)), D)
    C = cov[np.ix_(ib, ia)]
    K = C @ np.linalg.inv(SA)
    cov_ref = cov[np.ix_(ib, ib)] - K @ C.T
    for b in sub:
        if b.state is None:
            continue
        out = np.array([float(v) for v in b.outcome], dtype=float)[-len(ia):]
        mean_ref = mean[ib] + K @ (out - mean[ia])
        got_m = np.array(b.state.xpxp_mean_vector, dtype=float)
        got_c = np.array(b.state.xpxp_covariance_matrix, dtype=float)
        ctx.c["gaussian_conditional_states_checked"] = ctx.c.get("gaussian_conditional_states_checked", 0) + 1
        if got_m.shape != mean_ref.shape or got_c.shape != cov_ref.shape:
            ctx.viol("gaussian-conditional-state-shape", "instruction %d (%s on %s): post-measurement state has %d quadratures, %d remain" % (
                idx, name, modes, got_m.size, mean_ref.size), checker.case({"index": idx}))
            continue
        scale = max(1.0, float(np.abs(cov_ref).max()) if cov_ref.size else 1.0, float(np.abs(mean_ref).max()) if mean_ref.size else 1.0,
                    float(np.abs(K).max() * np.abs(out - mean[ia]).max()) if K.size else 1.0)
        tol = 1e-8 * scale
        dm = float(np.abs(got_m - mean_ref).max()) if mean_ref.size else 0.0
        dc = float(np.abs(got_c - cov_ref).max()) if cov_ref.size else 0.0
        ctx.c["max_gaussian_conditional_dev_over_tol"] = max(ctx.c.get("max_gaussian_conditional_dev_over_tol", 0.0), max(dm, dc) / tol)
        if dm > tol:
            ctx.viol("gaussian-conditional-mean-differs", "instruction %d (%s on modes %s): mean of the post-measurement state differs from the conditional "
                     "mean given its outcome by %.3e (tol %.1e)" % (idx, name, tuple(modes), dm, tol), checker.case({"index": idx}))
        if dc > tol:
            ctx.viol("gaussian-conditional-covariance-differs", "instruction %d (%s on modes %s): covariance of the post-measurement state differs from the "
                     "conditional covariance by %.3e (tol %.1e)" % (idx, name, tuple(modes), dc, tol), checker.case({"index": idx}))


def _snapshot(state):
    from vf.monitors import physical as P

    k = P.kind_of(state)
    try:
        if k in ("purefock", "ffock"):
            return {"kind": k, "vec": np.array(state.state_vector, dtype=complex), "d": state.d, "cutoff": state._config.cutoff}
    except Exception:
        return None
    return {"kind": k}


def _basis(kind, d, cutoff):
    if kind == "purefock":
        from piquasso._math.fock import get_fock_space_basis

        return np.asarray(get_fock_space_basis(d, cutoff)).astype(int)
    from piquasso.fermionic._utils import get_fock_space_basis as fb

    return np.asarray(fb(d, cutoff)).astype(int)


def check_exact_run(ctx, checker, res, doc):
    """shots=None: weights vs norms, projections."""
    for idx, parent_outcome, snap, subs, modes in checker.measurements:
        if snap is None or "vec" not in snap:
            continue
        vec, d, cutoff, kind = snap["vec"], snap["d"], snap["cutoff"], snap["kind"]
        basis = _basis(kind, d, cutoff)
        if len(basis) != len(vec):
            continue
        norm2 = float(np.real(np.vdot(vec, vec)))
        wsum = float(sum(float(f) for _, f, _ in subs))
        ctx.c["exact_weight_sums_checked"] += 1
        name = doc["ins"][idx]["t"]
        tol = 1e-6 if "Imperfect" in name else 1e-10
        # outcomes whose probability is numerically zero (np.isclose, atol 1e-8) are pruned by design
        n_possible = len(basis)
        tol = tol + 1e-8 * max(0, n_possible - len(subs))
        if name == "ParticleNumberMeasurement" and abs(wsum - 1.0) > tol and abs(wsum - norm2) > tol:
            ctx.viol("exact-weights-do-not-sum-to-norm:%s" % kind, "instruction %d: shots=None weights sum to %.12f, the measured state has norm^2 %.12f" % (idx, wsum, norm2),
                     {"doc": doc, "index": idx})
        if name != "ParticleNumberMeasurement":
            continue
        rest = [m for m in range(d) if m not in modes]
        for out, f, st in subs:
            o = out  # at step level the outcome holds the entries of this measurement only
            if len(o) != len(modes):
                ctx.viol("outcome-arity", "instruction %d: outcome %s has %d entries for %d measured modes" % (idx, o, len(o), len(modes)), {"doc": doc, "index": idx})
                continue
            sel = np.all(basis[:, list(modes)] == np.array(o)[None, :], axis=1)
            p = float(np.sum(np.abs(vec[sel]) ** 2))
            ctx.c["projection_checks"] += 1
            # relative weight of this child inside its parent
            if norm2 > 0 and abs(float(f) - p / norm2) > tol and abs(float(f) - p) > tol:
                ctx.viol("exact-weight-wrong:%s" % kind, "instruction %d: outcome %s has weight %.12f, projection of the snapshot gives %.12f (norm^2 %.12f)" % (
                    idx, o, float(f), p, norm2), {"doc": doc, "index": idx})
                continue
            if st is None or "vec" not in st or p < 1e-12 or not rest:
                continue
            try:
                got = st["vec"]
                new_cut = st["cutoff"]
                rb = _basis(kind, len(rest), new_cut)
                if len(rb) != len(got):
                    continue
                full_index = {tuple(b_): i for i, b_ in enumerate(basis)}
                exp = np.zeros(len(rb), dtype=complex)
                for i, rocc in enumerate(rb):
                    occ = [0] * d
                    for m, v in zip(modes, o):
                        occ[m] = v
                    for m, v in zip(rest, rocc):
                        occ[m] = int(v)
                    j = full_index.get(tuple(occ))
                    if j is not None:
                        exp[i] = vec[j]
                exp = exp / np.sqrt(p)
                if np.abs(got - exp).max() > 1e-9:
                    ctx.viol("post-measurement-state-not-projection:%s" % kind,
                             "instruction %d, outcome %s: branch state differs from the normalised projection of the pre-measurement snapshot by %.3e" % (
                                 idx, o, np.abs(got - exp).max()), {"doc": doc, "index": idx})
            except Exception as e:
                ctx.obs.add("projection check skipped: %s" % type(e).__name__)


def run_doc(ctx, pq, doc):
    from vf.gen import programs as G
    from vf.monitors import stephook
    from piquasso.api.exceptions import NotImplementedCalculation

    hook = stephook.get().install()
    chk = hook.subscribe(TreeChecker(ctx, doc))
    ctx.evals += 1
    ctx.c["programs"] += 1
    before = ctx.c["measurement_steps_checked"]
    res = None
    try:
        sim, prog = G.build_adaptive(pq, doc)
        res = sim.execute(prog, shots=doc.get("shots"))
    except NotImplementedCalculation:
        ctx.c["not_implemented"] += 1
    except Exception as e:
        ctx.c["programs_raising"] += 1
        ctx.obs.add("%s program raised %s: %s" % (doc["sim"], type(e).__name__, str(e)[:70]))
    finally:
        hook.unsubscribe(chk)
    if res is None:
        return None
    shots = doc.get("shots")
    has_meas = any(i["t"].endswith("Measurement") for i in doc["ins"])
    if shots is not None and has_meas:
        ctx.c["results_checked"] += 1
        try:
            samples = res.samples
            if len(samples) != shots:
                ctx.viol("samples-length", "len(samples) = %d for shots = %d" % (len(samples), shots), {"doc": doc})
            tot = sum((b.frequency if isinstance(b.frequency, Fraction) else Fraction(b.frequency).limit_denominator(10 ** 9)) for b in res.branches)
            if tot != 1:
                ctx.viol("final-frequencies-do-not-sum-to-one", "branch frequencies sum to %s" % tot, {"doc": doc})
            for b in res.branches:
                k = Fraction(b.frequency) * shots
                if k.denominator != 1 or k <= 0:
                    ctx.viol("final-frequency-not-k-over-n", "final branch frequency %s is not k/%d with positive integer k" % (b.frequency, shots), {"doc": doc})
            n_out = sum(len(i["m"]) * (2 if (i["t"] in ("HomodyneMeasurement", "HeterodyneMeasurement", "GeneraldyneMeasurement") and doc["sim"] == "gaussian") else 1)
                        for i in doc["ins"] if i["t"].endswith("Measurement") and i.get("m"))
            if all(i.get("m") for i in doc["ins"] if i["t"].endswith("Measurement")) and doc["sim"] != "gaussian":
                for s in samples[:50]:
                    if len(s) != n_out:
                        ctx.viol("sample-arity", "sample %s has %d entries, %d quantities were measured" % (s, len(s), n_out), {"doc": doc})
                        break
            try:
                counts = res.get_counts()
                if sum(counts.values()) != shots:
                    ctx.viol("counts-do-not-sum-to-shots", "get_counts sums to %d for shots=%d" % (sum(counts.values()), shots), {"doc": doc})
            except NotImplementedError:
                pass
        except NotImplementedCalculation:
            pass
    if shots is None and has_meas:
        check_exact_run(ctx, chk, res, doc)
    if ctx.c["measurement_steps_checked"] > before:
        nm = [len(i["m"]) if i.get("m") else "all" for i in doc["ins"] if i["t"].endswith("Measurement")]
        nc = sum(1 for i in doc["ins"] if i.get("when") or i.get("when_call"))
        npar = sum(1 for i in doc["ins"] for v in i.get("p", {}).values() if isinstance(v, str) or (isinstance(v, dict) and "__call__" in v))
        ctx.classes.add("%s|d%d|shots:%s|meas:%s|cond%d|par%d" % (doc["sim"], doc["d"], "None" if shots is None else ("1" if shots == 1 else ("small" if shots < 10 else "many")), nm, nc, npar))
        ctx.c["by_sim"][doc["sim"]] = ctx.c["by_sim"].get(doc["sim"], 0) + 1
        if len(ctx.samples) < 4:
            ctx.samples.append({"sim": doc["sim"], "shots": shots, "instructions": [[i["t"], i.get("m"), i.get("when") or i.get("when_call")] for i in doc["ins"]],
                                "branches": [[list(map(float, b.outcome)), str(b.frequency)] for b in res.branches[:6]]})
    return res


# ----------------------------------------------------------------------------- joint vs sequential
def ordered_set_partitions(items):
    """All ordered partitions of `items` into non-empty blocks (blocks keep the given order)."""
    items = list(items)
    n = len(items)
    out = []
    for labels in itertools.product(range(n), repeat=n):
        k = max(labels) + 1
        if set(labels) != set(range(k)):
            continue
        out.append([[items[i] for i in range(n) if labels[i] == b] for b in range(k)])
    return out


def joint_vs_sequential(ctx, pq, rng, sim):
    from vf.gen import programs as G

    d = int(rng.integers(2, 5))
    if sim == "ffock":
        occ = [int(v) for v in rng.integers(0, 2, size=d)]
        cfg = {"cutoff": d + 1}
    else:
        occ = G.number_state(rng, d, 3)
        cfg = {"cutoff": sum(occ) + (3 if rng.random() < 0.5 else 1)}
    ins = [{"t": "NumberState", "m": None, "p": {"occupation_numbers": occ}}]
    if sim == "purefock" and sum(occ) > 0 and rng.random() < 0.4:
        sp, occs, amps = G.superposition(rng, d, sum(occ), terms=3)
        cfg["cutoff"] = max(sum(o) for o in occs) + 2
        ins = [sp]
    for _ in range(int(rng.integers(1, 5))):
        name = str(rng.choice(["Beamsplitter", "Interferometer", "Phaseshifter"] + ([] if sim == "ffock" else ["MachZehnder", "Kerr", "CrossKerr"])))
        g = G.gate(rng, name, d)
        if g is None:
            continue
        if sim == "ffock" and len(g["m"]) > 1:
            k = len(g["m"])
            st = int(rng.integers(0, d - k + 1))
            g["m"] = list(range(st, st + k))
        ins.append(g)
    k = int(rng.integers(2, d + 1))
    mm = G.ordered_subset(rng, d, k)
    base = {"sim": sim, "d": d, "config": cfg, "shots": None}
    joint = dict(base, ins=ins + [{"t": "ParticleNumberMeasurement", "m": mm, "p": {}}])
    parts = ordered_set_partitions(mm)
    parts = [p for p in parts if len(p) > 1]
    if len(parts) > 6:
        parts = [parts[int(i)] for i in rng.permutation(len(parts))[:6]]
    rj = run_doc(ctx, pq, joint)
    if rj is None:
        return
    jmap = {}
    for b in rj.branches:
        key = tuple(int(v) for v in b.outcome)
        jmap[key] = jmap.get(key, 0.0) + float(b.frequency)
    for part in parts:
        seq = dict(base, ins=ins + [{"t": "ParticleNumberMeasurement", "m": blk, "p": {}} for blk in part])
        rs = run_doc(ctx, pq, seq)
        if rs is None:
            continue
        order = [m for blk in part for m in blk]
        perm = [order.index(m) for m in mm]
        smap = {}
        for b in rs.branches:
            o = tuple(int(v) for v in b.outcome)
            if len(o) != len(order):
                ctx.viol("outcome-arity", "sequential measurement %s gives outcome of length %d" % (part, len(o)), {"doc": seq})
                continue
            key = tuple(o[i] for i in perm)
            smap[key] = smap.get(key, 0.0) + float(b.frequency)
        ctx.c["joint_vs_sequential_pairs"] += 1
        keys = set(jmap) | set(smap)
        # shots=None prunes outcomes below 1e-8 at every measurement by design: an outcome that only one of the two maps
        # lists may weigh up to that much (thorough-tier false alarm: P = 2.6e-9 sequentially, pruned jointly, DESIGN 7.4)
        def excess(k_):
            both = k_ in jmap and k_ in smap
            return abs(jmap.get(k_, 0.0) - smap.get(k_, 0.0)) - (1e-10 if both else 1.0001e-8)

        dev = max(abs(jmap.get(k_, 0.0) - smap.get(k_, 0.0)) for k_ in keys) if keys else 0.0
        ctx.classes.add("jvs|%s|d%d|split:%s" % (sim, d, [len(b_) for b_ in part]))
        if keys and max(excess(k_) for k_ in keys) > 0:
            worst = max(keys, key=excess)
            ctx.viol("sequential-differs-from-joint:%s" % sim,
                     "measuring modes %s as %s gives P%s = %.12f, jointly %.12f (max deviation %.3e)" % (mm, part, worst, smap.get(worst, 0.0), jmap.get(worst, 0.0), dev),
                     {"doc": seq, "joint": joint})


def passive_projected_marginal(rng):
    """Finite-shot PassiveSimulator programs whose partial measurement goes through the "sample every mode, then project"
    path (non-uniform loss, partial distinguishability): distinct full outcomes collide on the marginal outcome, so the bins
    must be accumulated (a seeded change that overwrote them was missed before this workload existed)."""
    from vf.gen import programs as G
    from vf.gen import matrices as M

    d = int(rng.integers(3, 6))
    n = int(rng.integers(2, 5))
    occ = G.number_state(rng, d, n)
    cfg = {"hbar": 2.0, "cutoff": sum(occ) + 1}
    variant = str(rng.choice(["loss", "lossy-interferometer", "distinguishable", "distinguishable-loss"]))
    ins = []
    if variant.startswith("distinguishable"):
        ins.append({"t": "DistinguishableNumberState", "m": None, "p": {"occupation_numbers": occ, "particle_overlap": float(rng.choice([0.0, 0.4, 0.8]))}})
    else:
        ins.append({"t": "NumberState", "m": None, "p": {"occupation_numbers": occ}})
    for _ in range(int(rng.integers(1, 4))):
        g = G.gate(rng, str(rng.choice(["Interferometer", "Beamsplitter", "Beamsplitter5050", "MachZehnder"])), d)
        if g is not None:
            ins.append(g)
    if variant in ("loss", "distinguishable-loss"):
        ins.append({"t": "Loss", "m": [int(rng.integers(0, d))], "p": {"transmissivity": float(rng.choice([0.5, 0.8]))}})
    elif variant == "lossy-interferometer":
        T, sv = M.transmission_matrix(rng, d)
        ins.append({"t": "LossyInterferometer", "m": None, "p": {"matrix": M.enc(T)}})
    k = int(rng.integers(1, d))
    mm = G.ordered_subset(rng, d, k)
    ins.append({"t": "ParticleNumberMeasurement", "m": mm, "p": {}})
    rest = [m for m in range(d) if m not in mm]
    if rng.random() < 0.35 and rest:
        ins.append({"t": "Phaseshifter", "m": [rest[0]], "p": {"phi": 0.4}, "when": "x[0] > 0"})
        ins.append({"t": "ParticleNumberMeasurement", "m": rest, "p": {}})
    return {"sim": "passive", "d": d, "config": cfg, "ins": ins, "shots": int(rng.choice([2, 3, 5, 8, 13, 40])), "variant": variant}


def plan(tier, seed):
    n = 15 if tier == "quick" else 16
    return [{"name": "s%d" % i, "shard": i, "programs": 70 if tier == "quick" else 900,
             "env": {"OPENBLAS_NUM_THREADS": "1", "OMP_NUM_THREADS": "1", "NUMBA_NUM_THREADS": "2"}} for i in range(n)]


def run_shard(spec):
    from vf import boot

    pq = boot.import_piquasso()
    from vf.gen import programs as G

    rng = np.random.default_rng([int(spec["seed"]), 3, int(spec["shard"])])
    ctx = Ctx()
    t0 = time.time()
    budget = 140 if spec["tier"] == "quick" else 1500
    sims = ["purefock", "passive", "gaussian", "ffock"]
    for i in range(int(spec["programs"])):
        if time.time() - t0 > budget:
            ctx.obs.add("shard stopped by time budget after %d programs" % i)
            break
        sim = sims[(i + int(spec["shard"])) % len(sims)]
        if i % 7 == 5:
            doc = passive_projected_marginal(rng)
            ctx.c["passive_projected_marginal_programs"] = ctx.c.get("passive_projected_marginal_programs", 0) + 1
            run_doc(ctx, pq, doc)
            continue
        if i % 3 == 2 and sim in ("purefock", "ffock", "passive"):
            joint_vs_sequential(ctx, pq, rng, sim)
            continue
        exact = sim != "gaussian" and rng.random() < 0.4
        shots = None if exact else int(rng.choice(SHOTS))
        doc = G.adaptive_program(rng, sim=sim, shots=shots, max_meas=3, tight_cutoff=bool(rng.random() < 0.3),
                                 hbar=float(rng.choice([1.0, 2.0])))
        run_doc(ctx, pq, doc)
    return {"evaluations": ctx.evals, "classes": sorted(ctx.classes), "violations": ctx.violations,
            "counters": ctx.c, "samples": ctx.samples, "observations": sorted(ctx.obs)[:25]}


def replay(case):
    from vf import boot

    pq = boot.import_piquasso()
    ctx = Ctx()
    if "joint" in case:
        rj = run_doc(ctx, pq, case["joint"])
        rs = run_doc(ctx, pq, case["doc"])
        if rj is not None and rs is not None:
            mm = case["joint"]["ins"][-1]["m"]
            order = [m for i in case["doc"]["ins"] if i["t"] == "ParticleNumberMeasurement" for m in i["m"]]
            perm = [order.index(m) for m in mm]
            jmap, smap = {}, {}
            for b in rj.branches:
                k = tuple(int(v) for v in b.outcome)
                jmap[k] = jmap.get(k, 0.0) + float(b.frequency)
            for b in rs.branches:
                o = tuple(int(v) for v in b.outcome)
                k = tuple(o[i] for i in perm)
                smap[k] = smap.get(k, 0.0) + float(b.frequency)
            keys = set(jmap) | set(smap)
            dev = max(abs(jmap.get(k_, 0.0) - smap.get(k_, 0.0)) for k_ in keys)
            if dev > 1e-10:
                ctx.viol("sequential-differs-from-joint:%s" % case["doc"]["sim"], "max deviation %.3e" % dev, case)
    else:
        run_doc(ctx, pq, case["doc"])
    return ctx.violations
