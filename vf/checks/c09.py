"""C09 - results do not depend on the numerical connector.

Monitor: differential execution of one JSON program document on every connector / execution
mode the simulator supports:

  PureFockSimulator            numpy | tf (eager) | tf-function (decorate_with=tf.function) |
                               tf-function-outer (whole run inside tf.function, parameters as
                               tensors) | jax (eager) | jax-jit (whole run inside jax.jit,
                               parameters as tracers)
  GaussianSimulator            numpy | jax | jax-jit
  PassiveSimulator             numpy | jax | jax-jit (what is traceable; the rest is recorded)
  fermionic PureFock/Gaussian  numpy | jax | jax-jit

Shards: three TensorFlow-importing shards (weight 3; they import JAX only when a TensorFlow
deviation has to be described), seven JAX shards. Every shard works on one (quick) or three
(thorough) (d, cutoff) shapes because each new shape costs JAX 5-30 s of kernel compilation.

Oracle: every observable of every mode equals the NumPy value within c*eps*size (all connectors
run in float64/complex128).  Refinements that keep the oracle sound and the findings narrow:

  * PureFock programs that contain an Euler-decomposed gate with *repeated non-zero* squeezing
    parameters (every Squeezing2, degenerate GaussianTransform) have no unique decomposition:
    rounding noise selects the basis inside the degenerate subspace and the *truncated* evolution
    U2 (P S1 P S2 P) U1 depends on it at the level of the truncation error.  Such programs are
    compared within the amplitude leaked at those gates (norms measured by the step hook in both
    runs, see Ledger); in compiled modes (no step boundaries observable) they are skipped and counted.
    A deviation beyond that bound is probed by calling euler() directly per connector.
  * TensorFlow deviations in programs with complex Euler gates: connector.polar is probed directly
    on the gate's symplectic matrix and the run is repeated with a textbook polar installed on the
    connector instance; only a deviation that disappears then gets the key
    `tensorflow-polar-not-unitary`.
  * get_phaseshifter_expectation_value: when its concrete (NumPy / eager) and abstract (jit) code paths
    disagree, both are compared with the value computed from the photon statistics of the same state
    at a large cutoff (tail mass added to the tolerance) and with the documented closed form
    re-evaluated by the harness (repeat vs tile ordering) to name the defect.
"""

import time
import traceback

import numpy as np

ID = "C09"
LEVEL = "exploration"
TECHNIQUE = ("runtime monitoring: differential execution of the same program document on the NumPy, TensorFlow and JAX "
             "connectors, eagerly and compiled (tf.function, jax.jit); step-hook norm ledger for programs whose Euler "
             "decomposition is not unique; direct probe of connector.polar to attribute TensorFlow deviations")
DESIGN_REF = "DESIGN.md §4 C09"
LEVEL_TEXT = (
    "Generated programs (d<=3, cutoff 3..7, vacuum / number-state / superposition inputs, ordered mode subsets; "
    "GaussianTransform with complex and real symplectic blocks, degenerate squeezers, Squeezing/Squeezing2 with phi!=0, "
    "QuadraticPhase, ControlledX/Z, Kerr/CrossKerr/CubicPhase, displacements, interferometers on permuted modes) are "
    "executed on every connector and execution mode of the pure Fock, Gaussian, passive and fermionic simulators; state "
    "vectors (phase included), probabilities, density matrices, detection probabilities, quadrature moments, phase-"
    "shifter expectation values and fermionic covariance matrices must equal the NumPy values within rounding."
)
LEVEL_NOTE = (
    "Compiled modes run on fewer programs (every new program retraces) and only on what can be traced (no Euler-decomposed "
    "gate under jax.jit / an outer tf.function: takagi inspects values). PureFock programs with a non-unique Euler "
    "decomposition are compared within the amplitude leaked at the degenerate gates only (eager) or skipped (compiled). "
    "float32 configurations, gradients, batch instructions, measurements, tiny non-zero phase-shifter angles and the "
    "TensorFlow connector on simulators other than PureFock are not exercised here."
)
RULE = (
    "cases = program documents executed on NumPy and at least one other connector/mode; non-trivial = at least one "
    "observable of a non-NumPy mode reached the comparison with the NumPy value; distinct_nontrivial = distinct "
    "structural classes (simulator, d, cutoff, input kind, sorted gate types, mode-order patterns, modes executed)."
)
ASSUMPTIONS = [
    "NumPy connector results are the reference; a deviation is attributed to the other connector/mode",
    "rounding: 1e4 * eps * (basis cardinality or matrix size) * (instructions + 1) on quantities scaled to order one",
    "a gate with a non-unique Euler decomposition is applied as U2 (P S_1 P ... S_k P) U1 and every other step is a contraction "
    "of the truncated space: two runs then differ by at most the leaked amplitudes sqrt(k (|in|^2 - |out|^2)) measured by the step hook",
    "photon statistics of the NumPy Gaussian state at a large cutoff (tail mass added to the tolerance) are an independent "
    "evaluation of Tr[rho exp(i sum phi_j n_j)]",
]
REQUIRED = ["comparisons", "purefock_tf_comparisons", "purefock_jax_comparisons", "compiled_mode_comparisons",
            "gaussian_comparisons", "passive_comparisons", "fermionic_comparisons", "phaseshifter_comparisons",
            "statevector_comparisons", "polar_probes", "jax_perm_calls"]
WATCHDOG = {"quick": 900, "thorough": 3000}

EPS = float(np.finfo(np.float64).eps)
PREPS = ("Vacuum", "NumberState", "FockStateVector", "StateVector")
EULER_GATES = ("Squeezing2", "GaussianTransform", "QuadraticPhase")


def tolerance(size, n_ins, scale=1.0):
    return 1e4 * EPS * max(4, int(size)) * (int(n_ins) + 1) * max(1.0, float(scale))


class Ctx:
    def __init__(self):
        self.violations = []
        self.c = {k: 0 for k in REQUIRED}
        self.c.update({"programs": 0, "max_dev_over_tol": 0.0, "max_dev_exact_class": 0.0, "runs_by_sim_mode": {}, "by_observable": {},
                       "ambiguous_euler_programs": 0, "ambiguous_bounded_comparisons": 0, "ambiguous_skipped_compiled": 0, "ambiguous_trivial_bound": 0,
                       "max_dev_ambiguous_class": 0.0, "max_bound_ambiguous_class": 0.0, "unsupported": 0, "jit_tracer_errors": 0,
                       "polar_nonunitary": 0, "euler_probes": 0, "corrected_polar_reruns": 0, "corrected_polar_agree": 0,
                       "phaseshifter_reference_checks": 0, "phase_sensitive_inputs": 0, "complex_euler_gate_programs": 0,
                       "permuted_mode_gates": 0, "degenerate_gaussian_transforms": 0})
        self.classes = set()
        self.samples = []
        self.obs = set()
        self.evals = 0

    def viol(self, mech, msg, case):
        if len(self.violations) < 120:
            self.violations.append({"mechanism": mech, "message": msg[:900], "case": case})

    def count(self, d, k, n=1):
        self.c[d][k] = self.c[d].get(k, 0) + n


# ------------------------------------------------------------------------------ backends
_BACKENDS = {}


def backend(name):
    """Imports TensorFlow / JAX on first use; every connector runs in float64/complex128."""
    if name in _BACKENDS:
        return _BACKENDS[name]
    if name == "tf":
        import tensorflow as tf

        _BACKENDS[name] = tf
    elif name == "jax":
        import jax

        jax.config.update("jax_enable_x64", True)
        _BACKENDS[name] = jax
    return _BACKENDS[name]


def count_perm_calls(ctx):
    """Call counter on piquasso.jax_extensions.permanent.perm (JaxConnector.permanent imports it per call)."""
    import piquasso.jax_extensions.permanent as pm

    if getattr(pm.perm, "_vf_counted", False):
        return
    orig = pm.perm

    def perm(*a, **k):
        ctx.c["jax_perm_calls"] += 1
        return orig(*a, **k)

    perm._vf_counted = True
    pm.perm = perm


def make_connector(pq, mode, fix_polar=False):
    if mode == "numpy":
        return None
    if mode == "tf":
        conn = pq.TensorflowConnector()
    elif mode in ("tf-function", "tf-function-outer"):
        conn = pq.TensorflowConnector(decorate_with=backend("tf").function)
    elif mode in ("jax", "jax-jit"):
        backend("jax")
        conn = pq.JaxConnector()
    else:
        raise KeyError(mode)
    if fix_polar:
        _install_reference_polar(conn)
    return conn


def _install_reference_polar(conn):
    """Harness-side replacement of TensorflowConnector.polar by the textbook definition
    (M = P U with P = sqrtm(M M+); M = U P with P = sqrtm(M+ M)); used only to decide whether a
    deviation is *entirely* explained by the polar shim."""
    tf = conn._tf

    def polar(matrix, side="right"):
        Mh = tf.linalg.adjoint(matrix)
        if side == "left":
            P = tf.linalg.sqrtm(matrix @ Mh)
            return tf.linalg.inv(P) @ matrix, P
        P = tf.linalg.sqrtm(Mh @ matrix)
        return matrix @ tf.linalg.inv(P), P

    conn.polar = polar


# ------------------------------------------------------------------------------ ledger of ambiguous gates
class Ledger:
    """Norms around the instructions whose Euler decomposition is not unique.

    Such an instruction is applied as  U2 (P S_1 P ... P S_k P) U1  (passive factors commute with the projector P on
    total photon number, the k single-mode squeezers are applied one after the other on the truncated vector).  It
    differs from the one-shot truncation P G P of the same gate G by at most the sum of the amplitudes leaked by the
    individual factors, and sum_i leak_i <= sqrt(k * sum_i leak_i^2) = sqrt(k * (|phi_in|^2 - |phi_out|^2)).  All
    other steps are identical contractions in both runs, so two runs that only differ in the basis chosen inside the
    degenerate subspace end within  B_a + B_b,  B = sum over ambiguous instructions of that expression."""

    def __init__(self, indices):
        self.indices = set(indices)
        self.b = 0.0
        self.norm_in = None
        self.ok = True
        self.seen = 0

    @staticmethod
    def _norm(state):
        try:
            return float(abs(complex(np.asarray(state.norm))))
        except Exception:
            return None

    def on_step_pre(self, run, idx, ins, state, shots):
        if run.depth == 0 and idx in self.indices:
            self.norm_in = self._norm(state)

    def on_step_post(self, run, idx, ins, state, shots, sub, exc):
        if run.depth != 0 or exc is not None or idx not in self.indices:
            return
        n_out = self._norm(state)
        if n_out is None or self.norm_in is None or not np.isfinite(n_out):
            self.ok = False
            return
        self.seen += 1
        k = max(1, len(ins.modes))
        self.b += float(np.sqrt(k * max(0.0, self.norm_in ** 2 - n_out ** 2)))


# ------------------------------------------------------------------------------ documents
def _blocks_of(idoc):
    """(passive, active) blocks of an Euler-decomposed gate, from the document alone."""
    from vf.gen import matrices as M

    t, p = idoc["t"], idoc["p"]
    if t == "GaussianTransform":
        return M.dec(p["passive"]), M.dec(p["active"])
    if t == "Squeezing2":
        r, phi = p["r"], p["phi"]
        return np.cosh(r) * np.eye(2, dtype=complex), np.sinh(r) * np.exp(1j * phi) * np.array([[0, 1], [1, 0]], dtype=complex)
    if t == "QuadraticPhase":
        s = p["s"]
        return np.array([[1 + 0.5j * s]]), np.array([[0.5j * s]])
    raise KeyError(t)


def euler_profile(doc):
    """(ambiguous, complex_gates): indices of Euler-decomposed gates with repeated non-zero squeezing
    parameters (non-unique decomposition); indices of Euler gates with complex blocks."""
    ambiguous = []
    complex_gates = []
    for i, idoc in enumerate(doc["ins"]):
        if idoc["t"] not in EULER_GATES:
            continue
        P, A = _blocks_of(idoc)
        s = np.linalg.svd(A, compute_uv=False)
        r = np.arcsinh(s)
        for a in range(len(r)):
            for b in range(a + 1, len(r)):
                if max(r[a], r[b]) > 1e-9 and abs(r[a] - r[b]) < 1e-4 and i not in ambiguous:
                    ambiguous.append(i)
        if max(float(np.abs(np.imag(P)).max()), float(np.abs(np.imag(A)).max())) > 1e-13 and float(s.max()) > 1e-13:
            complex_gates.append(i)
    return ambiguous, complex_gates


def lift(doc):
    """Splits the gate parameters (floats, arrays) off the document: (skeleton, leaves)."""
    from vf.gen import matrices as M

    leaves = []
    skel = []
    for idoc in doc["ins"]:
        if idoc["t"] in PREPS:
            skel.append(idoc)
            continue
        p2 = {}
        for k, v in idoc.get("p", {}).items():
            if isinstance(v, dict) and "__nd__" in v:
                leaves.append(np.asarray(M.dec(v)))
                p2[k] = {"__leaf__": len(leaves) - 1}
            elif isinstance(v, float):
                leaves.append(np.float64(v))
                p2[k] = {"__leaf__": len(leaves) - 1}
            else:
                p2[k] = v
        skel.append({"t": idoc["t"], "m": idoc.get("m"), "p": p2})
    return skel, leaves


def lower(skel, leaves):
    out = []
    for idoc in skel:
        p2 = {}
        for k, v in idoc.get("p", {}).items():
            p2[k] = leaves[v["__leaf__"]] if isinstance(v, dict) and "__leaf__" in v else v
        out.append({"t": idoc["t"], "m": idoc.get("m"), "p": p2})
    return out


def build_sim(pq, doc, conn):
    from vf.gen import programs as G

    return G.SIMS[doc["sim"]](pq)(d=doc["d"], config=G.build_config(pq, doc.get("config")), connector=conn)


# ------------------------------------------------------------------------------ observables
def _arr(x):
    return np.asarray(x)


def observe(pq, doc, state, extra, xp=None, compiled=False):
    """Ordered dict name -> array-like (not converted: may be tracers in compiled modes)."""
    sim = doc["sim"]
    d = doc["d"]
    o = {}
    if sim == "purefock":
        o["state_vector"] = state.state_vector
        o["fock_probabilities"] = state.fock_probabilities
        o["tensor_representation"] = state.get_tensor_representation()
        for m in range(d):
            o["mean_position[%d]" % m] = state.mean_position(m)
        qm, qphi = extra.get("quad_mode", 0), extra.get("quad_phi", 0.3)
        mean, var = state.quadratures_mean_variance(modes=(qm,), phi=qphi)
        o["quadratures_mean"] = mean
        o["quadratures_variance"] = var
    elif sim == "gaussian":
        o["xpxp_mean_vector"] = state.xpxp_mean_vector
        o["xpxp_covariance_matrix"] = state.xpxp_covariance_matrix
        if not extra.get("skip_density"):
            o["density_matrix"] = state.density_matrix
        if not extra.get("skip_probs"):
            o["fock_probabilities"] = state.fock_probabilities
        if extra.get("occ") is not None and not compiled:
            o["particle_detection_probability"] = state.get_particle_detection_probability(tuple(extra["occ"]))
        if not compiled:
            qmean, qcov = state.xpxp_reduced_rotated_mean_and_covariance(modes=(extra.get("quad_mode", 0),), phi=extra.get("quad_phi", 0.3))
            o["reduced_rotated_mean"] = qmean
            o["reduced_rotated_cov"] = qcov
        o["mean_photon_number"] = state.mean_photon_number()
    elif sim == "passive":
        if not compiled:
            # PassiveState._materialize_state_vector converts to a NumPy array: not traceable
            o["state_vector"] = state.state_vector
        o["fock_probabilities"] = state.fock_probabilities
        for k, occ in enumerate(extra.get("occs", [])):
            o["particle_detection_probability[%d]" % k] = state.get_particle_detection_probability(tuple(occ))
    elif sim == "ffock":
        o["state_vector"] = state.state_vector
        o["fock_probabilities"] = state.fock_probabilities
        if not compiled:
            o["covariance_matrix"] = state.covariance_matrix
    elif sim == "fgaussian":
        o["covariance_matrix"] = state.covariance_matrix
        o["correlation_matrix"] = state.correlation_matrix
        o["mean_particle_numbers"] = state.mean_particle_numbers(modes=tuple(range(d)))
        if not compiled:
            o["fock_probabilities"] = state.fock_probabilities
    else:
        raise KeyError(sim)
    return o


def run_mode(pq, doc, mode, extra, fix_polar=False, ledger=None):
    """Executes `doc` in `mode`. Returns {"obs": {name: ndarray}, "b": float|None} or {"error": exc, "tb": str}."""
    from vf.gen import programs as G

    led = None
    hook = None
    try:
        conn = make_connector(pq, mode, fix_polar)
        angles = extra.get("angles")
        if mode in ("numpy", "tf", "tf-function", "jax"):
            if ledger:
                from vf.monitors import stephook

                hook = stephook.get().install()
                led = hook.subscribe(Ledger(ledger))
            sim = build_sim(pq, doc, conn)
            prog = G.build_program(pq, doc["ins"])
            state = sim.execute(prog, shots=1).state
            if led is not None:
                hook.unsubscribe(led)
                hook = None
            o = observe(pq, doc, state, extra)
            if doc["sim"] == "gaussian" and angles is not None:
                o["phaseshifter_expectation"] = state.get_phaseshifter_expectation_value(list(angles))
            obs = {k: _arr(v) for k, v in o.items()}
            return {"obs": obs, "b": (led.b if led is not None and led.ok and led.seen == len(led.indices) else None)}
        skel, leaves = lift(doc)
        names = []

        def body(leaves_, angles_):
            sim = build_sim(pq, doc, conn)
            prog = G.build_program(pq, lower(skel, leaves_))
            state = sim.execute(prog, shots=1).state
            o = observe(pq, doc, state, extra, compiled=True)
            if doc["sim"] == "gaussian" and angles is not None:
                o["phaseshifter_expectation"] = state.get_phaseshifter_expectation_value(angles_)
            names[:] = list(o)
            return tuple(o.values())

        if mode == "jax-jit":
            jax = backend("jax")
            jnp = jax.numpy
            fn = jax.jit(body)
            vals = fn([jnp.asarray(x) for x in leaves], jnp.asarray(np.asarray(angles if angles is not None else [0.0], dtype=float)))
        else:
            tf = backend("tf")
            fn = tf.function(body)
            vals = fn([tf.constant(x) for x in leaves], tf.constant(np.asarray(angles if angles is not None else [0.0], dtype=float)))
        return {"obs": {k: _arr(v) for k, v in zip(names, vals)}, "b": None}
    except Exception as e:
        return {"error": e, "tb": traceback.format_exc()[-1500:]}
    finally:
        if hook is not None and led is not None:
            try:
                hook.unsubscribe(led)
            except ValueError:
                pass


# ------------------------------------------------------------------------------ classification helpers
def _innermost_frame(exc):
    tb = traceback.extract_tb(exc.__traceback__)
    for fr in reversed(tb):
        if "/piquasso/" in fr.filename:
            return "%s:%s" % (fr.filename.split("/piquasso/")[-1], fr.name)
    return "?"


def _is_unsupported(exc):
    from piquasso.api.exceptions import NotImplementedCalculation

    return isinstance(exc, (NotImplementedError, NotImplementedCalculation))


def _is_tracer_error(exc):
    n = type(exc).__name__
    return any(s in n for s in ("Tracer", "Concretization", "OperatorNotAllowedInGraphError", "NonConcreteBooleanIndexError")) or \
        "tf.Tensor` as a Python `bool`" in str(exc) or "Tracer" in str(exc)[:300] or "symbolic" in str(exc)[:300].lower()


def polar_probe(pq, doc, gate_indices):
    """Calls TensorflowConnector.polar directly on the complex symplectic matrix of each listed gate;
    returns the largest |U U+ - 1| of the 'unitary' factor and the largest reconstruction error."""
    tf = backend("tf")
    conn = pq.TensorflowConnector()
    worst_u, worst_rec = 0.0, 0.0
    for i in gate_indices:
        P, A = _blocks_of(doc["ins"][i])
        S = np.block([[P, A], [A.conj(), P.conj()]])
        U, R = conn.polar(tf.constant(S), side="left")
        U, R = np.asarray(U), np.asarray(R)
        worst_u = max(worst_u, float(np.abs(U @ U.conj().T - np.eye(len(S))).max()))
        worst_rec = max(worst_rec, float(np.abs(R @ U - S).max()))
    return worst_u, worst_rec


def euler_probe(pq, doc, gate_indices, modes):
    """piquasso._math.decompositions.euler called directly, per connector, on the symplectic matrix of the listed gates:
    largest deviation of U_last [cosh D, -sinh D] U_first from the gate's (passive, active) blocks (the single-mode
    squeezer the steps apply has blocks cosh r, -sinh r)."""
    from piquasso._math.decompositions import euler

    out = {}
    for mode in modes:
        base = "numpy" if mode == "numpy" else ("tf" if mode.startswith("tf") else "jax")
        if base in out:
            continue
        conn = make_connector(pq, base, fix_polar=(base == "tf")) or pq.NumpyConnector()
        worst = 0.0
        for i in gate_indices:
            P, A = _blocks_of(doc["ins"][i])
            S = np.block([[P, A], [A.conj(), P.conj()]])
            if base == "tf":
                S = backend("tf").constant(S)
            elif base == "jax":
                S = backend("jax").numpy.asarray(S)
            try:
                Ul, D, Uf = [np.asarray(x) for x in euler(S, conn)]
            except Exception as e:
                out[base] = "raises %s" % type(e).__name__
                break
            D = np.real(D)
            worst = max(worst, float(np.abs(P - Ul @ np.diag(np.cosh(D)) @ Uf).max()),
                        float(np.abs(A + Ul @ np.diag(np.sinh(D)) @ Uf.conj()).max()))
        else:
            out[base] = worst
    return out


def phaseshifter_reference(pq, doc, angles):
    """sum_n p(n) exp(i phi.n) from the NumPy state's photon statistics at a large cutoff; (value, tail)."""
    from vf.gen import programs as G
    from piquasso._math.fock import get_fock_space_basis

    d = doc["d"]
    K = {1: 40, 2: 18, 3: 11}[d]
    doc2 = dict(doc)
    doc2["config"] = dict(doc["config"], cutoff=K)
    sim = build_sim(pq, doc2, None)
    state = sim.execute(G.build_program(pq, doc["ins"]), shots=1).state
    p = np.asarray(state.fock_probabilities, dtype=float)
    basis = np.asarray(get_fock_space_basis(d, K))
    val = complex(np.sum(p * np.exp(1j * basis @ np.asarray(angles, dtype=float))))
    return val, max(0.0, 1.0 - float(p.sum()))


def _jax_loop_hafnian_probe(pq, doc, extra, name):
    """Calls the JAX loop-hafnian kernel directly on the (A, b) of the JAX state for the occupation numbers whose
    probability is not finite. Returns (reduce_on, value) of the first non-finite kernel value, else None."""
    from vf.gen import programs as G
    from piquasso._math.fock import get_fock_space_basis
    from piquasso._math.jax.hafnian import loop_hafnian_with_reduction

    state = build_sim(pq, doc, make_connector(pq, "jax")).execute(G.build_program(pq, doc["ins"]), shots=1).state
    if name.startswith("fock_probabilities"):
        basis = np.asarray(get_fock_space_basis(doc["d"], doc["config"]["cutoff"]))
        p = np.asarray(state.fock_probabilities)
        occs = [basis[i] for i in np.where(~np.isfinite(p))[0]]
    else:
        occs = [np.asarray(extra["occ"])]
    calc = state._get_density_matrix_calculation()
    for occ in occs:
        reduce_on = np.concatenate([occ, occ])
        val = complex(loop_hafnian_with_reduction(calc._A, calc._b, reduce_on))
        if not np.isfinite(val):
            return [int(v) for v in reduce_on], val
    return None


def concrete_formula(pq, doc, angles):
    """The documented closed form Tr[rho R(phi)] = 2^d exp(-mu+ (Sigma + i D)^-1 mu) / (prod(1 - e^{i phi}) sqrt(det(Sigma + i D)))
    evaluated by the harness from the NumPy state's complex displacement / covariance, with D built by repeat(2)
    (as the concrete branch does) and by tile ([a.., a+..] ordering of Sigma). Principal square root in both."""
    from vf.gen import programs as G

    state = build_sim(pq, doc, None).execute(G.build_program(pq, doc["ins"]), shots=1).state
    mu = np.asarray(state.complex_displacement)
    cov = np.asarray(state.complex_covariance)
    angles = np.asarray(angles, dtype=float)
    nz = ~np.isclose(np.sin(angles / 2), 0.0)
    if not nz.any():
        return 1.0 + 0.0j, 1.0 + 0.0j
    d = doc["d"]
    keep = np.concatenate([np.where(nz)[0], np.where(nz)[0] + d])
    mu = mu[keep]
    cov = cov[np.ix_(keep, keep)]
    a = angles[nz]
    out = []
    for order in ("repeat", "tile"):
        cot = 1 / np.tan(a / 2)
        D = np.diag(cot.repeat(2) if order == "repeat" else np.tile(cot, 2))
        Mx = (cov + 1j * D) / 2
        with np.errstate(all="ignore"):
            val = np.exp(-(np.conj(mu) @ np.linalg.inv(Mx) @ mu) / 2) / (np.prod(1 - np.exp(1j * a)) * np.sqrt(np.linalg.det(Mx)))
        out.append(complex(val))
    return out[0], out[1]


# ------------------------------------------------------------------------------ the comparison
def compare_case(ctx, pq, case):
    """case = {"family", "doc", "modes": [...], "extra": {...}}"""
    from vf.gen import programs as G

    doc, modes, extra = case["doc"], case["modes"], case.get("extra", {})
    sim = doc["sim"]
    ctx.evals += 1
    ctx.c["programs"] += 1
    n_ins = len(doc["ins"])
    ambiguous, complex_gates = ([], [])
    if sim == "purefock":
        ambiguous, complex_gates = euler_profile(doc)
        if ambiguous:
            ctx.c["ambiguous_euler_programs"] += 1
        if complex_gates:
            ctx.c["complex_euler_gate_programs"] += 1
    for idoc in doc["ins"]:
        if idoc.get("m") and len(idoc["m"]) > 1 and list(idoc["m"]) != sorted(idoc["m"]):
            ctx.c["permuted_mode_gates"] += 1
        if idoc["t"] == "GaussianTransform" and len(idoc["m"]) > 1:
            s = np.linalg.svd(_blocks_of(idoc)[1], compute_uv=False)
            if np.min(np.abs(np.diff(np.sort(s)))) < 1e-9:
                ctx.c["degenerate_gaussian_transforms"] += 1
    if doc["ins"][0]["t"] in ("FockStateVector", "NumberState") and sim in ("purefock", "passive", "ffock"):
        ctx.c["phase_sensitive_inputs"] += 1

    ref = run_mode(pq, doc, "numpy", extra, ledger=ambiguous)
    ctx.count("runs_by_sim_mode", "%s/numpy" % sim)
    if "error" in ref:
        e = ref["error"]
        if _is_unsupported(e):
            ctx.c["unsupported"] += 1
            return
        # the NumPy run failing is not a statement about connectors: record, do not judge
        ctx.obs.add("numpy run raised %s at %s (case not judged)" % (type(e).__name__, _innermost_frame(e)))
        return
    robs = ref["obs"]
    size = max(int(np.asarray(v).size) for v in robs.values())
    compared_modes = []
    results = {"numpy": ref}
    deviating = {}
    polar_u = None
    if sim == "purefock" and complex_gates and any(m.startswith("tf") for m in modes):
        # direct probe of the TensorFlow polar shim on the symplectic matrix of every complex Euler gate of the program
        polar_u = polar_probe(pq, doc, complex_gates)
        ctx.c["polar_probes"] += 1
        if polar_u[0] > 1e-6:
            ctx.c["polar_nonunitary"] += 1
    for mode in modes:
        compiled = mode in ("jax-jit", "tf-function-outer")
        eager_ledger = bool(ambiguous) and not compiled
        if ambiguous and compiled:
            ctx.c["ambiguous_skipped_compiled"] += 1
            continue
        res = run_mode(pq, doc, mode, extra, ledger=ambiguous if eager_ledger else None)
        ctx.count("runs_by_sim_mode", "%s/%s" % (sim, mode))
        results[mode] = res
        if "error" in res:
            e = res["error"]
            if _is_unsupported(e):
                ctx.c["unsupported"] += 1
                ctx.obs.add("%s/%s: %s at %s" % (sim, mode, type(e).__name__, _innermost_frame(e)))
                continue
            if compiled and _is_tracer_error(e):
                ctx.c["jit_tracer_errors"] += 1
                ctx.obs.add("%s/%s cannot be traced: %s at %s" % (sim, mode, type(e).__name__, _innermost_frame(e)))
                continue
            ctx.viol("connector-raises:%s:%s:%s" % (sim, mode, type(e).__name__),
                     "%s with %s raised %s at %s while the NumPy connector ran the same program: %s" % (
                         sim, mode, type(e).__name__, _innermost_frame(e), str(e)[:300]), dict(case, failing_mode=mode))
            continue
        bound = 0.0
        if eager_ledger:
            if ref["b"] is None or res["b"] is None:
                ctx.obs.add("ledger unavailable for an ambiguous program on %s" % mode)
                continue
            bound = ref["b"] + res["b"]
            if not bound <= 0.05:
                ctx.c["ambiguous_trivial_bound"] += 1
                continue
            ctx.c["max_bound_ambiguous_class"] = max(ctx.c["max_bound_ambiguous_class"], bound)
        devs = _compare_obs(ctx, sim, mode, robs, res["obs"], size, n_ins, bound, compiled)
        compared_modes.append(mode)
        if devs:
            deviating[mode] = devs

    if deviating:
        _classify(ctx, pq, case, results, deviating, ambiguous, complex_gates, size, n_ins, polar_u)
    if compared_modes:
        pats = sorted({G.mode_pattern(i["m"]) for i in doc["ins"] if i.get("m")})
        ctx.classes.add("%s|d%d|c%s|%s|%s|%s|%s" % (sim, doc["d"], doc["config"].get("cutoff"), doc["ins"][0]["t"],
                                                  ",".join(sorted(i["t"] for i in doc["ins"][1:])), "/".join(pats), "+".join(compared_modes)))
        if len(ctx.samples) < 5:
            ctx.samples.append({"sim": sim, "d": doc["d"], "cutoff": doc["config"].get("cutoff"), "modes": compared_modes,
                                "program": [[i["t"], i.get("m")] for i in doc["ins"]], "ambiguous_euler": bool(ambiguous),
                                "observables": sorted(robs)})


def _compare_obs(ctx, sim, mode, robs, obs, size, n_ins, bound, compiled):
    """Returns list of (name, dev, tol, detail) of deviating observables."""
    out = []
    for name, a in robs.items():
        if name not in obs:
            continue
        b = obs[name]
        a = np.asarray(a)
        b = np.asarray(b)
        if a.shape != b.shape:
            out.append((name, float("inf"), 0.0, "shape %s vs %s" % (a.shape, b.shape)))
            continue
        if not np.all(np.isfinite(b.astype(complex))):
            out.append((name, float("inf"), 0.0, "non-finite entries"))
            continue
        scale = float(np.abs(a).max()) if a.size else 1.0
        tol = tolerance(size, n_ins, scale)
        if bound > 0.0:
            # non-unique Euler decomposition: |psi_a - psi_b| <= b_a + b_b; probabilities 2b + b^2 (C01-B).
            # Moments of unbounded operators have no useful bound of this kind and are not compared.
            if name in ("state_vector", "tensor_representation"):
                tol += bound
            elif name == "fock_probabilities":
                tol += 2 * bound + bound * bound
            else:
                continue
        dev = float(np.abs(a.astype(complex) - b.astype(complex)).max()) if a.size else 0.0
        ctx.c["comparisons"] += 1
        key = {"purefock": "purefock_tf_comparisons" if mode.startswith("tf") else "purefock_jax_comparisons", "gaussian": "gaussian_comparisons",
               "passive": "passive_comparisons", "ffock": "fermionic_comparisons", "fgaussian": "fermionic_comparisons"}[sim]
        ctx.c[key] += 1
        if compiled:
            ctx.c["compiled_mode_comparisons"] += 1
        if name == "state_vector":
            ctx.c["statevector_comparisons"] += 1
        if name == "phaseshifter_expectation":
            ctx.c["phaseshifter_comparisons"] += 1
        ctx.count("by_observable", "%s/%s" % (sim, name.split("[")[0]))
        if bound > 0.0:
            ctx.c["ambiguous_bounded_comparisons"] += 1
            if dev <= tol:
                ctx.c["max_dev_ambiguous_class"] = max(ctx.c["max_dev_ambiguous_class"], dev)
        if dev <= tol:
            ctx.c["max_dev_over_tol"] = max(ctx.c["max_dev_over_tol"], dev / tol)
            if bound == 0.0:
                ctx.c["max_dev_exact_class"] = max(ctx.c["max_dev_exact_class"], dev)
        else:
            idx = int(np.argmax(np.abs(a.astype(complex) - b.astype(complex))))
            out.append((name, dev, tol, "flat index %d: numpy %s vs %s" % (idx, a.ravel()[idx], b.ravel()[idx])))
    return out


def _classify(ctx, pq, case, results, deviating, ambiguous, complex_gates, size, n_ins, polar_u=None):
    doc, extra = case["doc"], case.get("extra", {})
    sim = doc["sim"]
    prog = [[i["t"], i.get("m")] for i in doc["ins"]]
    # ---- phase-shifter expectation value: concrete vs abstract code path
    pse_modes = [m for m, devs in deviating.items() if any(n == "phaseshifter_expectation" for n, *_ in devs)]
    if pse_modes:
        angles = np.asarray(extra["angles"], dtype=float)
        refval, tail = phaseshifter_reference(pq, doc, angles)
        ctx.c["phaseshifter_reference_checks"] += 1
        tol_ref = 2 * tail + tolerance(size, n_ins) + 1e-9
        v_np = complex(results["numpy"]["obs"]["phaseshifter_expectation"])
        v_rep, v_tile = concrete_formula(pq, doc, angles)
        head = "GaussianState.get_phaseshifter_expectation_value(%s), d=%d: concrete NumPy path %s; photon statistics (cutoff tail %.1e) %s; " % (
            [float(a) for a in angles], doc["d"], v_np, tail, refval)
        np_wrong = abs(v_np - refval) > tol_ref
        if np_wrong:
            # which defect(s) of the concrete path explain the NumPy value?
            mechs = []
            if v_tile is not None and abs(v_rep - v_np) <= tol_ref:
                if abs(v_tile - refval) <= tol_ref:
                    mechs = ["phaseshifter-expectation-concrete-branch-order"]
                elif abs(-v_tile - refval) <= tol_ref:
                    mechs = ["phaseshifter-expectation-concrete-sqrt-branch"]
                    if abs(v_tile - v_rep) > tol_ref:
                        mechs.append("phaseshifter-expectation-concrete-branch-order")
            if not mechs:
                mechs = ["phaseshifter-expectation-concrete-differs-from-photon-statistics"]
            for mech in mechs:
                ctx.viol(mech, head + "the documented formula re-evaluated by the harness with D = diag(cot(phi/2)).repeat(2) gives %s, with "
                               "the [a.., a+..] ordering (tile) %s; modes that disagree with NumPy: %s; program %s" % (
                                   v_rep, v_tile, {m: complex(results[m]["obs"]["phaseshifter_expectation"]) for m in pse_modes}, prog),
                         dict(case, failing_mode="numpy"))
        for m in pse_modes:
            v = complex(results[m]["obs"]["phaseshifter_expectation"])
            if abs(v - refval) > tol_ref:
                if np_wrong and m in ("jax",) and abs(v - v_np) <= tol_ref:
                    continue  # same concrete code path, already reported
                ctx.viol("phaseshifter-expectation-differs:%s" % m, head + "%s gives %s; program %s" % (m, v, prog), dict(case, failing_mode=m))
            elif not np_wrong and v_tile is not None and abs(v_rep - v_np) <= tolerance(size, n_ins) and \
                    abs(v_tile - v) <= tolerance(size, n_ins) and abs(v_tile - v_rep) > tolerance(size, n_ins):
                # the known ordering defect with an effect below the resolution of the photon-statistics reference (weakly
                # squeezed states): the library's value is the documented formula with the [c0, c0, c1, c1] ordering, the
                # other path equals the same formula with the [c0, c1, c0, c1] ordering, to rounding
                ctx.viol("phaseshifter-expectation-concrete-branch-order", head + "%s gives %s = the formula with the tile ordering %s; "
                         "the concrete path equals the formula with the repeat ordering %s; program %s" % (m, v, v_tile, v_rep, prog),
                         dict(case, failing_mode="numpy"))
            elif not np_wrong:
                # both within the reference tolerance of the photon statistics but further apart than rounding: the
                # reference cannot tell which one is off
                ctx.viol("phaseshifter-expectation-differs:%s" % m, head + "%s gives %s (both within the photon-statistics tolerance %.1e, "
                         "apart by more than rounding); program %s" % (m, v, tol_ref, prog), dict(case, failing_mode=m))
    # ---- everything else
    for m, devs in deviating.items():
        devs = [x for x in devs if x[0] != "phaseshifter_expectation"]
        if not devs:
            continue
        name, dev, tol, detail = max(devs, key=lambda x: x[1])
        mech = "%s-%s-differs:%s" % (sim, name.split("[")[0], m)
        note = ""
        if sim == "gaussian" and m.startswith("jax") and detail == "non-finite entries" and \
                name.split("[")[0] in ("fock_probabilities", "particle_detection_probability"):
            bad = _jax_loop_hafnian_probe(pq, doc, extra, name)
            if bad is not None:
                mech = "jax-loop-hafnian-non-finite"
                note = " [piquasso._math.jax.hafnian.loop_hafnian_with_reduction called directly on the state's (A, b) with reduce_on=%s returns %s]" % bad
        if sim == "purefock" and m.startswith("tf") and complex_gates and polar_u is not None:
            # (1) is the deviation entirely explained by TensorflowConnector.polar?
            if "jax" not in results:
                # TensorFlow shards run JAX only when it is needed to describe a deviation (do NumPy and JAX agree?)
                results["jax"] = run_mode(pq, doc, "jax", extra, ledger=ambiguous or None)
                ctx.count("runs_by_sim_mode", "%s/jax" % sim)
            jax_note = "JAX run failed"
            if "error" not in results["jax"]:
                bj = 0.0
                if ambiguous and results["jax"]["b"] is not None and results["numpy"]["b"] is not None:
                    bj = results["jax"]["b"] + results["numpy"]["b"]
                jax_dev = _compare_obs(Ctx(), sim, "jax", results["numpy"]["obs"], results["jax"]["obs"], size, n_ins, bj, False)
                jax_note = "NumPy and JAX %s" % ("differ as well" if jax_dev else "agree")
            nonunitary = polar_u[0] > 1e-6
            ctx.c["corrected_polar_reruns"] += 1
            compiled = m == "tf-function-outer"
            led = bool(ambiguous) and not compiled
            rer = run_mode(pq, doc, m, extra, fix_polar=True, ledger=ambiguous if led else None)
            agree = False
            if "error" not in rer:
                bound = 0.0
                if led and rer["b"] is not None and results["numpy"]["b"] is not None:
                    bound = rer["b"] + results["numpy"]["b"]
                agree = not _compare_obs(Ctx(), sim, m, results["numpy"]["obs"], rer["obs"], size, n_ins, bound, compiled)
            if agree:
                ctx.c["corrected_polar_agree"] += 1
            note += " [connector.polar on the gate's symplectic matrix: |U U+ - 1| = %.2e, |P U - M| = %.1e; with the textbook polar the %s run %s; %s]" % (
                polar_u[0], polar_u[1], m, "agrees with NumPy" if agree else "still differs", jax_note)
            if nonunitary and agree:
                mech = "tensorflow-polar-not-unitary"
        if sim == "purefock" and ambiguous and mech != "tensorflow-polar-not-unitary":
            # (2) a deviation beyond the leaked amplitude in a program with a degenerate gate: is the Euler decomposition of
            # that gate itself wrong? (TensorFlow probed with the textbook polar, so that only Takagi / SVD / Schur / logm count)
            rec = euler_probe(pq, doc, ambiguous, ["numpy", m])
            ctx.c["euler_probes"] += 1
            if any(isinstance(v, float) and v > 1e-8 for v in rec.values()):
                mech = "takagi-degenerate-branch-cut-connector-dependent"
            note += " [euler() called directly on the degenerate gate(s): recomposition error %s]" % rec
        ctx.viol(mech, "%s of %s differs between NumPy and %s: max |diff| = %.3e > tol %.3e (%s); %d observable(s) deviate: %s; program %s d=%d cutoff=%s%s" % (
            name, sim, m, dev, tol, detail, len(devs), sorted({x[0] for x in devs})[:6], prog, doc["d"], doc["config"].get("cutoff"), note),
            dict(case, failing_mode=m))


# ------------------------------------------------------------------------------ generators
def _distinct_r(rng, n, rmax, gap=0.03):
    while True:
        r = rng.uniform(-rmax, rmax, size=n)
        a = np.sort(np.abs(r))
        if n == 1 or float(np.min(np.diff(a))) > gap:
            return r


def _blocks(rng, n, r, real):
    from vf.gen import matrices as M

    if real:
        u1, u2 = M.haar_orthogonal(rng, n).astype(complex), M.haar_orthogonal(rng, n).astype(complex)
    else:
        u1, u2 = M.haar_unitary(rng, n), M.haar_unitary(rng, n)
    return u1 @ np.diag(np.cosh(r)) @ u2, u1 @ np.diag(np.sinh(r)) @ u2.conj()


def _purefock_gate(rng, name, d, cutoff, real_bias, ambiguous=False):
    """Exact-class gates have a unique Euler decomposition (distinct squeezing parameters); ambiguous=True
    produces Squeezing2 / degenerate GaussianTransform with small r (small ledger bound)."""
    from vf.gen import matrices as M
    from vf.gen import programs as G

    g = G.gate(rng, name, d, active_scale=0.25, disp_scale=0.4, cutoff=cutoff)
    if g is None:
        return None
    real = bool(rng.random() < real_bias)
    if name == "Squeezing2":
        g["p"]["r"] = float(rng.uniform(0.02, 0.06) * rng.choice([-1, 1]))
        g["p"]["phi"] = float(rng.choice([0.0, np.pi])) if real else float(rng.uniform(0.2, np.pi - 0.2) * rng.choice([-1, 1]))
    elif name == "Squeezing":
        g["p"]["r"] = float(rng.uniform(0.05, 0.25) * rng.choice([-1, 1]))
        if rng.random() < 0.8:
            g["p"]["phi"] = float(rng.uniform(0.2, np.pi - 0.2) * rng.choice([-1, 1]))
    elif name == "GaussianTransform":
        k = len(g["m"])
        if ambiguous:
            if k < 2:
                return None
            r = np.full(k, float(rng.uniform(0.02, 0.06) * rng.choice([-1, 1])))
            if k == 3 and rng.random() < 0.4:
                r[-1] = 0.0
        else:
            r = _distinct_r(rng, k, 0.25)
        P, A = _blocks(rng, k, r, real)
        g["p"] = {"passive": M.enc(P), "active": M.enc(A)}
    elif name == "QuadraticPhase":
        g["p"]["s"] = float(rng.uniform(0.05, 0.3) * rng.choice([-1, 1]))
    return g


def _prep(rng, d, cutoff, nmax=None, vacuum_p=0.2):
    from vf.gen import programs as G

    k = rng.random()
    nmax = min(3, cutoff - 1) if nmax is None else nmax
    if k < vacuum_p:
        return {"t": "Vacuum", "m": None, "p": {}}
    if k < vacuum_p + 0.3:
        return {"t": "NumberState", "m": None, "p": {"occupation_numbers": G.number_state(rng, d, nmax, bunched=rng.random() < 0.3)}}
    return G.superposition(rng, d, nmax, terms=int(rng.integers(2, 4)))[0]


PF_PASSIVE = ["Interferometer", "Interferometer", "Beamsplitter", "Beamsplitter5050", "Phaseshifter", "MachZehnder", "Fourier"]
PF_NONLINEAR = ["Kerr", "CrossKerr"]
PF_SINGLE_ACTIVE = ["Squeezing", "Squeezing", "CubicPhase", "Displacement", "PositionDisplacement", "MomentumDisplacement"]
PF_EULER = ["QuadraticPhase", "GaussianTransform", "GaussianTransform"]


def gen_purefock(rng, d, cutoff, real_bias, kind="exact", max_gates=5):
    """kind: 'exact' (unique Euler decompositions), 'ambiguous' (one or two Squeezing2 / degenerate GaussianTransform with
    small r among other gates), 'no-euler' (traceable by jax.jit / an outer tf.function)."""
    ins = []
    n = int(rng.integers(1, max_gates + 1))
    if kind == "ambiguous" and d >= 2:
        ins.append(_prep(rng, d, cutoff, nmax=min(2, cutoff - 1), vacuum_p=0.3))
        slots = set(int(x) for x in rng.permutation(max(n, 2))[: int(rng.integers(1, 3))])
        for j in range(max(n, 2)):
            if j in slots:
                g = _purefock_gate(rng, str(rng.choice(["Squeezing2", "Squeezing2", "GaussianTransform"])), d, cutoff, real_bias, ambiguous=True)
            else:
                g = _purefock_gate(rng, str(rng.choice(PF_PASSIVE + PF_NONLINEAR + PF_SINGLE_ACTIVE)), d, cutoff, real_bias)
            if g is not None:
                ins.append(g)
    else:
        ins.append(_prep(rng, d, cutoff))
        pool = PF_PASSIVE + PF_NONLINEAR + PF_SINGLE_ACTIVE + (PF_EULER if kind != "no-euler" else [])
        if kind == "no-euler":
            pool = [x for x in pool if x != "MachZehnder"] + ["Squeezing", "Kerr"]
        while len(ins) - 1 < n:
            g = _purefock_gate(rng, str(rng.choice(pool)), d, cutoff, real_bias)
            if g is not None:
                ins.append(g)
    doc = {"sim": "purefock", "d": d, "config": {"cutoff": cutoff, "hbar": float(rng.choice([1.0, 2.0]))}, "ins": ins, "shots": 1}
    extra = {"quad_mode": int(rng.integers(0, d)), "quad_phi": float(rng.choice([0.0, 0.3, np.pi / 2]))}
    return doc, extra


def _pse_angle(rng):
    k = rng.random()
    if k < 0.12:
        return 0.0
    if k < 0.3:
        return float(rng.choice([np.pi / 2, -np.pi / 2, np.pi, -np.pi]))
    while True:
        a = float(rng.uniform(-np.pi, np.pi))
        if abs(np.sin(a / 2)) > 0.05:
            return a


def gen_gaussian(rng, d, cutoff):
    from vf.gen import matrices as M
    from vf.gen import programs as G

    ins = [{"t": "Vacuum", "m": None, "p": {}}]
    pool = ["Interferometer", "Beamsplitter", "Phaseshifter", "MachZehnder", "Fourier", "Beamsplitter5050", "Squeezing", "Squeezing2",
            "QuadraticPhase", "GaussianTransform", "GaussianTransform", "ControlledX", "ControlledZ", "Displacement",
            "PositionDisplacement", "MomentumDisplacement"]
    for _ in range(int(rng.integers(1, 6))):
        name = str(rng.choice(pool))
        g = G.gate(rng, name, d, active_scale=0.3, disp_scale=0.4)
        if g is None:
            continue
        if name in ("Squeezing", "Squeezing2") and rng.random() < 0.8:
            g["p"]["phi"] = float(rng.uniform(0.2, np.pi - 0.2) * rng.choice([-1, 1]))
        if name == "GaussianTransform":
            P, A = M.symplectic_blocks(rng, len(g["m"]), rmax=0.3, degenerate=bool(rng.random() < 0.3))
            g["p"] = {"passive": M.enc(P), "active": M.enc(A)}
        ins.append(g)
    doc = {"sim": "gaussian", "d": d, "config": {"cutoff": cutoff, "hbar": float(rng.choice([1.0, 2.0, 0.37]))}, "ins": ins, "shots": 1}
    occ = G.number_state(rng, d, 3)
    extra = {"angles": [_pse_angle(rng) for _ in range(d)], "occ": occ, "quad_mode": int(rng.integers(0, d)),
             "quad_phi": float(rng.choice([0.0, 0.3, np.pi / 2]))}
    return doc, extra


def gen_passive(rng, d):
    from vf.gen import programs as G
    from piquasso._math.fock import get_fock_space_basis

    n = int(rng.integers(1, 5))
    occ = [0] * d
    for _ in range(n):
        occ[int(rng.integers(0, d))] += 1
    if rng.random() < 0.3 and n >= 2:
        occ = [0] * d
        occ[int(rng.integers(0, d))] = n
    ins = [{"t": "NumberState", "m": None, "p": {"occupation_numbers": occ}}]
    pool = list(G.PASSIVE_GATES) + ["Interferometer", "Kerr", "CrossKerr"]
    want = int(rng.integers(1, 6))
    while len(ins) - 1 < want:
        g = G.gate(rng, str(rng.choice(pool)), d)
        if g is not None:
            ins.append(g)
    doc = {"sim": "passive", "d": d, "config": {"cutoff": n + 1}, "ins": ins, "shots": 1}
    basis = np.asarray(get_fock_space_basis(d, n + 1))
    sub = basis[basis.sum(axis=1) == n]
    pick = rng.permutation(len(sub))[:3]
    occs = [[int(v) for v in sub[int(i)]] for i in pick]
    if n >= 1 and rng.random() < 0.3:
        occs.append([int(v) for v in basis[int(rng.integers(0, len(basis)))]])  # possibly a different particle number
    return doc, {"occs": occs}


def gen_fermionic(rng, sim, d):
    """Mostly >= 2 particles (the antisymmetric part of the n-particle representations only shows then) and Haar
    interferometers on runs of consecutive modes."""
    from vf.gen import matrices as M
    from vf.gen import programs as G

    n = int(rng.integers(2, d + 1)) if rng.random() < 0.75 else int(rng.integers(0, 2))
    occ = [0] * d
    for m in rng.permutation(d)[:n]:
        occ[int(m)] = 1
    ins = [{"t": "NumberState", "m": None, "p": {"occupation_numbers": occ}}]
    pool = ["Beamsplitter", "Phaseshifter", "Interferometer", "Interferometer", "Squeezing2"]
    if sim == "ffock":
        pool += ["MachZehnder", "Fourier", "Beamsplitter5050"]
    want = int(rng.integers(1, 6))
    while len(ins) - 1 < want:
        name = str(rng.choice(pool))
        g = G.gate(rng, name, d, active_scale=0.5)
        if g is None:
            continue
        k = len(g["m"])
        start = int(rng.integers(0, d - k + 1))
        g["m"] = list(range(start, start + k))
        if name == "Squeezing2":
            g["p"]["phi"] = float(rng.uniform(0.2, np.pi - 0.2) * rng.choice([-1, 1]))
        if name == "Interferometer" and rng.random() < 0.6:
            g["p"]["matrix"] = M.enc(M.haar_unitary(rng, k))
        ins.append(g)
    return {"sim": sim, "d": d, "config": {"cutoff": d + 1}, "ins": ins, "shots": 1}, {}


# ------------------------------------------------------------------------------ plan / run
SHAPES_PF = [[(3, 3), (3, 4), (3, 5), (3, 6)], [(2, 4), (2, 5), (2, 6), (2, 7)], [(1, 5), (1, 7), (2, 3), (1, 3), (3, 4), (2, 5)]]
SHAPES_G = [(1, 6), (2, 4), (2, 5), (3, 3), (3, 4), (1, 4), (2, 3)]

MIN_CASES = {"purefock-tf": 8, "purefock-jax": 14, "gaussian": 10, "passive": 60, "fermionic": 30}
ENV = {"OPENBLAS_NUM_THREADS": "1", "OMP_NUM_THREADS": "1", "NUMBA_NUM_THREADS": "2", "TF_NUM_INTRAOP_THREADS": "2",
       "TF_NUM_INTEROP_THREADS": "1", "XLA_FLAGS": "--xla_cpu_multi_thread_eigen=false"}


def plan(tier, seed):
    """Quick: total weight 16 (three TensorFlow-importing shards of weight 3 + 7 others)."""
    quick = tier == "quick"
    specs = []

    def add(family, n, weight=1, **kw):
        for g in range(n):
            i = len(specs)
            s = {"name": "%s-%d" % (family, i), "family": family, "shard": i, "group": g, "env": dict(ENV), "weight": weight}
            s.update(kw)
            specs.append(s)

    # budgets are CPU seconds of the shard process (coverage then does not depend on how busy the machine is);
    # a wall-clock cap keeps the shard below the watchdog
    cpu, wall = (150, 600) if quick else (700, 2400)
    # the same layout in both tiers (total weight 16 = one 16-core machine); thorough runs longer and on 3 shapes per shard
    add("purefock-tf", 3, weight=3, count=300 if quick else 3000, cpu=cpu, wall=wall)
    add("purefock-jax", 3, count=300 if quick else 3000, cpu=cpu, wall=wall)
    add("gaussian", 2, count=300 if quick else 3000, cpu=cpu, wall=wall)
    add("passive", 1, count=500 if quick else 4000, cpu=cpu * 0.8, wall=wall)
    add("fermionic", 1, count=300 if quick else 3000, cpu=cpu * 0.8, wall=wall)
    return specs


def _shapes_for(rng, shapes, k):
    idx = rng.permutation(len(shapes))[:k]
    return [shapes[int(j)] for j in idx]


def run_shard(spec):
    from vf import boot

    pq = boot.import_piquasso()
    rng = np.random.default_rng([int(spec["seed"]), 9, int(spec["shard"])])
    ctx = Ctx()
    fam = spec["family"]
    quick = spec["tier"] == "quick"
    t0 = time.time()
    if fam == "purefock-tf":
        backend("tf")
    else:
        backend("jax")
        count_perm_calls(ctx)
    t_import = time.time() - t0
    if t_import > 60:
        ctx.obs.add("backend import took more than 60 s in a %s shard (busy machine)" % fam)
    t0 = time.time()
    c0 = time.process_time()
    # every new (d, cutoff) costs JAX 5-30 s of one-off kernel compilation: few shapes per shard
    n_shapes = 1 if quick else 3
    if fam in ("purefock-tf", "purefock-jax"):
        # the k-th shard of a family draws from the k-th group, so that d = 3, d = 2 and the small shapes are all present
        shapes = _shapes_for(rng, SHAPES_PF[int(spec["group"]) % len(SHAPES_PF)], n_shapes)
    elif fam == "gaussian":
        shapes = _shapes_for(rng, SHAPES_G, n_shapes)
    else:
        shapes = None
    for i in range(int(spec["count"])):
        # a minimum number of programs per family runs whatever the CPU budget says (they reach every deciding counter
        # and keep the coverage independent of how busy the machine is); the wall-clock cap stays below the watchdog
        over_cpu = time.process_time() - c0 > float(spec["cpu"]) and i >= MIN_CASES[fam]
        if over_cpu or time.time() - t0 > float(spec["wall"]):
            ctx.obs.add("%s shard stopped by its time budget" % fam)
            break
        case = gen_case(rng, fam, i, shapes, quick)
        compare_case(ctx, pq, case)
    return {"evaluations": ctx.evals, "classes": sorted(ctx.classes), "violations": ctx.violations,
            "counters": ctx.c, "samples": ctx.samples, "observations": sorted(ctx.obs)[:25]}


def gen_case(rng, fam, i, shapes, quick):
    """Compiled modes on every k-th program only (each new program retraces)."""
    if fam == "purefock-tf":
        d, cutoff = shapes[i % len(shapes)]
        modes = ["tf"]
        kind = "ambiguous" if (i % 5 == 3 and d >= 2) else "exact"
        if i % 12 == 4:
            kind = "no-euler"
            modes.append("tf-function-outer")
        if i % 3 == 0:
            modes.append("tf-function")
        doc, extra = gen_purefock(rng, d, cutoff, real_bias=0.55, kind=kind, max_gates=3 if kind == "no-euler" else 4)
        if i == 0 and not any(x["t"] in EULER_GATES for x in doc["ins"]):
            # the first program of a TensorFlow shard always exercises the Euler / polar path with complex blocks
            doc["ins"].append(_purefock_gate(rng, "QuadraticPhase", d, cutoff, 0.0))
    elif fam == "purefock-jax":
        d, cutoff = shapes[i % len(shapes)]
        kind = "ambiguous" if (i % 5 == 3 and d >= 2) else "exact"
        modes = ["jax"]
        if i % 5 == 1:
            kind = "no-euler"
            modes.append("jax-jit")
        doc, extra = gen_purefock(rng, d, cutoff, real_bias=0.15, kind=kind)
    elif fam == "gaussian":
        d, cutoff = shapes[i % len(shapes)]
        doc, extra = gen_gaussian(rng, d, cutoff)
        modes = ["jax"]
        if i % 4 == 1:
            modes.append("jax-jit")
            extra["skip_probs"] = True
    elif fam == "passive":
        doc, extra = gen_passive(rng, int(rng.integers(1, 4)))
        modes = ["jax"] + (["jax-jit"] if i % 5 == 1 else [])
    elif fam == "fermionic":
        sim = "ffock" if i % 2 == 0 else "fgaussian"
        doc, extra = gen_fermionic(rng, sim, int(rng.integers(2, 5)))
        modes = ["jax"] + (["jax-jit"] if i % 5 == 1 else [])
    else:
        raise KeyError(fam)
    return {"family": fam, "doc": doc, "modes": modes, "extra": extra}


def replay(case):
    from vf import boot

    pq = boot.import_piquasso()
    ctx = Ctx()
    if any(m.startswith("tf") for m in case["modes"]):
        backend("tf")
    backend("jax")
    compare_case(ctx, pq, {k: v for k, v in case.items() if k != "failing_mode"})
    return ctx.violations
