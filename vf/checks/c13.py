"""C13 - invalid programs are rejected up front; valid ones are never refused.

Monitor: step counter + exception classifier on the step-hook event stream.
  rejection side : every single-rule mutant of a valid program must raise a PiquassoException,
                   return no Result, with 0 simulation steps entered;
  acceptance side: every valid program runs on every branch (shots=None where supported), for
                   every cutoff 1..6 and d 1..4, without raising.
"""

import copy
import time
import traceback

import numpy as np

ID = "C13"
LEVEL = "exploration"
TECHNIQUE = "runtime monitoring: step counter and exception classifier at the step hook; single-rule mutation of valid programs; all-branch execution (shots=None) across cutoffs"
DESIGN_REF = "DESIGN.md §4 C13"
LEVEL_TEXT = (
    "Valid programs are generated for all six simulators and executed with the step hook attached; each is then broken "
    "by exactly one rule violation at a random position and must be refused by a Piquasso exception before the hook "
    "sees a single simulation step. Valid programs are executed with shots=None (all outcome branches) and with shots, "
    "for cutoffs 1..6 and d 1..4, including gates after mid-circuit measurements; any exception other than an explicit "
    "NotImplementedCalculation is a refusal."
)
LEVEL_NOTE = (
    "Only the rules the property lists are mutated; rules it does not list (addressing an already measured mode, shots=True) "
    "are recorded, not judged. Branches after a post-selection of probability 0 are not outcomes the program can take and "
    "are excluded. Validity of generated programs is by construction of the generator (documented support of each simulator)."
)
RULE = (
    "cases = valid programs + one mutant per (program, mutation operator); non-trivial = the program/mutant reached the "
    "executor's entry (execute was called or construction raised); distinct_nontrivial = distinct (simulator, mutation "
    "operator, position class) for mutants and distinct structural classes (simulator, d, cutoff, instruction types) for "
    "valid programs."
)
ASSUMPTIONS = [
    "NotImplementedCalculation is the library's documented way of saying 'outside the support' and is not a refusal of a supported program",
    "a mutant rejected at construction time (Q(0,0), on_modes with wrong arity) is rejected up front",
]
REQUIRED = ["mutants_judged", "valid_programs_run", "hook_runs", "hook_steps", "branches_explored"]
WATCHDOG = {"quick": 900, "thorough": 5400}


class Ctx:
    def __init__(self):
        self.violations = []
        self.c = {k: 0 for k in REQUIRED}
        self.c.update({"mutants_rejected_at_construction": 0, "mutants_rejected_by_execute": 0, "not_implemented": 0,
                       "skipped_zero_probability_branch": 0, "mutation_not_applicable": 0, "by_operator": {}})
        self.classes = set()
        self.samples = []
        self.obs = set()
        self.evals = 0

    def viol(self, mech, msg, case):
        if len(self.violations) < 300:
            self.violations.append({"mechanism": mech, "message": msg[:800], "case": case})


class StepCounter:
    def __init__(self):
        self.steps = 0
        self.zero_norm = False

    def on_step_pre(self, run, idx, ins, state, shots):
        if run.depth == 0:
            self.steps += 1

    def on_step_post(self, run, idx, ins, state, shots, sub, exc):
        # a post-selection with probability 0 leaves nothing to evolve: later failures are out of scope
        if exc is None and type(ins).__name__ in ("PostSelectPhotons", "ImperfectPostSelectPhotons") and sub is not None:
            try:
                for b in sub:
                    st = b.state
                    if st is not None and hasattr(st, "norm") and abs(complex(st.norm)) < 1e-12:
                        self.zero_norm = True
            except Exception:
                pass


def _innermost_piquasso_frame(exc):
    tb = traceback.extract_tb(exc.__traceback__)
    for fr in reversed(tb):
        if "/piquasso/" in fr.filename:
            return "%s:%s" % (fr.filename.split("/piquasso/")[-1], fr.name)
    return "?"


# ------------------------------------------------------------------------- valid programs
def valid_program(rng, sim, d, cutoff):
    from vf.gen import programs as G
    from vf.gen import matrices as M

    cfg = {"cutoff": cutoff, "hbar": float(rng.choice([1.0, 2.0, 0.37]))}
    ins = []
    if sim in ("purefock", "fock"):
        if rng.random() < 0.5 and sim == "purefock" and cutoff > 1:
            occ = G.number_state(rng, d, cutoff - 1)
            ins.append({"t": "NumberState", "m": None, "p": {"occupation_numbers": occ}})
        else:
            ins.append({"t": "Vacuum", "m": None, "p": {}})
        pool = list(G.PASSIVE_GATES) + ["Squeezing", "Displacement", "Kerr", "CrossKerr", "QuadraticPhase",
                                        "PositionDisplacement", "MomentumDisplacement", "Squeezing2", "GaussianTransform",
                                        "CubicPhase", "SNAP", "Attenuator"]
        for _ in range(int(rng.integers(1, 6))):
            g = G.gate(rng, str(rng.choice(pool)), d, active_scale=0.2, disp_scale=0.3, cutoff=cutoff)
            if g is None:
                continue
            if g["t"] == "Attenuator" and sim == "purefock" and rng.random() < 0.5:
                continue  # kept in every second draw: everything after it fails on the unchanged tree (known finding)
            ins.append(g)
        shots = None
        r = rng.random()
        if r < 0.6:
            k = int(rng.integers(1, d + 1))
            ins.append({"t": "ParticleNumberMeasurement", "m": G.ordered_subset(rng, d, k) if sim == "purefock" or k == d else G.ordered_subset(rng, d, k), "p": {}})
        if sim == "purefock" and r < 0.3 and d >= 2:
            # gates after a mid-circuit measurement: post-measurement cutoffs down to 1 are reached
            meas = ins.pop()
            left = [m for m in range(d) if m not in meas["m"]]
            ins.append(meas)
            for _ in range(2):
                if not left:
                    break
                name = str(rng.choice(["Phaseshifter", "Beamsplitter", "Interferometer", "Kerr", "Fourier"]))
                g = G.gate(rng, name, len(left))
                if g is None:
                    continue
                g["m"] = [left[i] for i in g["m"]]
                ins.append(g)
        return {"sim": sim, "d": d, "config": cfg, "ins": ins, "shots": shots}
    if sim == "gaussian":
        cfg.pop("cutoff")
        cfg["cutoff"] = max(cutoff, 1)
        ins.append({"t": "Vacuum", "m": None, "p": {}})
        pool = list(G.PASSIVE_GATES) + list(G.ACTIVE_GATES) + list(G.DISPLACEMENTS)
        for _ in range(int(rng.integers(1, 6))):
            g = G.gate(rng, str(rng.choice(pool)), d, active_scale=0.3, disp_scale=0.5)
            if g is not None:
                ins.append(g)
        if rng.random() < 0.15:
            # a channel that is valid by the documented inequality Y + i*Omega >= i*X*Omega*X^T
            x = float(rng.choice([1.0, 0.8, 0.5, 1.2]))
            ins.append({"t": "DeterministicGaussianChannel", "m": [int(rng.integers(0, d))],
                        "p": {"X": M.enc(x * np.eye(2)), "Y": M.enc(abs(1 - x * x) * float(rng.choice([1.0, 1.5])) * np.eye(2))}})
        r = rng.random()
        shots = 3
        if r < 0.2:
            ins.append({"t": "ParticleNumberMeasurement", "m": G.ordered_subset(rng, d, int(rng.integers(1, d + 1))), "p": {}})
        elif r < 0.4:
            ins.append({"t": "ThresholdMeasurement", "m": G.ordered_subset(rng, d, int(rng.integers(1, d + 1))), "p": {}})
        elif r < 0.6:
            ins.append({"t": "HomodyneMeasurement", "m": G.ordered_subset(rng, d, int(rng.integers(1, d + 1))), "p": {"phi": G.angle(rng)}})
        elif r < 0.75:
            ins.append({"t": "HeterodyneMeasurement", "m": G.ordered_subset(rng, d, int(rng.integers(1, d + 1))), "p": {}})
        return {"sim": sim, "d": d, "config": cfg, "ins": ins, "shots": shots}
    if sim == "passive":
        n = int(rng.integers(0, 4))
        occ = G.number_state(rng, d, n)
        cfg = {"hbar": cfg["hbar"]}
        ins.append({"t": "NumberState", "m": None, "p": {"occupation_numbers": occ}})
        for _ in range(int(rng.integers(1, 6))):
            g = G.gate(rng, str(rng.choice(G.PASSIVE_GATES)), d)
            if g is not None:
                ins.append(g)
        r = rng.random()
        if r < 0.3:
            ins.append({"t": "Loss", "m": [int(rng.integers(0, d))], "p": {"transmissivity": float(rng.choice([0.0, 0.5, 0.9, 1.0]))}})
        elif r < 0.45:
            ins.append({"t": "UniformLoss", "m": None, "p": {"transmissivity": float(rng.choice([0.3, 0.9, 1.0]))}})
        elif r < 0.6:
            T, s = M.transmission_matrix(rng, d)
            ins.append({"t": "LossyInterferometer", "m": None, "p": {"matrix": M.enc(T)}})
        shots = None if rng.random() < 0.5 else 7
        k = int(rng.integers(1, d + 1))
        ins.append({"t": "ParticleNumberMeasurement", "m": G.ordered_subset(rng, d, k) if k < d else None, "p": {}})
        return {"sim": sim, "d": d, "config": cfg, "ins": ins, "shots": shots}
    if sim in ("ffock", "fgaussian"):
        occ = [int(v) for v in rng.integers(0, 2, size=d)]
        cfg = {"cutoff": d + 1}
        ins.append({"t": "NumberState", "m": None, "p": {"occupation_numbers": occ}})
        for _ in range(int(rng.integers(1, 5))):
            name = str(rng.choice(["Beamsplitter", "Phaseshifter", "Interferometer", "Squeezing2"]))
            g = G.gate(rng, name, d, active_scale=0.4)
            if g is None:
                continue
            k = len(g["m"])
            start = int(rng.integers(0, d - k + 1))
            g["m"] = list(range(start, start + k))
            ins.append(g)
        shots = None if sim == "ffock" else 5
        if rng.random() < 0.6:
            ins.append({"t": "ParticleNumberMeasurement", "m": None, "p": {}})
        return {"sim": sim, "d": d, "config": cfg, "ins": ins, "shots": shots}
    raise KeyError(sim)


def run_valid(ctx, pq, doc, origin):
    from vf.gen import programs as G
    from vf.monitors import stephook
    from piquasso.api.exceptions import NotImplementedCalculation

    hook = stephook.get().install()
    sc = hook.subscribe(StepCounter())
    ctx.evals += 1
    case = {"kind": "valid", "origin": origin, "doc": doc}
    try:
        try:
            sim, prog = G.build_adaptive(pq, doc)
        except Exception as e:
            ctx.viol("valid-program-construction-refused:%s:%s" % (doc["sim"], type(e).__name__),
                     "construction of a valid program raised %s: %s" % (type(e).__name__, e), case)
            return
        runs0 = hook.counters["runs"]
        try:
            res = sim.execute(prog, shots=doc.get("shots"))
            ctx.c["valid_programs_run"] += 1
            ctx.c["branches_explored"] += len(res.branches)
        except NotImplementedCalculation as e:
            ctx.c["not_implemented"] += 1
            ctx.obs.add("NotImplementedCalculation on %s: %s" % (doc["sim"], str(e)[:90]))
        except Exception as e:
            if sc.zero_norm:
                ctx.c["skipped_zero_probability_branch"] += 1
                return
            where = _innermost_piquasso_frame(e)
            mech = "valid-program-refused:%s:%s:%s" % (doc["sim"], type(e).__name__, where)
            if (doc["sim"] == "purefock" and isinstance(e, AttributeError) and "'FockState' object has no attribute" in str(e)
                    and any(x["t"] == "Attenuator" for x in doc["ins"][:-1])):
                # symptom of one known defect, whatever instruction happens to follow: the Attenuator turns the pure state
                # into a FockState and the pure-state steps of every later instruction fail on it
                mech = "valid-program-refused:purefock:instruction-after-attenuator"
            ctx.viol(mech,
                     "valid %s program (d=%d, cutoff=%s) raised %s at %s after %d steps: %s" % (
                         doc["sim"], doc["d"], doc["config"].get("cutoff"), type(e).__name__, where, sc.steps, str(e)[:200]),
                     case)
        ctx.c["hook_runs"] += hook.counters["runs"] - runs0
        ctx.c["hook_steps"] += sc.steps
        ctx.classes.add(G.class_key(doc, "|valid"))
        if len(ctx.samples) < 3:
            ctx.samples.append({"valid": [[i["t"], i.get("m")] for i in doc["ins"]], "sim": doc["sim"], "d": doc["d"], "cutoff": doc["config"].get("cutoff")})
    finally:
        hook.unsubscribe(sc)


# ------------------------------------------------------------------------- mutation operators
PREPARATION_TYPES = ("Vacuum", "NumberState", "StateVector", "DensityMatrix", "Mean", "Covariance", "Thermal", "FockStateVector",
                     "DistinguishableNumberState")


def _gate_positions(doc):
    return [i for i, x in enumerate(doc["ins"]) if x.get("m") and x["t"] not in ("NumberState", "FockStateVector", "Vacuum")]


def mutants_of(rng, doc):
    """(operator name, mutated document or ('call', kwargs)) pairs; one rule violated each."""
    from vf.gen import matrices as M
    from vf.gen import programs as G

    out = []
    d = doc["d"]
    sim = doc["sim"]
    pos = _gate_positions(doc)
    if pos:
        k = int(rng.choice(pos))
        for name, bad in (("mode-negative", -1), ("mode-equals-d", d), ("mode-beyond-d", d + 3)):
            m = copy.deepcopy(doc)
            j = int(rng.integers(0, len(m["ins"][k]["m"])))
            m["ins"][k]["m"][j] = bad
            out.append((name, m, {"position": k}))
        two = [i for i in pos if len(doc["ins"][i]["m"]) >= 2]
        if two:
            k2 = int(rng.choice(two))
            m = copy.deepcopy(doc)
            m["ins"][k2]["m"][1] = m["ins"][k2]["m"][0]
            out.append(("mode-repeated-on_modes", m, {"position": k2}))
            m = copy.deepcopy(doc)
            m["ins"][k2]["m"][1] = m["ins"][k2]["m"][0]
            m["ins"][k2]["via_Q"] = True
            out.append(("mode-repeated-Q", m, {"position": k2}))
        fixed = [i for i in pos if doc["ins"][i]["t"] in G.ARITY]
        if fixed:
            k3 = int(rng.choice(fixed))
            m = copy.deepcopy(doc)
            extra = [x for x in range(d) if x not in m["ins"][k3]["m"]]
            if rng.random() < 0.5 and len(m["ins"][k3]["m"]) > 1:
                m["ins"][k3]["m"] = m["ins"][k3]["m"][:-1]
            elif extra:
                m["ins"][k3]["m"] = m["ins"][k3]["m"] + extra[:1]
            else:
                m["ins"][k3]["m"] = m["ins"][k3]["m"] + [0] if False else m["ins"][k3]["m"][:-1] or m["ins"][k3]["m"]
            if len(m["ins"][k3]["m"]) != G.ARITY[doc["ins"][k3]["t"]] and m["ins"][k3]["m"]:
                out.append(("wrong-arity", m, {"position": k3}))
        # preparation after a gate
        m = copy.deepcopy(doc)
        prep = {"purefock": {"t": "Vacuum", "m": None, "p": {}}, "fock": {"t": "Vacuum", "m": None, "p": {}},
                "gaussian": {"t": "Vacuum", "m": None, "p": {}},
                "passive": {"t": "NumberState", "m": None, "p": {"occupation_numbers": [0] * d}},
                "ffock": {"t": "NumberState", "m": None, "p": {"occupation_numbers": [0] * d}},
                "fgaussian": {"t": "NumberState", "m": None, "p": {"occupation_numbers": [0] * d}}}[sim]
        m["ins"].insert(k + 1, prep)
        out.append(("preparation-after-gate", m, {"position": k + 1}))
        # preparation after a measurement, with no gate anywhere before it (the rule must not depend on a gate having
        # been seen: a seeded change that let only gates close the preparation phase was caught by one case in 5000)
        midm = {"purefock": ("ParticleNumberMeasurement", {}), "passive": ("ParticleNumberMeasurement", {}),
                "ffock": ("ParticleNumberMeasurement", {}), "gaussian": ("HomodyneMeasurement", {"phi": 0.0})}.get(sim)
        if midm is not None and d >= 2:
            preps = [copy.deepcopy(x) for x in doc["ins"] if x["t"] in PREPARATION_TYPES]
            if preps:
                m = copy.deepcopy(doc)
                m["ins"] = preps + [{"t": midm[0], "m": [int(rng.integers(0, d))], "p": dict(midm[1])}, copy.deepcopy(prep)]
                m["shots"] = 1 if sim == "gaussian" else m.get("shots")
                out.append(("preparation-after-measurement", m, {"position": len(preps) + 1}))
        # instruction the simulator does not support
        unsupported = {"purefock": ("ThresholdMeasurement", {}), "fock": ("Squeezing_unsupported", None), "gaussian": ("Kerr", {"xi": 0.1}),
                       "passive": ("Squeezing", {"r": 0.1, "phi": 0.0}), "ffock": ("Squeezing", {"r": 0.1, "phi": 0.0}),
                       "fgaussian": ("Kerr", {"xi": 0.1})}[sim]
        if unsupported[1] is not None:
            m = copy.deepcopy(doc)
            m["ins"].insert(k + 1 if not m["ins"][-1]["t"].endswith("Measurement") or k + 1 < len(m["ins"]) else k, {"t": unsupported[0], "m": [0], "p": unsupported[1]})
            out.append(("unsupported-instruction", m, {"position": k + 1}))
        # unsupported mid-circuit measurement
        mid = {"purefock": ("HomodyneMeasurement", {"phi": 0.0}), "fock": ("ParticleNumberMeasurement", {}),
               "gaussian": ("ParticleNumberMeasurement", {}), "passive": None, "ffock": None,
               "fgaussian": ("ParticleNumberMeasurement", {})}[sim]
        if mid is not None and k + 1 < len(doc["ins"]):
            m = copy.deepcopy(doc)
            # put the measurement right after gate k and keep a later gate on other modes
            m["ins"] = m["ins"][: k + 1] + [{"t": mid[0], "m": [0], "p": mid[1]}] + [x for x in m["ins"][k + 1:]]
            if not m["ins"][-1]["t"].endswith("Measurement") or len(m["ins"]) > k + 2:
                # ensure something follows the measurement
                if d >= 2:
                    m["ins"].append({"t": "Phaseshifter", "m": [1], "p": {"phi": 0.1}}) if not any(True for _ in m["ins"][k + 2:]) else None
                if len(m["ins"]) > k + 2:
                    out.append(("unsupported-mid-circuit-measurement", m, {"position": k + 1}))
    for bad in (0, -1, 2.5, "3"):
        m = copy.deepcopy(doc)
        m["shots"] = bad
        out.append(("shots-%s" % str(bad).replace(".", "_").replace("-", "neg"), m, {}))
    # shots=None with a measurement that does not support it
    nomeas = {"purefock": ("HomodyneMeasurement", {"phi": 0.0}), "fock": None, "gaussian": ("ParticleNumberMeasurement", {}),
              "passive": None, "ffock": None, "fgaussian": ("ParticleNumberMeasurement", {})}[sim]
    if nomeas is not None:
        m = copy.deepcopy(doc)
        m["ins"] = [x for x in m["ins"] if not x["t"].endswith("Measurement") and x["t"] != "PostSelectPhotons"]
        m["ins"].append({"t": nomeas[0], "m": [0], "p": nomeas[1]})
        m["shots"] = None
        out.append(("shots-none-unsupported", m, {}))
    # mismatching initial state
    m = copy.deepcopy(doc)
    m["initial_state"] = "other-class"
    out.append(("initial-state-other-class", m, {}))
    m = copy.deepcopy(doc)
    m["initial_state"] = "other-d"
    out.append(("initial-state-other-d", m, {}))
    # documented parameter errors, at a random position after at least one gate
    if pos:
        k = int(rng.choice(pos))
        if sim in ("purefock", "fock", "gaussian"):
            m = copy.deepcopy(doc)
            m["ins"].insert(k + 1, {"t": "GaussianTransform", "m": [0], "p": {"passive": M.enc(np.array([[1.2 + 0j]])), "active": M.enc(np.array([[0.3 + 0j]]))}})
            m["ins"] = _measurements_last(m["ins"])
            out.append(("param-non-symplectic-transform", m, {"position": k + 1}))
        if sim == "gaussian":
            m = copy.deepcopy(doc)
            adj = np.array([[0.0, 1.0], [0.5, 0.0]])
            if d >= 2:
                m["ins"].insert(k + 1, {"t": "Graph", "m": [0, 1], "p": {"adjacency_matrix": M.enc(adj)}})
                m["ins"] = _measurements_last(m["ins"])
                out.append(("param-graph-not-symmetric", m, {"position": k + 1}))
            m = copy.deepcopy(doc)
            m["ins"].insert(k + 1, {"t": "DeterministicGaussianChannel", "m": [0], "p": {"X": M.enc(np.eye(2) * 0.5), "Y": M.enc(-np.eye(2))}})
            m["ins"] = _measurements_last(m["ins"])
            out.append(("param-invalid-channel", m, {"position": k + 1}))
            m = copy.deepcopy(doc)
            m["ins"].insert(k + 1, {"t": "Attenuator", "m": [0], "p": {"theta": 0.3, "mean_thermal_excitation": -1.0}})
            m["ins"] = _measurements_last(m["ins"])
            out.append(("param-negative-thermal-excitation", m, {"position": k + 1}))
            m = copy.deepcopy(doc)
            m["ins"] = [x for x in m["ins"] if not x["t"].endswith("Measurement")]
            m["ins"].append({"t": "GeneraldyneMeasurement", "m": [0], "p": {"detection_covariance": M.enc(np.array([[1.0, 0.0], [0.0, -1.0]]))}})
            out.append(("param-invalid-detection-covariance", m, {"position": len(m["ins"]) - 1}))
        if sim == "passive":
            m = copy.deepcopy(doc)
            bad = M.haar_unitary(rng, d) * 1.5
            m["ins"].insert(k + 1, {"t": "LossyInterferometer", "m": None, "p": {"matrix": M.enc(bad)}})
            m["ins"] = _measurements_last(m["ins"])
            out.append(("param-singular-values-above-one", m, {"position": k + 1}))
    # the same documented-parameter errors on *conditioned* instructions (after a mid-circuit
    # measurement): the parameters are concrete, so the rejection must still come up front,
    # whether the condition holds on every branch, on some, or on none
    extra = []
    for op, mdoc, meta in out:
        if not op.startswith("param-") or "position" not in meta:
            continue
        k = meta["position"]
        if k >= len(mdoc["ins"]) or mdoc["ins"][k]["t"].endswith("Measurement"):
            continue
        if not any(x["t"].endswith("Measurement") for x in mdoc["ins"][:k]):
            continue
        for cname, cond in (("always", "x[0] >= 0"), ("never", "x[0] > 99"), ("some", "x[0] == 1")):
            m = copy.deepcopy(mdoc)
            m["ins"][k]["when"] = cond
            extra.append((op + "-conditioned-" + cname, m, dict(meta)))
    out.extend(extra)
    return out


def _measurements_last(ins):
    meas = [x for x in ins if x["t"].endswith("Measurement") or x["t"] == "PostSelectPhotons"]
    if not meas:
        return ins
    # keep program order but make sure the inserted instruction is not after a terminal measurement
    last = meas[-1]
    rest = [x for x in ins if x is not last]
    return rest + [last]


def judge_mutant(ctx, pq, op, doc, meta):
    from vf.gen import programs as G
    from vf.monitors import stephook
    from piquasso.api.exceptions import PiquassoException

    hook = stephook.get().install()
    ctx.evals += 1
    case = {"kind": "mutant", "operator": op, "doc": doc, "meta": meta}
    byop = ctx.c["by_operator"]
    # --- construction
    try:
        sim, prog = _build_mutant(pq, doc)
    except PiquassoException:
        ctx.c["mutants_judged"] += 1
        ctx.c["mutants_rejected_at_construction"] += 1
        byop[op] = byop.get(op, 0) + 1
        ctx.classes.add("mutant:%s:%s:construction" % (doc["sim"], op))
        return
    except Exception as e:
        ctx.c["mutants_judged"] += 1
        ctx.viol("mutant-foreign-exception:%s:%s" % (op, type(e).__name__),
                 "constructing a %s mutant raised %s (not a Piquasso exception): %s" % (op, type(e).__name__, str(e)[:200]), case)
        return
    init = None
    if doc.get("initial_state") == "other-class":
        other = pq.GaussianSimulator if doc["sim"] != "gaussian" else pq.PureFockSimulator
        init = other(d=doc["d"]).create_initial_state()
    elif doc.get("initial_state") == "other-d":
        init = type(sim)(d=doc["d"] + 1, config=sim.config).create_initial_state()
    sc = hook.subscribe(StepCounter())
    try:
        runs0 = hook.counters["runs"]
        try:
            res = sim.execute(prog, shots=doc.get("shots"), initial_state=init)
            outcome = ("returned", None)
        except PiquassoException as e:
            outcome = ("piquasso", e)
        except Exception as e:
            outcome = ("foreign", e)
        ctx.c["mutants_judged"] += 1
        ctx.c["hook_runs"] += hook.counters["runs"] - runs0
        byop[op] = byop.get(op, 0) + 1
        posclass = "first" if meta.get("position", 0) <= 1 else "later"
        ctx.classes.add("mutant:%s:%s:%s" % (doc["sim"], op, posclass))
        if outcome[0] == "returned":
            ctx.viol("mutant-accepted:%s" % op, "%s mutant on %s was executed and returned a Result (%d steps ran)" % (op, doc["sim"], sc.steps), case)
        elif outcome[0] == "foreign":
            e = outcome[1]
            ctx.viol("mutant-foreign-exception:%s:%s" % (op, type(e).__name__),
                     "%s mutant on %s raised %s (not a Piquasso exception) at %s after %d steps: %s" % (
                         op, doc["sim"], type(e).__name__, _innermost_piquasso_frame(e), sc.steps, str(e)[:200]), case)
        else:
            ctx.c["mutants_rejected_by_execute"] += 1
            if sc.steps > 0:
                ctx.viol("mutant-rejected-after-evolution:%s" % op,
                         "%s mutant on %s raised %s only after %d simulation step(s) had run" % (op, doc["sim"], type(outcome[1]).__name__, sc.steps), case)
        if len(ctx.samples) < 6 and outcome[0] == "piquasso":
            ctx.samples.append({"operator": op, "sim": doc["sim"], "exception": type(outcome[1]).__name__, "steps_before": sc.steps})
    finally:
        hook.unsubscribe(sc)


def _build_mutant(pq, doc):
    from vf.gen import programs as G

    simcls = G.SIMS[doc["sim"]](pq)
    sim = simcls(d=doc["d"], config=G.build_config(pq, doc.get("config")))
    if any(i.get("via_Q") for i in doc["ins"]):
        with pq.Program() as prog:
            for idoc in doc["ins"]:
                ins = G.build_instruction_adaptive(pq, idoc)
                if idoc.get("m") is None:
                    pq.Q() | ins
                else:
                    pq.Q(*idoc["m"]) | ins
        return sim, prog
    return sim, G.build_program_adaptive(pq, doc["ins"])


# ------------------------------------------------------------------------- plan / run
ALL_SIMS = ["purefock", "fock", "gaussian", "passive", "ffock", "fgaussian"]


def plan(tier, seed):
    n = 14 if tier == "quick" else 16
    return [{"name": "s%d" % i, "shard": i, "programs": 40 if tier == "quick" else 400} for i in range(n)]


def run_shard(spec):
    from vf import boot

    pq = boot.import_piquasso()
    from vf.gen import programs as G

    rng = np.random.default_rng([int(spec["seed"]), 13, int(spec["shard"])])
    ctx = Ctx()
    t0 = time.time()
    budget = 150 if spec["tier"] == "quick" else 1200
    for i in range(int(spec["programs"])):
        if time.time() - t0 > budget:
            ctx.obs.add("shard stopped by time budget")
            break
        sim = ALL_SIMS[(i + int(spec["shard"])) % len(ALL_SIMS)]
        d = int(rng.integers(1, 5))
        cutoff = int(rng.integers(1, 7))
        if sim in ("ffock", "fgaussian") and d < 2:
            d = 2
        doc = valid_program(rng, sim, d, cutoff)
        run_valid(ctx, pq, doc, "valid_program")
        if sim in ("purefock", "passive", "gaussian", "ffock") and i % 3 == 0:
            ad = G.adaptive_program(rng, sim=sim, shots=None if sim != "gaussian" else 4,
                                    tight_cutoff=bool(rng.random() < 0.5))
            run_valid(ctx, pq, ad, "adaptive_program")
        muts = mutants_of(rng, doc)
        if sim in ("purefock", "gaussian", "passive") and i % 2 == 0:
            # adaptive programs as mutation bases: conditioned / post-measurement positions
            ad = G.adaptive_program(rng, sim=sim, shots=None if sim != "gaussian" else 4, postselect=False)
            muts = muts + [(op, m, meta) for op, m, meta in mutants_of(rng, ad) if op.startswith("param-")]
        # quick: a random half of the operators per program; thorough: all
        if spec["tier"] == "quick":
            idx = rng.permutation(len(muts))[: max(6, len(muts) // 2)]
            muts = [muts[int(j)] for j in idx]
        for op, mdoc, meta in muts:
            judge_mutant(ctx, pq, op, mdoc, meta)
    return {"evaluations": ctx.evals, "classes": sorted(ctx.classes), "violations": ctx.violations,
            "counters": ctx.c, "samples": ctx.samples, "observations": sorted(ctx.obs)[:25]}


def replay(case):
    from vf import boot

    pq = boot.import_piquasso()
    ctx = Ctx()
    if case.get("kind") == "valid":
        run_valid(ctx, pq, case["doc"], case.get("origin", "replay"))
    else:
        judge_mutant(ctx, pq, case["operator"], case["doc"], case.get("meta", {}))
    return ctx.violations
