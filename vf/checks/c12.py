"""C12 - execution never modifies what the caller passed in, even on failure.

Monitors: deep fingerprints of caller-owned objects (vf/monitors/fingerprint.py) taken before
and after every call; sys.monitoring LINE failpoints (vf/monitors/failpoints.py) raising an
exception at every (line, hit) of the executor / instruction / step code recorded in a clean
run; step-hook faults before and after every simulation step; genuine failures.
Oracle: fingerprint equality after return *and* after raise; equality of re-execution.
"""

import time
import traceback

import numpy as np

ID = "C12"
LEVEL = "fault_enumeration"
TECHNIQUE = "runtime monitoring with fault injection: deep fingerprints of caller-owned objects around every call; sys.monitoring line-level failpoints at every (line, hit) of the executor; re-execution equality"
DESIGN_REF = "DESIGN.md §4 C12"
LEVEL_TEXT = (
    "For each generated adaptive program the clean run records every executed (function, line, hit) of the executor, "
    "the instruction methods and the simulation steps; one faulted run per recorded point raises an exception exactly "
    "there. After every return and every raise the Program, instruction modes/params/conditions, initial_state, Config "
    "and array arguments must be bit-identical, and a clean re-execution must reproduce the first result. Kernel and "
    "connector matrix functions are checked for input immutability on contiguous, strided and read-only arrays."
)
LEVEL_NOTE = (
    "Crash points are the Python lines the clean run executes in api/simulator.py, api/instruction.py, api/program.py, "
    "the instruction _validate methods and the simulation-step modules; lines inside `finally:` bodies (the restoration "
    "itself) are not injection points. Faults are Python exceptions, not process kills. The RNG stream position of the "
    "user's Config is shared with the simulator on purpose and is recorded as an observation."
)
RULE = (
    "cases = (program, crash point) pairs, plus (program, API call) pairs and (kernel, array layout) pairs; a case is "
    "non-trivial when the monitored call actually ran with a fingerprinted caller object (for faulted runs: the injected "
    "exception was raised and reached the caller). distinct_nontrivial = distinct (simulator, function, line) crash "
    "points + distinct (API, simulator) + distinct (kernel, layout) classes."
)
ASSUMPTIONS = [
    "fingerprints cover: Program.instructions (identity and order), each instruction's modes, params (deep, arrays by bytes), condition, unresolved-parameter names; initial_state and Config attributes (deep); ndarray arguments",
    "re-execution equality is judged with shots=None or measurement-free programs (sampling with a reused simulator legitimately advances its RNG)",
]
REQUIRED = ["faults_injected", "faults_reached_caller", "fingerprint_comparisons", "reexecutions_compared",
            "kernel_calls", "api_calls", "genuine_failures"]
WATCHDOG = {"quick": 900, "thorough": 5400}


class Ctx:
    def __init__(self):
        self.violations = []
        self.c = {k: 0 for k in REQUIRED}
        self.c.update({"programs": 0, "line_points_recorded": 0, "skipped_cleanup_lines": 0, "step_faults": 0,
                       "clean_runs_raising": 0, "rng_position_changed": 0, "readonly_rejected": 0})
        self.classes = set()
        self.samples = []
        self.obs = set()
        self.evals = 0

    def viol(self, mech, msg, case):
        if len(self.violations) < 300:
            self.violations.append({"mechanism": mech, "message": msg[:700], "case": case})


# ---------------------------------------------------------------------------- helpers
def result_digest(res):
    """Comparable summary of a Result (branch outcomes, frequencies, state contents)."""
    from vf.monitors import fingerprint as F

    out = []
    for b in res.branches:
        st = b.state
        sd = None
        if st is not None:
            d = {k: v for k, v in vars(st).items() if k not in ("_config", "_connector", "_space")}
            sd = F.fp(d)
        out.append([list(map(float, b.outcome)), str(b.frequency) if not isinstance(b.frequency, float) else float(b.frequency).hex(), sd])
    return out


def _mech_for_paths(paths, when):
    p = " ".join(paths)
    if "modes" in p:
        what = "modes"
    elif "params" in p or "param_order" in p:
        what = "params"
    elif "condition" in p:
        what = "condition"
    elif "ids" in p or "/n" in p:
        what = "instruction-list"
    else:
        what = "other"
    return "program-%s-modified-%s" % (what, when)


class Subject:
    """One program with its caller-owned objects and their fingerprints."""

    def __init__(self, pq, doc, with_initial_state=False):
        from vf.gen import programs as G
        from vf.monitors import fingerprint as F

        self.F = F
        self.pq = pq
        self.doc = doc
        self.user_config = G.build_config(pq, doc.get("config"))
        simcls = G.SIMS[doc["sim"]](pq)
        self.sim = simcls(d=doc["d"], config=self.user_config)
        self.program = G.build_program_adaptive(pq, doc["ins"])
        self.initial_state = None
        if with_initial_state:
            # a non-trivial initial state: the state after the program's preparations
            prep = [i for i in doc["ins"] if i["t"] in ("NumberState", "FockStateVector", "Vacuum")]
            rest = [i for i in doc["ins"] if i not in prep]
            if prep and rest:
                s0 = simcls(d=doc["d"], config=self.user_config)
                self.initial_state = s0.execute(G.build_program_adaptive(pq, prep), shots=1).state
                self.program = G.build_program_adaptive(pq, rest)
        self.shots = doc.get("shots")
        self.snapshot()

    def snapshot(self):
        F = self.F
        self.fp_program = F.program_view(self.program)
        self.fp_config = F.fp(self.user_config)
        self.fp_state = F.fp(self.initial_state) if self.initial_state is not None else None
        self.rng_state = repr(self.user_config.rng.bit_generator.state)

    def run(self):
        return self.sim.execute(self.program, shots=self.shots, initial_state=self.initial_state)

    def compare(self, ctx, when, case):
        F = self.F
        ctx.c["fingerprint_comparisons"] += 1
        ok = True
        dp = F.diff(self.fp_program, F.program_view(self.program))
        if dp:
            ok = False
            ctx.viol(_mech_for_paths(dp, when), "%s: program differs at %s" % (case.get("what", ""), dp[:6]), case)
        dc = F.diff(self.fp_config, F.fp(self.user_config))
        if dc:
            ok = False
            ctx.viol("config-modified-%s" % when, "user Config differs at %s" % dc[:6], case)
        if self.initial_state is not None:
            ds = F.diff(self.fp_state, F.fp(self.initial_state))
            if ds:
                ok = False
                ctx.viol("initial-state-modified-%s" % when, "initial_state differs at %s" % ds[:6], case)
        if repr(self.user_config.rng.bit_generator.state) != self.rng_state:
            ctx.c["rng_position_changed"] += 1
            self.rng_state = repr(self.user_config.rng.bit_generator.state)
        return ok

    def restore(self):
        """Rebuild after a detected modification so that later cases start from a clean subject."""
        self.__init__(self.pq, self.doc, with_initial_state=self.initial_state is not None)


def fault_codes(pq, sim):
    """Code objects in which line faults are injected."""
    from vf.monitors import failpoints as FP
    import piquasso.api.simulator as S
    import piquasso.api.instruction as I
    import piquasso.api.program as P
    import importlib
    import inspect

    objs = [S.Simulator, I.Instruction, P.Program]
    # instruction classes (their _validate / computed-parameter methods)
    for name in ("piquasso.instructions.gates", "piquasso.instructions.preparations",
                 "piquasso.instructions.measurements", "piquasso.instructions.channels"):
        m = importlib.import_module(name)
        for v in vars(m).values():
            if isinstance(v, type) and issubclass(v, I.Instruction) and v.__module__ == name:
                objs.append(v)
    # the simulation steps of this simulator (python-level functions only)
    for step in set(sim._instruction_map.values()):
        f = inspect.unwrap(step)
        if hasattr(f, "__code__"):
            objs.append(f)
    return FP.code_objects_of(*objs)


def enumerate_faults(ctx, pq, doc, budget_s, max_points, with_initial_state, stride=1):
    from vf.monitors import failpoints as FP
    from vf.monitors import stephook

    t0 = time.time()
    subj = Subject(pq, doc, with_initial_state)
    ctx.c["programs"] += 1
    base_case = {"kind": "fault", "doc": doc, "with_initial_state": with_initial_state}
    codes = fault_codes(pq, subj.sim)
    lf = FP.LineFaults(codes)

    # clean run under the recorder
    try:
        (res0, hits) = lf.record(subj.run)
        clean_exc = None
    except Exception as e:  # the program itself fails: still a C12 case (state after raise)
        res0, hits, clean_exc = None, list(lf.hits), e
        ctx.c["clean_runs_raising"] += 1
    ctx.c["line_points_recorded"] += len(hits)
    ctx.c["skipped_cleanup_lines"] += lf.skipped_cleanup
    ctx.evals += 1
    if not subj.compare(ctx, "after-raise" if clean_exc is not None else "after-success",
                        dict(base_case, what="clean run (%s)" % (type(clean_exc).__name__ if clean_exc else "returns"))):
        subj.restore()
    digest0 = result_digest(res0) if res0 is not None else None
    deterministic = doc.get("shots") is None or not any(i["t"].endswith("Measurement") for i in doc["ins"])

    # repeated executions on the same objects
    if digest0 is not None and deterministic:
        for rep in range(2):
            ctx.evals += 1
            r = subj.run()
            ctx.c["reexecutions_compared"] += 1
            if result_digest(r) != digest0:
                ctx.viol("reexecution-differs", "execution #%d of the same objects gives a different result" % (rep + 2),
                         dict(base_case, what="re-execution"))
            subj.compare(ctx, "after-success", dict(base_case, what="re-execution %d" % (rep + 2)))

    # line faults
    stride = max(stride, -(-len(hits) // max_points))  # spread the budget over the whole run
    offset = int(doc.get("_offset", 0)) % stride
    points = list(range(offset, len(hits), stride))[:max_points]
    for k in points:
        if time.time() - t0 > budget_s:
            ctx.obs.add("fault enumeration of a program stopped by its time budget")
            break
        ctx.evals += 1
        res, exc, fired = lf.inject(subj.run, k)
        if fired is None:
            continue  # non-deterministic path: the k-th hit did not occur
        ctx.c["faults_injected"] += 1
        if exc is not None:
            ctx.c["faults_reached_caller"] += 1
        case = dict(base_case, what="fault at %s:%d (hit %d) -> %s" % (fired[0], fired[1], k, type(exc).__name__ if exc else "swallowed"),
                    point=k, fired=list(fired))
        ctx.classes.add("fault:%s:%s:%d" % (doc["sim"], fired[0], fired[1]))
        ok = subj.compare(ctx, "after-raise", case)
        if ok and digest0 is not None and deterministic and (k % 5 == 0):
            try:
                r = subj.run()
                ctx.c["reexecutions_compared"] += 1
                if result_digest(r) != digest0:
                    ctx.viol("reexecution-differs-after-fault", "clean re-execution after %s differs from the first result" % case["what"], case)
            except Exception as e:
                ctx.viol("reexecution-raises-after-fault", "clean re-execution after %s raised %s: %s" % (case["what"], type(e).__name__, e), case)
            subj.compare(ctx, "after-success", dict(case, what="re-execution after fault"))
        if not ok:
            subj.restore()

    # step faults: exception on entry to / exit from the n-th simulation step
    hook = stephook.get().install()

    class StepFault:
        def __init__(self):
            self.n = -1
            self.target = None
            self.phase = "pre"

        def on_step_pre(self, run, idx, ins, state, shots):
            if self.phase == "pre":
                self.n += 1
                if self.n == self.target:
                    raise FP.InjectedFault("step fault (entry) at step %d" % self.n)

        def on_step_post(self, run, idx, ins, state, shots, sub, exc):
            if self.phase == "post" and exc is None:
                self.n += 1
                if self.n == self.target:
                    raise FP.InjectedFault("step fault (exit) at step %d" % self.n)

    sf = hook.subscribe(StepFault())
    try:
        sf.target = None
        sf.n = -1
        try:
            subj.run()
        except Exception:
            pass
        nsteps = sf.n + 1
        for phase in ("pre", "post"):
            for t in range(min(nsteps, 40)):
                sf.phase, sf.target, sf.n = phase, t, -1
                ctx.evals += 1
                try:
                    subj.run()
                    raised = False
                except FP.InjectedFault:
                    raised = True
                except Exception:
                    raised = True
                if raised:
                    ctx.c["step_faults"] += 1
                    ctx.c["faults_injected"] += 1
                    ctx.c["faults_reached_caller"] += 1
                case = dict(base_case, what="step fault %s step %d" % (phase, t), step=t, phase=phase)
                ctx.classes.add("stepfault:%s:%s" % (doc["sim"], phase))
                if not subj.compare(ctx, "after-raise", case):
                    subj.restore()
    finally:
        hook.unsubscribe(sf)
    if len(ctx.samples) < 4:
        ctx.samples.append({"sim": doc["sim"], "instructions": [[i["t"], i.get("m"), i.get("when")] for i in doc["ins"]],
                            "line_points": len(hits), "first_points": [list(h) for h in hits[:5]]})


# ---------------------------------------------------------------------------- genuine failures
def genuine_failures(ctx, pq, rng, doc):
    """Programs that fail by themselves at position k: wrong-size interferometer, invalid
    parameter, condition / parameter expression that raises on some branch."""
    from vf.gen import matrices as M
    import copy

    variants = []
    ins = doc["ins"]
    gate_pos = [i for i, x in enumerate(ins) if x["t"] not in ("NumberState", "FockStateVector", "Vacuum") and not x["t"].endswith("Measurement") and x["t"] != "PostSelectPhotons"]
    if not gate_pos:
        return
    k = int(rng.choice(gate_pos))
    d2 = copy.deepcopy(doc)
    d2["ins"][k] = {"t": "Interferometer", "m": ins[k]["m"] if ins[k]["m"] else [0], "p": {"matrix": M.enc(M.haar_unitary(rng, len(ins[k]["m"] or [0]) + 1))}}
    variants.append(("wrong-size-interferometer", d2))
    if doc["sim"] in ("purefock", "gaussian"):
        d3 = copy.deepcopy(doc)
        m0 = ins[k]["m"][:1] if ins[k]["m"] else [0]
        d3["ins"][k] = {"t": "GaussianTransform", "m": m0, "p": {"passive": M.enc(np.array([[1.3 + 0j]])), "active": M.enc(np.array([[0.1 + 0j]]))}}
        variants.append(("non-symplectic-transform", d3))
    d4 = copy.deepcopy(doc)
    d4["ins"][k]["when"] = "x[7] == 1"
    d4["ins"][k].pop("when_call", None)
    variants.append(("condition-raises", d4))
    d5 = copy.deepcopy(doc)
    d5["ins"][k] = {"t": "Phaseshifter", "m": (ins[k]["m"] or [0])[:1], "p": {"phi": "1 / (x[0] - x[0])"}}
    variants.append(("parameter-expression-raises", d5))
    # two outcome-dependent parameters on one instruction, the later one failing on some branch
    if any(x["t"].endswith("Measurement") for x in ins[:k]):
        d6 = copy.deepcopy(doc)
        m2 = (ins[k]["m"] or [0, 1])[:2]
        if len(m2) == 2:
            d6["ins"][k] = {"t": "Beamsplitter", "m": m2, "p": {"theta": "0.1 + x[0] * 0.2", "phi": "1 / (x[0] - x[0])"}}
            variants.append(("second-parameter-expression-raises", d6))
        d7 = copy.deepcopy(doc)
        d7["ins"][k] = {"t": "Squeezing" if doc["sim"] in ("purefock", "gaussian") else "Phaseshifter", "m": (ins[k]["m"] or [0])[:1],
                        "p": ({"r": {"__call__": "half_first"}, "phi": "x[x[0] + 7]"} if doc["sim"] in ("purefock", "gaussian") else {"phi": "x[x[0] + 7]"})}
        variants.append(("later-parameter-raises-after-callable", d7))
    for name, dv in variants:
        try:
            subj = Subject(pq, dv)
        except Exception as e:
            ctx.obs.add("variant %s rejected at construction: %s" % (name, type(e).__name__))
            continue
        ctx.evals += 1
        try:
            subj.run()
            raised = None
        except Exception as e:
            raised = e
        if raised is not None:
            ctx.c["genuine_failures"] += 1
            ctx.classes.add("genuine:%s:%s" % (doc["sim"], name))
        case = {"kind": "genuine", "variant": name, "doc": dv, "what": "%s -> %s" % (name, type(raised).__name__ if raised else "returns")}
        subj.compare(ctx, "after-raise" if raised is not None else "after-success", case)


# ---------------------------------------------------------------------------- other APIs
def api_calls(ctx, pq, doc):
    from vf.gen import programs as G

    apis = []
    subj = Subject(pq, doc)
    apis.append(("validate", lambda: subj.sim.validate(subj.program)))
    apis.append(("copy", lambda: subj.program.copy() if hasattr(subj.program, "copy") else None))
    apis.append(("as_code", lambda: pq.as_code(subj.program, subj.sim, shots=10)))
    apis.append(("to_blackbird_code", lambda: subj.program.to_blackbird_code() if hasattr(subj.program, "to_blackbird_code") else None))
    apis.append(("repr", lambda: (repr(subj.program.instructions), repr(subj.sim))))
    apis.append(("nest", lambda: _nest(pq, subj.program, doc["d"])))
    for name, fn in apis:
        ctx.evals += 1
        ctx.c["api_calls"] += 1
        try:
            fn()
            out = "returns"
        except Exception as e:
            out = type(e).__name__
        ctx.classes.add("api:%s:%s" % (name, doc["sim"]))
        case = {"kind": "api", "api": name, "doc": doc, "what": "%s -> %s" % (name, out)}
        if not subj.compare(ctx, "by-" + name, case):
            subj.restore()


def _nest(pq, inner, d):
    with pq.Program() as outer:
        pq.Q(*range(d)) | inner
    return outer


# ---------------------------------------------------------------------------- caller-owned arrays
def _stochastic_columns(rng, n):
    """Column-stochastic matrix whose column sums are 1 only to rounding (float division): an in-place re-normalisation of
    the caller's array changes its bits."""
    a = rng.uniform(0.05, 1.0, size=(n, n))
    a = np.triu(a)  # detectors never report more photons than arrived
    return a / a.sum(axis=0)


LAYOUT_CHOICE = ["c"]


def array_parameter_programs(pq, rng):
    """(label, simulator factory, program builder) triples covering the instructions that take arrays, with every array
    given as an ndarray of the Config's own dtype (a no-copy `asarray` aliases the caller's array). The builder returns
    (program, {name: caller's array})."""
    from vf.gen import matrices as M

    d = 3
    U = M.haar_unitary(rng, d)
    T, _sv = M.transmission_matrix(rng, d)
    P, A = M.symplectic_blocks(rng, 2, rmax=0.3)
    mean, cov = M.physical_gaussian(rng, d, 1.0)
    idx = M.xxpp_to_xpxp(d)
    gram = M.random_gram(rng, 3)[0]
    out = []
    layout = LAYOUT_CHOICE[0]

    def _lay(arr):
        """Memory layout of the caller's 2-D arrays: C order, Fortran order, or a transposed view of another array
        (a LAPACK routine told to work in place overwrites only Fortran-ordered input)."""
        if layout == "c":
            return arr
        res = {}
        for k, v in arr.items():
            if isinstance(v, np.ndarray) and v.ndim == 2 and v.shape[0] > 1:
                if layout == "f":
                    v = np.asfortranarray(v)
                else:
                    v = np.ascontiguousarray(v.T).T
            res[k] = v
        return res

    def passive_imperfect():
        arr = _lay({"occ": np.array([1, 1, 1]), "U": U.copy(), "loss": np.array([0.8]), "eff": _stochastic_columns(rng, 4)})
        with pq.Program() as p:
            pq.Q() | pq.NumberState(arr["occ"])
            pq.Q(2, 0, 1) | pq.Interferometer(arr["U"])
            pq.Q(1) | pq.Loss(arr["loss"])
            pq.Q() | pq.ImperfectParticleNumberMeasurement(arr["eff"])
        return p, arr

    def passive_lossy_dist():
        arr = _lay({"T": T.copy(), "gram": gram.copy()})
        with pq.Program() as p:
            pq.Q() | pq.DistinguishableNumberState([1, 1, 1], particle_overlap=arr["gram"])
            pq.Q() | pq.LossyInterferometer(arr["T"])
            pq.Q() | pq.ParticleNumberMeasurement()
        return p, arr

    def purefock_zoo():
        arr = _lay({"U": U.copy(), "P": P.copy(), "A": A.copy(), "theta": rng.uniform(-1, 1, size=5), "eff": _stochastic_columns(rng, 5)})
        with pq.Program() as p:
            pq.Q() | pq.StateVector([1, 0, 1])
            pq.Q(1, 2, 0) | pq.Interferometer(arr["U"])
            pq.Q(2, 0) | pq.GaussianTransform(passive=arr["P"], active=arr["A"])
            pq.Q(1) | pq.SNAP(arr["theta"])
            pq.Q(0, 2) | pq.ImperfectParticleNumberMeasurement(arr["eff"])
        return p, arr

    def purefock_postselect():
        arr = _lay({"U": U.copy(), "eff": _stochastic_columns(rng, 5)})
        with pq.Program() as p:
            pq.Q() | pq.StateVector([1, 1, 0])
            pq.Q() | pq.Interferometer(arr["U"])
            pq.Q(1) | pq.ImperfectPostSelectPhotons(photon_counts=(1,), detector_efficiency_matrix=arr["eff"])
            pq.Q(0, 2) | pq.ParticleNumberMeasurement()
        return p, arr

    def fock_zoo():
        arr = _lay({"U": U.copy(), "eff": _stochastic_columns(rng, 5)})
        with pq.Program() as p:
            pq.Q() | pq.DensityMatrix(ket=(1, 0, 1), bra=(1, 0, 1))
            pq.Q(1, 2, 0) | pq.Interferometer(arr["U"])
            pq.Q(0) | pq.Squeezing(r=0.1, phi=0.3)
            pq.Q() | pq.ImperfectParticleNumberMeasurement(arr["eff"])
        return p, arr

    def gaussian_zoo(meas):
        def build():
            arr = _lay({"mean": (mean[idx] / np.sqrt(2.0)).copy(), "cov": cov[np.ix_(idx, idx)].copy(), "U": U.copy(), "P": P.copy(), "A": A.copy(),
                   "X": np.eye(2) * 0.9, "Y": np.eye(2) * 0.19, "dc": np.array([[0.7, 0.1], [0.1, 1.6]]), "eff": _stochastic_columns(rng, 5)})
            with pq.Program() as p:
                pq.Q() | pq.Vacuum()
                pq.Q() | pq.Mean(arr["mean"])
                pq.Q() | pq.Covariance(arr["cov"])
                pq.Q(2, 1, 0) | pq.Interferometer(arr["U"])
                pq.Q(0, 2) | pq.GaussianTransform(passive=arr["P"], active=arr["A"])
                pq.Q(1) | pq.DeterministicGaussianChannel(X=arr["X"], Y=arr["Y"])
                if meas == "generaldyne":
                    pq.Q(2, 0) | pq.GeneraldyneMeasurement(detection_covariance=arr["dc"])
                elif meas == "imperfect":
                    pq.Q(0, 1) | pq.ImperfectParticleNumberMeasurement(arr["eff"])
                elif meas == "threshold":
                    pq.Q() | pq.ThresholdMeasurement()
                else:
                    pq.Q(1) | pq.HomodyneMeasurement(phi=0.3)
            return p, arr
        return build

    def gaussian_graph():
        a = rng.normal(size=(3, 3))
        arr = _lay({"adj": a + a.T, "nbar": np.array([0.3, 0.1, 0.2])})
        with pq.Program() as p:
            pq.Q() | pq.Thermal(arr["nbar"])
            pq.Q() | pq.Graph(arr["adj"])
            pq.Q() | pq.ParticleNumberMeasurement()
        return p, arr

    def fermionic(simname):
        def build():
            h = rng.normal(size=(6, 6)) + 1j * rng.normal(size=(6, 6))
            A_ = rng.normal(size=(3, 3)) + 1j * rng.normal(size=(3, 3))
            B_ = rng.normal(size=(3, 3)) + 1j * rng.normal(size=(3, 3))
            A_, B_ = A_ + A_.conj().T, B_ - B_.T
            arr = _lay({"H": np.block([[-A_.conj(), B_], [-B_.conj(), A_]]), "U": U.copy()})
            with pq.Program() as p:
                pq.Q() | pq.StateVector([1, 0, 1])
                if simname == "fgaussian":
                    pq.Q() | pq.fermionic.GaussianHamiltonian(arr["H"])
                pq.Q() | pq.Interferometer(arr["U"])
                pq.Q() | pq.ParticleNumberMeasurement()
            return p, arr
        return build

    cfg = lambda **kw: pq.Config(seed_sequence=int(rng.integers(1, 2 ** 31)), **kw)  # noqa: E731
    out.append(("passive:imperfect", lambda: pq.PassiveSimulator(d=3, config=cfg()), passive_imperfect))
    out.append(("passive:lossy-distinguishable", lambda: pq.PassiveSimulator(d=3, config=cfg(cutoff=4)), passive_lossy_dist))
    out.append(("purefock:zoo", lambda: pq.PureFockSimulator(d=3, config=cfg(cutoff=5)), purefock_zoo))
    out.append(("purefock:imperfect-postselect", lambda: pq.PureFockSimulator(d=3, config=cfg(cutoff=4)), purefock_postselect))
    out.append(("fock:zoo", lambda: pq.FockSimulator(d=3, config=cfg(cutoff=4)), fock_zoo))
    for meas in ("generaldyne", "imperfect", "threshold", "homodyne"):
        out.append(("gaussian:%s" % meas, lambda: pq.GaussianSimulator(d=3, config=cfg(hbar=1.0, measurement_cutoff=4, validate=bool(rng.random() < 0.3))),
                    gaussian_zoo(meas)))  # validate=False mostly: the channel validation refuses valid channels (known finding, C13)
    out.append(("gaussian:graph", lambda: pq.GaussianSimulator(d=3, config=cfg(measurement_cutoff=4)), gaussian_graph))
    out.append(("ffock:hamiltonian", lambda: pq.fermionic.PureFockSimulator(d=3, config=cfg()), fermionic("ffock")))
    out.append(("fgaussian:hamiltonian", lambda: pq.fermionic.GaussianSimulator(d=3, config=cfg()), fermionic("fgaussian")))
    return out


def caller_arrays(ctx, pq, rng, rounds):
    """Executes each array-parameter program with finite shots and with shots=None; the caller's arrays must be bit-identical
    afterwards (return or raise), and so must the program's fingerprint."""
    from vf.monitors import fingerprint as F

    for r in range(rounds):
        LAYOUT_CHOICE[0] = ["c", "f", "tview"][r % 3]
        for label, make_sim, build in array_parameter_programs(pq, rng):
            label = "%s[%s]" % (label, LAYOUT_CHOICE[0]) if LAYOUT_CHOICE[0] != "c" else label
            for shots in (int(rng.choice([1, 7, 60])), None):
                try:
                    prog, arrs = build()
                    sim = make_sim()
                except Exception as e:
                    ctx.obs.add("array program %s could not be built: %s: %s" % (label, type(e).__name__, str(e)[:80]))
                    continue
                before = {k: (v.tobytes(), v.dtype.str, v.shape, v.flags.writeable) for k, v in arrs.items()}
                fp = F.program_view(prog)
                ctx.evals += 1
                try:
                    sim.execute(prog, shots=shots)
                    how = "returned"
                except Exception as e:
                    how = "raised %s" % type(e).__name__
                    ctx.obs.add("array program %s shots=%s raised %s: %s" % (label, shots, type(e).__name__, str(e)[:80]))
                ctx.c["caller_array_executions"] = ctx.c.get("caller_array_executions", 0) + 1
                ctx.c["fingerprint_comparisons"] += 1
                ctx.classes.add("arrays:%s:%s:%s" % (label, "shots" if shots else "exact", how.split()[0]))
                case = {"kind": "arrays", "label": label, "shots": shots, "what": "%s shots=%s %s" % (label, shots, how)}
                for k, v in arrs.items():
                    ctx.c["caller_arrays_compared"] = ctx.c.get("caller_arrays_compared", 0) + 1
                    now = (v.tobytes(), v.dtype.str, v.shape, v.flags.writeable)
                    if now != before[k]:
                        changed = int(np.sum(np.frombuffer(now[0], dtype=np.uint8) != np.frombuffer(before[k][0], dtype=np.uint8))) if len(now[0]) == len(before[k][0]) else -1
                        ctx.viol("caller-array-modified:%s:%s" % (label, k), "%s (shots=%s, %s): the caller's array '%s' changed (%d bytes differ)" % (
                            label, shots, how, k, changed), case)
                dp = F.diff(fp, F.program_view(prog))
                if dp:
                    ctx.viol(_mech_for_paths(dp, "after-array-program"), "%s: program differs at %s" % (case["what"], dp[:6]), case)


# ---------------------------------------------------------------------------- kernels
def kernel_immutability(ctx, pq, rng, count):
    from vf.monitors import fingerprint as F
    from piquasso._math import permanent as perm_mod
    from piquasso._math import pfaffian as pf_mod
    from piquasso._math import torontonian as tor_mod
    from piquasso._math import hafnian as haf_mod
    from piquasso._math import decompositions as dec
    from vf.gen import matrices as M

    conn = pq.NumpyConnector()

    def layouts(a):
        yield "c", np.ascontiguousarray(a)
        yield "f", np.asfortranarray(a)
        big = np.zeros((a.shape[0] * 2, a.shape[1] * 2), dtype=a.dtype)
        big[::2, ::2] = a
        yield "strided", big[::2, ::2]
        ro = np.ascontiguousarray(a).copy()
        ro.setflags(write=False)
        yield "readonly", ro

    for it in range(count):
        n = int(rng.integers(1, 5))
        A = rng.normal(size=(n, n)) + 1j * rng.normal(size=(n, n))
        rows = rng.integers(0, 3, size=n).astype(np.int32)
        cols = rows[rng.permutation(n)].copy()
        sym = A + A.T
        n2 = 2 * int(rng.integers(1, 4))
        skew = rng.normal(size=(n2, n2))
        skew = skew - skew.T
        cov = rng.normal(size=(2 * n, 2 * n))
        spd = cov @ cov.T / (2 * n) * 0.1
        tor_in = np.eye(2 * n) - np.linalg.inv(np.eye(2 * n) + spd)  # positive, eigenvalues in (0,1)
        tor_in = (tor_in + tor_in.T) / 2
        calls = []
        for lay, a in layouts(A):
            calls.append(("permanent", lay, [a, rows.copy(), cols.copy()], lambda x: perm_mod.permanent(*x)))
            calls.append(("permanent_laplace", lay, [a, rows.copy(), cols.copy()], lambda x: perm_mod.permanent_laplace(*x)))
            calls.append(("connector.permanent", lay, [a, rows.copy(), cols.copy()], lambda x: conn.permanent(*x)))
        for lay, a in layouts(sym):
            red = rng.integers(0, 3, size=n).astype(np.int32)
            calls.append(("connector.hafnian", lay, [a, red], lambda x: conn.hafnian(*x)))
            diag = rng.normal(size=n) + 0j
            calls.append(("connector.loop_hafnian", lay, [a, diag, red.copy()], lambda x: conn.loop_hafnian(*x)))
            calls.append(("takagi", lay, [a], lambda x: dec.takagi(x[0], conn)))
        for lay, a in layouts(skew):
            calls.append(("pfaffian", lay, [a], lambda x: pf_mod.pfaffian(*x)))
            calls.append(("connector.pfaffian", lay, [a], lambda x: conn.pfaffian(*x)))
        for lay, a in layouts(tor_in):
            calls.append(("torontonian", lay, [a], lambda x: tor_mod.torontonian(*x)))
            calls.append(("loop_torontonian", lay, [a, rng.normal(size=2 * n)], lambda x: tor_mod.loop_torontonian(*x)))
        for lay, a in layouts(spd + np.eye(2 * n)):
            calls.append(("williamson", lay, [a], lambda x: dec.williamson(x[0], conn)))
        for name, lay, args, fn in calls:
            before = [F.fp(x) for x in args]
            ctx.evals += 1
            ctx.c["kernel_calls"] += 1
            try:
                fn(args)
                out = "returns"
            except Exception as e:
                out = type(e).__name__
                if lay == "readonly":
                    ctx.c["readonly_rejected"] += 1
                    ctx.obs.add("%s rejects a read-only array: %s" % (name, type(e).__name__))
            after = [F.fp(x) for x in args]
            ctx.classes.add("kernel:%s:%s" % (name, lay))
            for i, (b, a_) in enumerate(zip(before, after)):
                if b != a_:
                    ctx.viol("kernel-%s-modifies-input" % name.replace("connector.", ""),
                             "%s(%s layout) %s and modified its argument #%d in place" % (name, lay, out, i),
                             {"kind": "kernel", "kernel": name, "layout": lay, "n": int(n),
                              "args": [M.enc(np.asarray(x)) for x in args]})


# ---------------------------------------------------------------------------- plan / run
SIMS = ["purefock", "passive", "gaussian", "ffock"]


def plan(tier, seed):
    specs = []
    nprog = {"quick": 1, "thorough": 4}[tier]
    idx = 0
    for sim in SIMS:
        for j in range(3 if tier == "quick" else 8):
            specs.append({"name": "faults-%s-%d" % (sim, j), "kind": "faults", "sim": sim, "shard": idx, "programs": nprog,
                          "max_points": 400 if tier == "quick" else 1500})
            idx += 1
    specs.append({"name": "kernels", "kind": "kernels", "shard": 90, "count": 12 if tier == "quick" else 80})
    specs.append({"name": "api", "kind": "api", "shard": 91, "count": 12 if tier == "quick" else 60})
    specs.append({"name": "genuine", "kind": "genuine", "shard": 92, "count": 24 if tier == "quick" else 150})
    specs.append({"name": "arrays", "kind": "arrays", "shard": 93, "count": 3 if tier == "quick" else 25})
    return specs


def run_shard(spec):
    from vf import boot

    pq = boot.import_piquasso()
    from vf.gen import programs as G

    rng = np.random.default_rng([int(spec["seed"]), 12, int(spec["shard"])])
    ctx = Ctx()
    budget = 150 if spec["tier"] == "quick" else 900
    t0 = time.time()
    if spec["kind"] == "faults":
        for p in range(int(spec["programs"])):
            sim = spec["sim"]
            shots = None if sim != "gaussian" else 5
            doc = G.adaptive_program(rng, sim=sim, shots=shots, max_meas=2)
            left = budget - (time.time() - t0)
            if left < 10:
                break
            enumerate_faults(ctx, pq, doc, left / (int(spec["programs"]) - p), int(spec["max_points"]),
                             with_initial_state=(int(spec["shard"]) % 3 == 2))
    elif spec["kind"] == "kernels":
        kernel_immutability(ctx, pq, rng, int(spec["count"]))
    elif spec["kind"] == "api":
        for i in range(int(spec["count"])):
            sim = SIMS[i % len(SIMS)]
            doc = G.adaptive_program(rng, sim=sim, shots=None if sim != "gaussian" else 5)
            if i % 2 == 0:  # as_code / blackbird cannot express conditions: also a plain variant
                for ins in doc["ins"]:
                    ins.pop("when", None)
                    ins.pop("when_call", None)
            api_calls(ctx, pq, doc)
    elif spec["kind"] == "arrays":
        caller_arrays(ctx, pq, rng, int(spec["count"]))
    elif spec["kind"] == "genuine":
        for i in range(int(spec["count"])):
            sim = SIMS[i % len(SIMS)]
            doc = G.adaptive_program(rng, sim=sim, shots=None if sim != "gaussian" else 5)
            genuine_failures(ctx, pq, rng, doc)
    # required counters that a shard kind does not exercise are satisfied by other shards
    return {"evaluations": ctx.evals, "classes": sorted(ctx.classes), "violations": ctx.violations,
            "counters": ctx.c, "samples": ctx.samples, "observations": sorted(ctx.obs)[:20]}


def replay(case):
    from vf import boot

    pq = boot.import_piquasso()
    from vf.gen import matrices as M
    from vf.monitors import failpoints as FP

    ctx = Ctx()
    kind = case.get("kind")
    if kind == "fault":
        doc = case["doc"]
        if "point" in case:
            subj = Subject(pq, doc, case.get("with_initial_state", False))
            lf = FP.LineFaults(fault_codes(pq, subj.sim))
            res, exc, fired = lf.inject(subj.run, int(case["point"]))
            subj.compare(ctx, "after-raise", dict(case, what="replay fault at %s -> %s" % (fired, type(exc).__name__ if exc else None)))
        else:
            enumerate_faults(ctx, pq, doc, 600, 3000, case.get("with_initial_state", False))
    elif kind == "genuine":
        subj = Subject(pq, case["doc"])
        try:
            subj.run()
            raised = None
        except Exception as e:
            raised = e
        subj.compare(ctx, "after-raise" if raised is not None else "after-success", case)
    elif kind == "api":
        api_calls(ctx, pq, case["doc"])
    elif kind == "kernel":
        rng = np.random.default_rng(0)
        kernel_immutability(ctx, pq, rng, 6)
        ctx.violations = [v for v in ctx.violations if v["case"]["kernel"] == case["kernel"]]
    return ctx.violations
