"""C15 - matrix decompositions reconstruct their input.

The real functions (clements / inverse_clements / instructions_from_decomposition / weight
vector helpers, takagi, williamson, euler, the Gaussian Graph step) are called on structured
and degenerate inputs; every returned factor is checked for its promised structure and the
recomposition is compared with the input under a tolerance derived from the computation.
Counting wrappers on `takagi` and `decompose_adjacency_matrix_into_circuit` record that the
composite paths (euler, Graph step) really reached them.
"""

import time

import numpy as np

from vf.gen import matrices as M

ID = "C15"
LEVEL = "exploration"
TECHNIQUE = ("runtime monitoring: the real decomposition functions are run on seeded structured/degenerate matrices; "
             "factor-structure monitors (unitary, real symplectic, paired positive diagonal) and recomposition "
             "residuals under derived tolerances; decompositions executed as programs on PassiveSimulator / "
             "GaussianSimulator and read back from the state")
DESIGN_REF = "DESIGN.md §4 C15"
LEVEL_TEXT = (
    "Seeded inputs of dimension 1..6 (real forms up to 12): Haar / permutation / diagonal / block / identity / sparse "
    "Givens / near-identity / DFT unitaries; complex symmetric U diag(s) U^T with repeated, zero, near-degenerate and "
    "widely spread singular values, real symmetric matrices with +-lambda pairs, graph adjacency matrices; positive "
    "definite S D S^T with repeated symplectic eigenvalues; complex-form symplectic matrices with equal / zero / "
    "negative squeezing; Graph gates on vacuum. Held = every factor had its promised structure and every "
    "recomposition matched within the derived tolerance on all generated inputs."
)
LEVEL_NOTE = (
    "Trusts numpy.linalg (svd, eigvalsh, inv, cond) for norms, condition numbers and the oracle side of the "
    "residuals. Only NumpyConnector is exercised. The Takagi tolerance grows with 1/gap between distinct singular "
    "values (capped at 1e5) because the algorithm's own grouping threshold makes that the attainable accuracy; "
    "dimensions above 6 and other connectors are not covered."
)
RULE = (
    "cases = one per generated matrix (Clements: round trip + weights + PassiveSimulator + GaussianSimulator probes; "
    "Takagi / Williamson / Euler: one call each; Graph: one GaussianSimulator execution). distinct_nontrivial = number "
    "of distinct (family, structural class, degeneracy pattern, dtype, dimension) keys among cases whose recomposition "
    "comparison was actually evaluated (cases where the call under test raised are not counted)."
)
ASSUMPTIONS = [
    "numpy.linalg svd/eigvalsh/inv are accurate to rounding on matrices of dimension <= 12",
    "Euler factors recompose as block(U_last) Squeezing(r=D, phi=0) block(U_first), the way the Fock simulators consume them",
    "Graph: 'mean photon number for a mode' is read as the average over the graph's modes (what the solver targets); "
    "the A-matrix may be proportional to the adjacency matrix or to its complex conjugate",
    "scipy brentq default xtol=2e-12, rtol=4*eps bound the scaling error of the Graph embedding",
]
REQUIRED = ["clements_roundtrips", "weights_roundtrips", "passive_executions", "gaussian_probe_executions",
            "takagi_comparisons", "williamson_comparisons", "euler_comparisons", "graph_executions",
            "hook_takagi_calls_in_euler", "hook_takagi_calls_in_graph", "hook_graph_decompose_calls",
            "takagi_degenerate_cases", "williamson_repeated_cases", "euler_degenerate_cases",
            "clements_exact_zero_inputs"]
WATCHDOG = {"quick": 600, "thorough": 2400}

EPS = float(np.finfo(float).eps)
C = 1e3          # safety constant of all tolerances: tol = C * eps * (dimension factor) * scale * conditioning
AMP_CAP = 1e5    # 1/rtol of takagi's grouping rule: pairs closer than that are merged, so eps/gap never exceeds it
PER_MECH_CAP = 3


class HarnessError(Exception):
    """A broken assumption of the harness itself: crashes the shard (=> INCONCLUSIVE), never a violation."""


def _maxabs(x):
    x = np.asarray(x)
    return float(np.max(np.abs(x))) if x.size else 0.0


class Ctx:
    def __init__(self):
        self.violations = []
        self.c = {k: 0 for k in REQUIRED}
        self.c.update({
            "clements_cases": 0, "takagi_cases": 0, "williamson_cases": 0, "euler_cases": 0, "graph_cases": 0,
            "clements_real_dtype_inputs": 0, "clements_near_identity_inputs": 0, "d1_cases": 0,
            "takagi_real_dtype_inputs": 0, "takagi_zero_singular_inputs": 0, "takagi_near_degenerate_inputs": 0,
            "takagi_residual_above_gap_free_bound": 0,
            "graph_A_matches_adj": 0, "graph_A_matches_conj_adj_only": 0, "graph_permuted_modes": 0,
            "graph_cases_with_unequal_per_mode_n": 0, "graph_rank_deficient": 0,
            "hook_takagi_calls_in_direct": 0,
            "max_dev_over_tol_clements": 0.0, "max_dev_over_tol_clements_subthreshold_inputs": 0.0, "max_dev_over_tol_takagi": 0.0, "max_dev_over_tol_williamson": 0.0,
            "max_dev_over_tol_euler": 0.0, "max_dev_over_tol_graph": 0.0,
            "max_dev_over_tol_euler_unitarity": 0.0, "max_dev_over_tol_takagi_unitarity": 0.0,
            "violations_by_mechanism": {},
        })
        self.classes = set()
        self.samples = []
        self.evals = 0
        self.obs = set()
        self.phase = "direct"
        self.last_takagi = None

    def viol(self, mech, msg, case):
        vb = self.c["violations_by_mechanism"]
        vb[mech] = vb.get(mech, 0) + 1
        if vb[mech] <= PER_MECH_CAP:
            self.violations.append({"mechanism": mech, "message": msg, "case": case})

    def ratio(self, fam, dev, tol):
        """Record dev/tol for the evidence; returns True when dev exceeds tol (or is not finite)."""
        if not np.isfinite(dev):
            return True
        if tol > 0:
            if dev <= tol:  # headroom of the comparisons that held; violations are reported separately
                k = "max_dev_over_tol_" + fam
                self.c[k] = max(self.c.get(k, 0.0), float(dev / tol))
            return dev > tol
        return dev > 0


# ------------------------------------------------------------------ passive counting hooks
_CURRENT = [None]


def install_hooks(ctx0):
    import piquasso._math.decompositions as dm
    import piquasso._simulators.gaussian.simulation_steps as gs

    _CURRENT[0] = ctx0
    if getattr(dm.takagi, "_vf_c15", False):
        return
    orig_takagi = dm.takagi
    orig_dec = gs.decompose_adjacency_matrix_into_circuit

    def takagi(*a, **k):
        ctx = _CURRENT[0]
        key = "hook_takagi_calls_in_" + ctx.phase
        ctx.c[key] = ctx.c.get(key, 0) + 1
        arg = np.array(a[0] if a else k.get("matrix"))
        out = orig_takagi(*a, **k)
        if ctx.phase != "direct":  # passive record of the inner call (copies), used to key a failure
            try:
                ctx.last_takagi = (arg, np.array(out[0]), np.array(out[1]))
            except Exception:
                ctx.last_takagi = None
        return out

    def decompose_adjacency_matrix_into_circuit(*a, **k):
        _CURRENT[0].c["hook_graph_decompose_calls"] += 1
        return orig_dec(*a, **k)

    takagi._vf_c15 = True
    dm.takagi = takagi
    gs.decompose_adjacency_matrix_into_circuit = decompose_adjacency_matrix_into_circuit


# ------------------------------------------------------------------ tolerance helpers
def gap_amplification(svals):
    """Attainable accuracy of an SVD-based Takagi factorisation relative to eps*||A||.

    Singular vectors of two distinct singular values s_i, s_j are determined only up to a
    rotation of angle ~ eps*||A||/|s_i-s_j|, which enters U diag(s) U^T with weight max(s_i,s_j).
    takagi() merges values closer than rtol=1e-5 (relative to the larger one), so the factor is
    at most AMP_CAP.  Values within rounding noise of each other count as equal; a repeated value
    below 1e-6*smax may be split by rounding noise (noise/value > rtol) and gets the cap.
    """
    s = np.sort(np.abs(np.asarray(svals, dtype=float)))[::-1]
    n = len(s)
    if n < 2 or s[0] == 0:
        return 0.0
    smax = s[0]
    noise = 64 * n * EPS * smax
    # cluster values within noise
    clusters = [[s[0]]]
    for v in s[1:]:
        if clusters[-1][-1] - v <= noise:
            clusters[-1].append(v)
        else:
            clusters.append([v])
    amp = 0.0
    reps = [float(np.mean(c)) for c in clusters]
    for c, r in zip(clusters, reps):
        if len(c) >= 2 and noise < r < 1e-6 * smax:
            amp = AMP_CAP
    for i in range(len(reps)):
        for j in range(i + 1, len(reps)):
            gap = abs(reps[i] - reps[j]) - noise
            a = AMP_CAP if gap <= 0 else min(AMP_CAP, max(reps[i], reps[j]) / gap)
            amp = max(amp, a)
    return float(amp)


def mixing_squared(svals, noise_abs):
    """Second-order loss of unitarity of an SVD-based Takagi factor.

    The phases are read off v_i^T w_i (or the block V_g^T W_g); a perturbation of size noise_abs (rounding of the
    SVD, or the non-symmetric rounding residue of the matrix handed to takagi) rotates singular vectors of
    distinct values by noise_abs/gap, which lowers |v_i^T w_i| by half the square of that angle.
    """
    s = np.sort(np.abs(np.asarray(svals, dtype=float)))[::-1]
    n = len(s)
    if n < 2 or s[0] == 0:
        return 0.0
    noise = 64 * n * EPS * s[0]
    gaps = [g for g in -np.diff(s) if g > noise]
    if not gaps:
        return 0.0
    return float(min(1.0, (noise_abs / min(gaps)) ** 2))


def degeneracy_info(svals):
    s = np.sort(np.abs(np.asarray(svals, dtype=float)))[::-1]
    if len(s) == 0:
        return 0, 0
    smax = s[0] if s[0] > 0 else 1.0
    noise = 64 * len(s) * EPS * smax
    nzero = int(np.sum(s <= noise))
    rep = int(np.sum(np.abs(np.diff(s)) <= noise))  # neighbouring pairs that coincide
    return rep, nzero


def takagi_branch_cut(A):
    """Classification only (never decides a verdict): does A have a repeated non-zero singular value whose
    block V^T W of the SVD has an eigenvalue on the branch cut (argument ~ 0) of takagi's square root?"""
    A = np.asarray(A)
    try:
        V, s, Wh = np.linalg.svd(A)
        W = Wh.conj().T
        n = len(s)
        if n < 2 or s[0] == 0:
            return False
        noise = 64 * n * EPS * s[0]
        groups = []  # the grouping rule of takagi(): first representative within atol=1e-12 + rtol=1e-5
        for i in range(n):
            for g in groups:
                if abs(s[i] - s[g[0]]) <= 1e-12 + 1e-5 * abs(s[g[0]]):
                    g.append(i)
                    break
            else:
                groups.append([i])
        for g in groups:
            if len(g) >= 2 and s[g[0]] > noise:
                ev = np.linalg.eigvals(V[:, g].T @ W[:, g])
                if np.any(np.abs(np.angle(ev)) < 1e-6):
                    return True
    except Exception:
        return False
    return False


def inner_takagi_failed_on_branch_cut(ctx):
    """True when the takagi call made inside the composite function did not reconstruct its own input
    and that input sits on the square-root branch cut."""
    rec = ctx.last_takagi
    if rec is None:
        return False
    Z, s, U = rec
    if Z.ndim != 2 or U.shape != Z.shape or s.shape != (Z.shape[0],):
        return False
    n = Z.shape[0]
    sv = np.linalg.svd(np.asarray(Z, dtype=complex), compute_uv=False)
    tol = C * EPS * n * float(sv[0]) * (1.0 + gap_amplification(sv))
    return _maxabs(U @ np.diag(s) @ U.T - Z) > tol and takagi_branch_cut(Z)


# ------------------------------------------------------------------ Clements
def _subthreshold_entry(U):
    a = np.abs(np.asarray(U))
    return bool(np.any((a > 1e3 * EPS) & (a < 1e-6)))


def check_clements(ctx, pq, U, meta):
    from piquasso.decompositions import clements as cl

    conn = ctx.conn
    d = U.shape[0]
    case = {"family": "clements", "cls": meta["cls"], "d": d, "dtype": "f" if np.isrealobj(U) else "c",
            "matrix": M.enc(U)}
    ctx.evals += 1
    ctx.c["clements_cases"] += 1
    if d == 1:
        ctx.c["d1_cases"] += 1
    if np.isrealobj(U):
        ctx.c["clements_real_dtype_inputs"] += 1
    if np.any(U == 0) and d > 1:
        ctx.c["clements_exact_zero_inputs"] += 1
    # d(d-1)/2 plane rotations are applied to a unitary when nulling and again when recomposing
    tol = C * EPS * (d * (d + 1) / 2 + 1)
    sub = _subthreshold_entry(U)
    fam = "clements_subthreshold_inputs" if sub else "clements"

    def mech(name, dev):
        # _get_angles() treats |element| < 1e-8 as an exact zero (np.isclose default atol): the element is
        # then never nulled and silently dropped; the residual this can cause is bounded by d * 1e-8
        if sub and np.isfinite(dev) and dev <= 1e-7:
            return "clements-subthreshold-entry-dropped"
        return name

    try:
        dec = cl.clements(U.copy(), conn)
    except Exception as e:  # the call under test
        ctx.viol("clements-raises", "clements(%s d=%d) raised %s: %s" % (meta["cls"], d, type(e).__name__, e), case)
        return
    nb = len(dec.beamsplitters)
    if len(dec.phaseshifters) != d or nb != d * (d - 1) // 2:
        ctx.viol("clements-structure", "clements(d=%d) returned %d beamsplitters and %d phaseshifters" % (
            d, nb, len(dec.phaseshifters)), case)
        return
    angles = [float(np.real(a)) for b in dec.beamsplitters for a in b.params] + [float(np.real(p.phi)) for p in dec.phaseshifters]
    if not np.all(np.isfinite(angles)):
        ctx.viol("clements-angle-not-finite", "clements(%s d=%d) produced a non-finite angle" % (meta["cls"], d), case)
        return

    # (1) inverse
    try:
        V = np.asarray(cl.inverse_clements(dec, conn, dtype=U.dtype))
    except Exception as e:
        ctx.viol("clements-inverse-raises", "inverse_clements raised %s: %s" % (type(e).__name__, e), case)
        return
    ctx.c["clements_roundtrips"] += 1
    dev = _maxabs(V - U) if V.shape == U.shape else float("inf")
    if ctx.ratio(fam, dev, tol):
        ctx.viol(mech("clements-roundtrip", dev),
                 "inverse_clements(clements(U)) differs from U by %.3g (tol %.3g) for %s d=%d" % (dev, tol, meta["cls"], d), case)

    # (2) weight vector
    w = None
    try:
        w = np.asarray(cl.get_weights_from_interferometer(U.copy(), conn))
        V2 = np.asarray(cl.get_interferometer_from_weights(w, d, conn, U.dtype))
        w_dec = np.asarray(cl.get_weights_from_decomposition(dec, d, conn))
        dec2 = cl.get_decomposition_from_weights(w_dec, d, conn)
        w_back = np.asarray(cl.get_weights_from_decomposition(dec2, d, conn))
        modes_same = [tuple(b.modes) for b in dec2.beamsplitters] == [tuple(b.modes) for b in dec.beamsplitters]
    except Exception as e:
        ctx.viol("clements-weights-raises", "weight-vector helpers raised %s: %s (%s d=%d)" % (type(e).__name__, e, meta["cls"], d), case)
    else:
        ctx.c["weights_roundtrips"] += 1
        if w.shape != (d * d,):
            ctx.viol("clements-weights-shape", "weight vector has shape %s for d=%d" % (w.shape, d), case)
        dev2 = _maxabs(V2 - U) if V2.shape == U.shape else float("inf")
        if ctx.ratio(fam, dev2, tol):
            ctx.viol(mech("clements-weights-roundtrip", dev2),
                     "get_interferometer_from_weights(get_weights_from_interferometer(U)) differs from U by %.3g (tol %.3g) for %s d=%d"
                     % (dev2, tol, meta["cls"], d), case)
        if not (np.array_equal(w_back, w_dec) and modes_same):
            ctx.viol("clements-weights-data", "decomposition -> weights -> decomposition -> weights is not the identity (%s d=%d)" % (meta["cls"], d), case)
        # a decomposition unpacked from weights earlier must still describe *its* unitary after other weight vectors of the
        # same size were unpacked (a seeded change that memoised the template and filled it in place was missed by the
        # one-at-a-time round trip)
        held = getattr(ctx, "held_decompositions", None)
        if held is None:
            held = ctx.held_decompositions = {}
        if d in held:
            old_dec, old_U, old_cls = held[d]
            try:
                V_old = np.asarray(cl.inverse_clements(old_dec, conn, dtype=old_U.dtype))
                dev3 = _maxabs(V_old - old_U) if V_old.shape == old_U.shape else float("inf")
            except Exception as e:
                dev3 = float("inf")
            ctx.c["held_decomposition_checks"] = ctx.c.get("held_decomposition_checks", 0) + 1
            if dev3 > max(tol, 1e-9) and dev3 > 1e-6:
                ctx.viol("clements-weights-decomposition-aliased",
                         "a decomposition unpacked from weights (d=%d, %s) no longer reproduces its unitary after another weight vector of the same size "
                         "was unpacked: deviation %.3g" % (d, old_cls, dev3), case)
        if dev2 <= max(tol, 1e-9):
            held[d] = (dec2, np.array(U, copy=True), meta["cls"])

    # (3) the instruction list on the passive simulator
    try:
        ins = cl.instructions_from_decomposition(dec)
        st = pq.PassiveSimulator(d=d).execute(pq.Program(instructions=ins)).state
        W = np.asarray(st.interferometer)
    except Exception as e:
        ctx.viol("clements-instructions-raise", "executing instructions_from_decomposition on PassiveSimulator raised %s: %s" % (type(e).__name__, e), case)
    else:
        ctx.c["passive_executions"] += 1
        dev3 = _maxabs(W - U) if W.shape == U.shape else float("inf")
        if ctx.ratio(fam, dev3, tol):
            ctx.viol(mech("clements-instructions-passive", dev3),
                     "PassiveSimulator interferometer after instructions_from_decomposition differs from U by %.3g (tol %.3g) for %s d=%d"
                     % (dev3, tol, meta["cls"], d), case)

    # (4) the instruction list on the Gaussian simulator: coherent probes give the columns of U
    if meta.get("gaussian", True):
        try:
            G = np.zeros((d, d), dtype=complex)
            sim = pq.GaussianSimulator(d=d)
            for k in range(d):
                prep = pq.Displacement(r=1.0, phi=0.0).on_modes(k)
                m0 = np.asarray(sim.execute(pq.Program(instructions=[prep])).state._m).copy()
                prep = pq.Displacement(r=1.0, phi=0.0).on_modes(k)
                st = sim.execute(pq.Program(instructions=[prep] + cl.instructions_from_decomposition(dec))).state
                ctx.c["gaussian_probe_executions"] += 1
                if abs(m0[k]) == 0 or np.count_nonzero(m0) != 1:
                    raise HarnessError("displacement probe did not prepare a single-mode coherent state")
                G[:, k] = np.asarray(st._m) / m0[k]
        except HarnessError:
            raise
        except Exception as e:
            ctx.viol("clements-instructions-raise", "executing instructions_from_decomposition on GaussianSimulator raised %s: %s" % (type(e).__name__, e), case)
        else:
            dev4 = _maxabs(G - U)
            if ctx.ratio(fam, dev4, tol):
                ctx.viol(mech("clements-instructions-gaussian", dev4),
                         "GaussianSimulator mean-vector response to instructions_from_decomposition differs from U by %.3g (tol %.3g) for %s d=%d"
                         % (dev4, tol, meta["cls"], d), case)
    ctx.classes.add("clements:%s:%s:d%d" % (meta["cls"], case["dtype"], d))
    if len(ctx.samples) < 2 and d == 2:
        ctx.samples.append({"family": "clements", "cls": meta["cls"], "U": M.enc(U), "roundtrip_dev": dev, "tol": tol,
                            "weights": None if w is None else [float(x) for x in np.real(w)]})


# ------------------------------------------------------------------ Takagi
def check_takagi(ctx, pq, A, meta):
    import piquasso._math.decompositions as dm

    n = A.shape[0]
    real_dtype = not np.iscomplexobj(A)
    sv_num = np.linalg.svd(np.asarray(A, dtype=complex), compute_uv=False) if n else np.zeros(0)
    svals = meta.get("svals")
    svals = np.asarray(svals, dtype=float) if svals is not None else sv_num
    case = {"family": "takagi", "cls": meta["cls"], "n": n, "dtype": A.dtype.str, "matrix": M.enc(A),
            "svals": None if meta.get("svals") is None else [float(v) for v in svals]}
    ctx.evals += 1
    ctx.c["takagi_cases"] += 1
    if n == 1:
        ctx.c["d1_cases"] += 1
    rep, nzero = degeneracy_info(svals)
    norm = float(sv_num[0]) if n else 0.0
    amp = gap_amplification(svals)
    if real_dtype:
        ctx.c["takagi_real_dtype_inputs"] += 1
    if nzero:
        ctx.c["takagi_zero_singular_inputs"] += 1
    if amp > 100:
        ctx.c["takagi_near_degenerate_inputs"] += 1

    ctx.phase = "direct"
    try:
        s, U = dm.takagi(A.copy(), ctx.conn)
    except Exception as e:
        ctx.viol("takagi-raises", "takagi(%s n=%d) raised %s: %s" % (meta["cls"], n, type(e).__name__, e), case)
        return
    s = np.asarray(s)
    U = np.asarray(U)
    if s.shape != (n,) or U.shape != (n, n):
        ctx.viol("takagi-shape", "takagi(%s n=%d) returned shapes %s, %s" % (meta["cls"], n, s.shape, U.shape), case)
        return
    ctx.c["takagi_comparisons"] += 1
    if rep or nzero >= 2:
        ctx.c["takagi_degenerate_cases"] += 1
    tol_s = C * EPS * n * norm
    if (not np.all(np.isfinite(s))) or _maxabs(np.imag(s)) > 0 or (np.real(s) < -tol_s).any():
        ctx.viol("takagi-values-not-nonnegative", "takagi(%s n=%d) returned values that are not real and >= 0: %s" % (meta["cls"], n, s), case)
    tol_u = C * EPS * n + n * mixing_squared(svals, 1e2 * EPS * norm)
    dev_u = _maxabs(U @ U.conj().T - np.eye(n))
    if ctx.ratio("takagi_unitarity", dev_u, tol_u):
        key = "takagi-not-unitary"
        if real_dtype and nzero >= 2:
            # real input => real SVD => scipy.linalg.schur falls back to the *real* Schur form of the
            # (orthogonal, not symmetric) null-space block, whose diagonal is not its spectrum
            key = "takagi-not-unitary-real-dtype-nullspace"
        elif nzero >= 2 and norm >= 1e3:
            # the grouping tolerance atol=1e-12 is absolute: the numerically zero singular values of a
            # matrix of large norm (~eps*||A|| > 1e-12) are not grouped and each gets a sub-unit "phase"
            key = "takagi-not-unitary-large-norm-nullspace"
        ctx.viol(key, "takagi(%s n=%d dtype=%s): U U^+ differs from 1 by %.3g (tol %.3g); nullity %d" % (
            meta["cls"], n, A.dtype, dev_u, tol_u, nzero), case)
    tol_r = C * EPS * n * norm * (1.0 + amp) + n * norm * mixing_squared(svals, 1e2 * EPS * norm)
    dev_r = _maxabs(U @ np.diag(s) @ U.T - A)
    if dev_r > C * EPS * n * norm:
        ctx.c["takagi_residual_above_gap_free_bound"] += 1
    if ctx.ratio("takagi", dev_r, tol_r):
        # eigenvalues 1 +- i*eps of the degenerate block V^T W straddle the cut of the "canonical" square root
        key = "takagi-reconstruction-degenerate-branch-cut" if takagi_branch_cut(A) else "takagi-reconstruction"
        ctx.viol(key, "takagi(%s n=%d dtype=%s): U diag(s) U^T differs from A by %.3g (tol %.3g, ||A||=%.3g, gap amplification %.3g)" % (
            meta["cls"], n, A.dtype, dev_r, tol_r, norm, amp), case)
    ctx.classes.add("takagi:%s:%s:n%d" % (meta["cls"], "f" if real_dtype else "c", n))
    if len(ctx.samples) < 2 and n == 2 and rep:
        ctx.samples.append({"family": "takagi", "cls": meta["cls"], "A": M.enc(A), "s": [float(x) for x in np.real(s)],
                            "unitarity_dev": dev_u, "reconstruction_dev": dev_r, "tol": tol_r})


# ------------------------------------------------------------------ Williamson
def check_williamson(ctx, pq, Mx, meta):
    import piquasso._math.decompositions as dm

    n2 = Mx.shape[0]
    d = n2 // 2
    case = {"family": "williamson", "cls": meta["cls"], "d": d, "matrix": M.enc(Mx)}
    ctx.evals += 1
    ctx.c["williamson_cases"] += 1
    if d == 1:
        ctx.c["d1_cases"] += 1
    ev = np.linalg.eigvalsh(Mx)
    if ev[0] <= 0:
        raise HarnessError("generated matrix is not positive definite")
    norm = float(ev[-1])
    cond = float(ev[-1] / ev[0])
    omega = np.block([[np.zeros((d, d)), np.eye(d)], [-np.eye(d), np.zeros((d, d))]])
    try:
        S, D = dm.williamson(Mx.copy(), ctx.conn)
    except Exception as e:
        key = "williamson-raises-schur-not-converged" if "Schur form not found" in str(e) else "williamson-raises"
        ctx.viol(key, "williamson(%s d=%d) raised %s: %s" % (meta["cls"], d, type(e).__name__, e), case)
        return
    S = np.asarray(S)
    D = np.asarray(D)
    if S.shape != (n2, n2) or D.shape != (n2, n2):
        ctx.viol("williamson-shape", "williamson(%s d=%d) returned shapes %s, %s" % (meta["cls"], d, S.shape, D.shape), case)
        return
    ctx.c["williamson_comparisons"] += 1
    if meta.get("repeated"):
        ctx.c["williamson_repeated_cases"] += 1
    if not (np.all(np.isfinite(S)) and np.all(np.isfinite(D))):
        ctx.viol("williamson-not-finite", "williamson(%s d=%d) returned non-finite entries" % (meta["cls"], d), case)
        return
    snorm2 = float(np.linalg.norm(S, 2) ** 2)
    if _maxabs(np.imag(S)) > 0 or _maxabs(np.imag(D)) > 0:
        ctx.viol("williamson-not-real", "williamson(%s d=%d): S or D has a non-zero imaginary part" % (meta["cls"], d), case)
    S = np.real(S)
    D = np.real(D)
    dd = np.diag(D)
    if _maxabs(D - np.diag(dd)) > 0:
        ctx.viol("williamson-d-not-diagonal", "williamson(%s d=%d): D has off-diagonal entries" % (meta["cls"], d), case)
    if (dd <= 0).any():
        ctx.viol("williamson-d-not-positive", "williamson(%s d=%d): diagonal of D is not positive: %s" % (meta["cls"], d, dd), case)
    # symplectic eigenvalues come from inv(sqrt(M)): relative accuracy eps*cond
    tol_pair = C * EPS * n2 * cond * float(np.max(np.abs(dd)))
    dev_pair = _maxabs(dd[:d] - dd[d:])
    if ctx.ratio("williamson", dev_pair, tol_pair):
        ctx.viol("williamson-d-not-paired", "williamson(%s d=%d): D is not of the form diag(nu, nu): %s" % (meta["cls"], d, dd), case)
    tol_sp = C * EPS * n2 * cond * max(1.0, snorm2)
    dev_sp = _maxabs(S @ omega @ S.T - omega)
    if ctx.ratio("williamson", dev_sp, tol_sp):
        ctx.viol("williamson-not-symplectic", "williamson(%s d=%d): S Omega S^T differs from Omega by %.3g (tol %.3g, cond(M)=%.3g)" % (
            meta["cls"], d, dev_sp, tol_sp, cond), case)
    tol_r = C * EPS * n2 * norm
    dev_r = _maxabs(S @ D @ S.T - Mx)
    if ctx.ratio("williamson", dev_r, tol_r):
        ctx.viol("williamson-reconstruction", "williamson(%s d=%d): S D S^T differs from M by %.3g (tol %.3g, ||M||=%.3g)" % (
            meta["cls"], d, dev_r, tol_r, norm), case)
    ctx.classes.add("williamson:%s:d%d" % (meta["cls"], d))
    if len(ctx.samples) < 1 and d == 1:
        ctx.samples.append({"family": "williamson", "cls": meta["cls"], "M": M.enc(Mx), "D": dd.tolist(),
                            "symplectic_dev": dev_sp, "reconstruction_dev": dev_r})


# ------------------------------------------------------------------ Euler / Bloch-Messiah
def check_euler(ctx, pq, Sc, meta):
    import piquasso._math.decompositions as dm

    d = Sc.shape[0] // 2
    P = Sc[:d, :d]
    A = Sc[:d, d:]
    case = {"family": "euler", "cls": meta["cls"], "d": d, "matrix": M.enc(Sc),
            "r": None if meta.get("r") is None else [float(v) for v in meta["r"]]}
    ctx.evals += 1
    ctx.c["euler_cases"] += 1
    if d == 1:
        ctx.c["d1_cases"] += 1
    sv = np.linalg.svd(Sc, compute_uv=False)
    norm = float(sv[0])
    cond = float(sv[0] / sv[-1])
    r_des = meta.get("r")
    r_abs = np.abs(np.asarray(r_des, dtype=float)) if r_des is not None else np.log(sv[:d])
    amp = gap_amplification(r_abs) if np.max(r_abs) > 0 else 0.0
    ctx.phase = "euler"
    ctx.last_takagi = None
    try:
        Ul, D, Uf = dm.euler(Sc.copy(), ctx.conn)
    except Exception as e:
        ctx.phase = "direct"
        ctx.viol("euler-raises", "euler(%s d=%d) raised %s: %s" % (meta["cls"], d, type(e).__name__, e), case)
        return
    ctx.phase = "direct"
    Ul, D, Uf = np.asarray(Ul), np.asarray(D), np.asarray(Uf)
    if Ul.shape != (d, d) or Uf.shape != (d, d) or D.shape != (d,):
        ctx.viol("euler-shape", "euler(%s d=%d) returned shapes %s %s %s" % (meta["cls"], d, Ul.shape, D.shape, Uf.shape), case)
        return
    ctx.c["euler_comparisons"] += 1
    rep, nzero = degeneracy_info(r_abs)
    if rep or nzero >= 1:
        ctx.c["euler_degenerate_cases"] += 1
    if (not np.all(np.isfinite(D))) or _maxabs(np.imag(D)) > 0:
        ctx.viol("euler-squeezing-not-real", "euler(%s d=%d): squeezing values are not real: %s" % (meta["cls"], d, D), case)
        return
    D = np.real(D)
    # the generator block handed to takagi carries the rounding residue of polar + logm (~eps*||S||*cond), which
    # is not symmetric; see mixing_squared
    tol_u = C * EPS * 2 * d * cond + 2 * d * mixing_squared(r_abs, 1e2 * EPS * norm * cond)
    for name, Q in (("last", Ul), ("first", Uf)):
        dev_u = _maxabs(Q @ Q.conj().T - np.eye(d))
        if ctx.ratio("euler_unitarity", dev_u, tol_u):
            ctx.viol("euler-factor-not-unitary", "euler(%s d=%d): the %s passive factor is not unitary (%.3g, tol %.3g)" % (
                meta["cls"], d, name, dev_u, tol_u), case)
    # polar factor and matrix logarithm of R (cond(R) = cond(S)), then Takagi of the generator block
    tol = C * EPS * 2 * d * norm * cond * (1.0 + amp) + 2 * d * norm * mixing_squared(r_abs, 1e2 * EPS * norm * cond)
    P2 = Ul @ np.diag(np.cosh(D)) @ Uf
    A2 = -Ul @ np.diag(np.sinh(D)) @ Uf.conj()
    dev = max(_maxabs(P2 - P), _maxabs(A2 - A))
    if ctx.ratio("euler", dev, tol):
        key = "euler-recomposition-via-takagi-branch-cut" if inner_takagi_failed_on_branch_cut(ctx) else "euler-recomposition"
        ctx.viol(key, "euler(%s d=%d): U_last Squeezing(D) U_first differs from the input by %.3g (tol %.3g, cond %.3g, gap amplification %.3g)" % (
            meta["cls"], d, dev, tol, cond, amp), case)
    ctx.classes.add("euler:%s:d%d" % (meta["cls"], d))
    if len(ctx.samples) < 1 and d == 2:
        ctx.samples.append({"family": "euler", "cls": meta["cls"], "symplectic": M.enc(Sc), "D": D.tolist(), "recomposition_dev": dev, "tol": tol})


# ------------------------------------------------------------------ Graph gate
def _expected_scaling(s, total):
    """x with sum (x s)^2/(1-(x s)^2) = total, by bisection on (0, 1/smax); also dN/dx just right of it."""
    s = np.asarray(s, dtype=float)
    smax = s.max()

    def N(x):
        y = (x * s) ** 2
        return float(np.sum(y / (1 - y)))

    lo, hi = 0.0, 1.0 / smax
    for _ in range(400):
        mid = 0.5 * (lo + hi)
        if mid == lo or mid == hi:
            break
        if mid * smax >= 1 or N(mid) > total:
            hi = mid
        else:
            lo = mid
    x = 0.5 * (lo + hi)
    return x


def check_graph(ctx, pq, adj, meta):
    n = adj.shape[0]
    modes = [int(m) for m in meta["modes"]]
    d_total = int(meta["d_total"])
    nbar = float(meta["nbar"])
    case = {"family": "graph", "cls": meta["cls"], "n": n, "dtype": adj.dtype.str, "matrix": M.enc(adj),
            "modes": modes, "d_total": d_total, "nbar": nbar}
    ctx.evals += 1
    ctx.c["graph_cases"] += 1
    if n == 1:
        ctx.c["d1_cases"] += 1
    s = np.linalg.svd(np.asarray(adj, dtype=complex), compute_uv=False)
    if s[0] == 0:
        raise HarnessError("zero adjacency matrix generated")
    ctx.phase = "graph"
    ctx.last_takagi = None
    try:
        sim = pq.GaussianSimulator(d=d_total)
        state = sim.execute(pq.Program(instructions=[pq.Graph(adj.copy(), mean_photon_number=nbar).on_modes(*modes)])).state
        ntot = float(state.mean_photon_number())
        nper = [float(state.mean_photon_number((m,))) for m in range(d_total)]
        Q = np.asarray(state.Q_matrix)
    except Exception as e:
        ctx.phase = "direct"
        ctx.viol("graph-raises", "Graph(%s n=%d nbar=%.3g) on GaussianSimulator raised %s: %s" % (meta["cls"], n, nbar, type(e).__name__, e), case)
        return
    ctx.phase = "direct"
    ctx.c["graph_executions"] += 1
    if modes != sorted(modes) or modes != list(range(n)):
        ctx.c["graph_permuted_modes"] += 1
    if np.sum(s <= 64 * n * EPS * s[0]):
        ctx.c["graph_rank_deficient"] += 1
    # --- mean photon number: the solver (brentq, xtol=2e-12, rtol=4 eps) fixes the scaling x to dx
    x = _expected_scaling(s, n * nbar)
    dx = 2 * (2e-12 + 4 * EPS * x)
    y = ((x + dx) * s) ** 2
    if (y >= 1).any():
        raise HarnessError("photon-number request too close to the pole for the derived tolerance")
    dNdx = float(np.sum(2 * (x + dx) * s ** 2 / (1 - y) ** 2))
    ntop = float(np.max(y / (1 - y)))
    tol_n = dNdx * dx + C * EPS * n * (1.0 + ntop) * 4
    dev_n = abs(ntot - n * nbar)
    if ctx.ratio("graph", dev_n, tol_n):
        ctx.viol("graph-mean-photon-number", "Graph(%s n=%d) requested %.6g photons per mode (%.6g in total) but the state holds %.12g (dev %.3g, tol %.3g)" % (
            meta["cls"], n, nbar, n * nbar, ntot, dev_n, tol_n), case)
    outside = [m for m in range(d_total) if m not in modes]
    if any(abs(nper[m]) > C * EPS for m in outside):
        ctx.viol("graph-touches-other-modes", "Graph on modes %s left photons in other modes: %s" % (modes, nper), case)
    if max(abs(nper[m] - nbar) for m in modes) > 10 * tol_n:
        ctx.c["graph_cases_with_unequal_per_mode_n"] += 1
        ctx.obs.add("Graph: only the average over the graph's modes equals mean_photon_number; individual modes differ for non-regular graphs")
    # --- A matrix
    Dt = d_total
    X = np.block([[np.zeros((Dt, Dt)), np.eye(Dt)], [np.eye(Dt), np.zeros((Dt, Dt))]])
    condQ = float(np.linalg.cond(Q))
    Afull = X @ (np.eye(2 * Dt) - np.linalg.inv(Q))
    B = Afull[:Dt, :Dt]
    Cb = Afull[:Dt, Dt:]
    tol_a = C * EPS * 2 * Dt * condQ * max(1.0, _maxabs(Afull))
    target = np.zeros((Dt, Dt), dtype=complex)
    target[np.ix_(modes, modes)] = adj
    best = None
    for name, T in (("adj", target), ("conj", target.conj())):
        kappa = np.vdot(T, B) / np.vdot(T, T)
        res = _maxabs(B - kappa * T)
        if best is None or res < best[1] - tol_a:
            best = (name, res, kappa)
    dev_a = max(best[1], _maxabs(Cb))
    if ctx.ratio("graph", dev_a, tol_a) or abs(best[2]) == 0:
        key = "graph-A-not-proportional-via-takagi-branch-cut" if inner_takagi_failed_on_branch_cut(ctx) else "graph-A-not-proportional"
        ctx.viol(key, "Graph(%s n=%d): A = X(1 - Q^-1) is not (B (+) B*) with B proportional to the adjacency matrix: residual %.3g, off-block %.3g (tol %.3g)" % (
            meta["cls"], n, best[1], _maxabs(Cb), tol_a), case)
    else:
        ctx.c["graph_A_matches_adj" if best[0] == "adj" else "graph_A_matches_conj_adj_only"] += 1
    ctx.classes.add("graph:%s:%s:n%d:%s" % (meta["cls"], adj.dtype.kind, n, "id" if modes == list(range(n)) else "perm"))
    if len(ctx.samples) < 2 and n == 3:
        ctx.samples.append({"family": "graph", "cls": meta["cls"], "adjacency": M.enc(adj), "modes": modes, "nbar": nbar,
                            "total_mean_photon_number": ntot, "kappa": [float(np.real(best[2])), float(np.imag(best[2]))],
                            "A_orientation": best[0]})


# ------------------------------------------------------------------ generators
def _hermitian(rng, d):
    h = rng.normal(size=(d, d)) + 1j * rng.normal(size=(d, d))
    return (h + h.conj().T) / 2


def _givens(d, i, j, th, ph):
    g = np.eye(d, dtype=complex)
    g[i, i] = np.cos(th)
    g[i, j] = -np.exp(-1j * ph) * np.sin(th)
    g[j, i] = np.exp(1j * ph) * np.sin(th)
    g[j, j] = np.cos(th)
    return g


SPECIAL_ANGLES = [0.0, np.pi / 2, -np.pi / 2, np.pi, np.pi / 4, -np.pi / 4, 1e-12, 1e-9, 2 * np.pi, 0.3]


def gen_unitary(rng, d):
    import scipy.linalg as sl

    r = rng.random()
    if d == 1:
        k = int(rng.integers(0, 4))
        U = np.array([[[1.0, -1.0, 1j, np.exp(1j * rng.uniform(0, 2 * np.pi))][k]]], dtype=complex)
        cls = ["one", "minus-one", "i", "phase"][k]
    elif r < 0.56:
        U, cls = M.structured_unitary(rng, d)
    elif r < 0.64:
        e = float(rng.choice([1e-14, 1e-12, 1e-10, 3e-9, 1e-8, 1e-7, 1e-5, 1e-3]))
        U = sl.expm(1j * e * _hermitian(rng, d))
        if rng.random() < 0.5:
            U = np.eye(d)[rng.permutation(d)] @ U
        cls = "near-identity"
    elif r < 0.72:
        U = np.eye(d, dtype=complex)
        for _ in range(int(rng.integers(1, 5))):
            i, j = rng.choice(d, size=2, replace=False)
            U = _givens(d, int(i), int(j), float(rng.choice(SPECIAL_ANGLES)), float(rng.choice(SPECIAL_ANGLES))) @ U
        cls = "givens-special-angles"
    elif r < 0.79:
        w = np.exp(2j * np.pi / d)
        U = np.array([[w ** (a * b) for b in range(d)] for a in range(d)]) / np.sqrt(d)
        if rng.random() < 0.5:
            U = U * np.exp(1j * rng.uniform(0, 2 * np.pi, size=d))
        cls = "dft"
    elif r < 0.85:
        U = np.eye(d)[::-1].astype(complex) if rng.random() < 0.5 else np.roll(np.eye(d), 1, axis=0).astype(complex)
        cls = "antidiagonal-or-shift"
    elif r < 0.93:
        U = np.eye(d, dtype=complex)
        i = 0
        while i + 1 < d:
            U[i:i + 2, i:i + 2] = M.haar_unitary(rng, 2)
            i += 2
        p = rng.permutation(d)
        if rng.random() < 0.5:
            U = U[p][:, rng.permutation(d)]
        cls = "two-by-two-blocks"
    else:
        U = np.eye(d, dtype=complex)
        U[:d - 1, :d - 1] = M.haar_unitary(rng, d - 1)
        p, q = rng.permutation(d), rng.permutation(d)
        U = U[p][:, q]
        cls = "haar-plus-fixed-mode"
    U = np.asarray(U, dtype=complex)
    if not np.any(U.imag) and rng.random() < 0.4:
        U = np.ascontiguousarray(U.real)
    return U, cls


NEAR_DELTAS = [1e-14, 1e-12, 1e-10, 1e-8, 1e-6, 5e-6, 1.5e-5, 1e-4, 1e-3]


def s_pattern(rng, n):
    k = int(rng.integers(0, 10))
    if k == 0:
        return rng.uniform(0.1, 3.0, size=n), "distinct"
    if k == 1:
        return np.full(n, float(rng.choice([0.5, 1.0, 2.0, rng.uniform(0.1, 3)]))), "all-equal"
    if k == 2:
        base = rng.uniform(0.2, 3.0, size=(n + 1) // 2)
        return np.repeat(base, 2)[:n], "pairs"
    if k == 3:
        return rng.choice([1.0, 2.0, 3.0], size=n), "small-integers"
    if k == 4:
        s = rng.uniform(0.2, 2.0, size=n)
        m = int(rng.integers(1, n + 1))
        s[rng.permutation(n)[:m]] = 0.0
        return s, "zeros"
    if k == 5:
        return np.zeros(n), "all-zero"
    if k == 6:
        delta = float(rng.choice(NEAR_DELTAS))
        return float(rng.uniform(0.5, 2.0)) * (1.0 + delta * np.arange(n)), "near-degenerate"
    if k == 7:
        return 10.0 ** rng.uniform(-9, 0, size=n), "wide-range"
    if k == 8:
        s = rng.choice([0.0, 0.0, 1.0, 1.0, 2.5], size=n)
        return s, "zeros-and-repeated"
    s = np.full(n, 1.0)
    s[0] = float(rng.choice([1.0 + 1e-9, 2.0, 1.0 + 2e-5]))
    return s, "one-off"


GRAPH_KINDS = ["complete", "path", "cycle", "star", "two-components", "isolated-vertex", "erdos-renyi", "weighted",
               "signed-weighted", "complex-weighted", "self-loops", "complete-bipartite"]


def gen_adjacency(rng, n, kind=None):
    kind = kind or str(rng.choice(GRAPH_KINDS))
    a = np.zeros((n, n))
    if n == 1:
        w = float(rng.choice([1.0, 0.3, 2.0]))
        return np.array([[w]]), "loop-1"
    if kind == "complete":
        a = np.ones((n, n)) - np.eye(n)
    elif kind == "path":
        for i in range(n - 1):
            a[i, i + 1] = a[i + 1, i] = 1
    elif kind == "cycle":
        for i in range(n):
            a[i, (i + 1) % n] = a[(i + 1) % n, i] = 1
    elif kind == "star":
        a[0, 1:] = 1
        a[1:, 0] = 1
    elif kind == "two-components":
        m = max(1, n // 2)
        a[:m, :m] = 1 - np.eye(m)
        a[m:, m:] = 1 - np.eye(n - m)
        if not a.any():
            a[0, 0] = 1.0
    elif kind == "isolated-vertex":
        m = n - 1 if n < 4 else n - int(rng.integers(1, 3))
        a[:m, :m] = 1 - np.eye(m) if m > 1 else 1.0
    elif kind == "erdos-renyi":
        u = np.triu((rng.random((n, n)) < 0.5).astype(float), 1)
        a = u + u.T
        if not a.any():
            a[0, 1] = a[1, 0] = 1
    elif kind in ("weighted", "signed-weighted", "complex-weighted"):
        u = np.triu(rng.uniform(0.1, 2.0, size=(n, n)), 1) * (rng.random((n, n)) < 0.8)
        if kind == "signed-weighted":
            u = u * rng.choice([-1.0, 1.0], size=(n, n))
        if kind == "complex-weighted":
            u = u * np.exp(1j * rng.uniform(0, 2 * np.pi, size=(n, n)))
        a = u + u.T
        if not a.any():
            a = a.astype(u.dtype)
            a[0, 1] = a[1, 0] = 1
    elif kind == "self-loops":
        a = np.ones((n, n)) - np.eye(n) + np.diag(rng.choice([0.0, 1.0, 2.0], size=n))
    elif kind == "complete-bipartite":
        m = max(1, n // 2)
        a[:m, m:] = 1
        a[m:, :m] = 1
    p = rng.permutation(n)
    if rng.random() < 0.5:
        a = a[p][:, p]
    return a, kind


def gen_symmetric(rng, n):
    """(A, class, designed singular values or None)."""
    r = rng.random()
    svals = None
    if n == 1:
        k = int(rng.integers(0, 5))
        v = [0.0, 1.0, -2.0, 1j, rng.normal() + 1j * rng.normal()][k]
        A = np.array([[v]], dtype=complex)
        cls = "scalar-" + ["zero", "positive", "negative", "imaginary", "complex"][k]
    elif r < 0.62:
        U, ucls = M.structured_unitary(rng, n)
        s, scls = s_pattern(rng, n)
        A = U @ np.diag(s) @ U.T
        svals = s
        cls = "udu:%s:%s" % (ucls, scls)
    elif r < 0.76:
        O = M.haar_orthogonal(rng, n) if rng.random() < 0.7 else np.eye(n)[rng.permutation(n)]
        lam = rng.choice([-2.0, -1.0, 0.0, 1.0, 2.0], size=n) if rng.random() < 0.7 else rng.normal(size=n)
        A = O @ np.diag(lam) @ O.T
        svals = np.abs(lam)
        cls = "real-eigen:%s" % ("pm-integers" if np.all(lam == np.round(lam)) else "generic")
    elif r < 0.88:
        A, kind = gen_adjacency(rng, n)
        cls = "adjacency:" + kind
    elif r < 0.94:
        k = int(rng.integers(0, 4))
        if k == 0:
            A = np.eye(n)[::-1].astype(complex)
        elif k == 1:
            A = np.full((n, n), 2j) + np.diag(np.full(n, 1.0 - 2j))
        elif k == 2:
            A = np.diag(np.exp(1j * rng.uniform(0, 2 * np.pi, size=n)) * rng.choice([0.0, 1.0, 2.0], size=n))
        else:
            A = np.ones((n, n), dtype=complex)
        cls = "literal-%d" % k
    else:
        z = rng.normal(size=(n, n)) + 1j * rng.normal(size=(n, n))
        A = z + z.T
        cls = "random-symmetric"
    A = np.asarray(A)
    A = (A + A.T) / 2
    if rng.random() < 0.2:
        sc = float(rng.choice([1e-6, 1e-3, 1e3, 1e6]))
        A = A * sc
        if svals is not None:
            svals = np.asarray(svals) * sc
        cls += ":scaled"
    if np.iscomplexobj(A) and not np.any(A.imag):
        A = np.ascontiguousarray(A.real) if rng.random() < 0.4 else A
    elif not np.iscomplexobj(A) and rng.random() < 0.6:
        A = A.astype(complex)
    return A, cls, svals


def squeeze_pattern(rng, d, rmax):
    k = int(rng.integers(0, 8))
    if k == 0:
        return rng.uniform(-rmax, rmax, size=d), "generic"
    if k == 1:
        return np.full(d, float(rng.uniform(0.1, rmax))), "all-equal"
    if k == 2:
        return np.zeros(d), "all-zero"
    if k == 3:
        r = rng.uniform(0.1, rmax, size=d)
        r[rng.permutation(d)[: int(rng.integers(1, d + 1))]] = 0.0
        return r, "some-zero"
    if k == 4:
        r = np.full(d, float(rng.uniform(0.1, rmax)))
        r[::2] *= -1
        return r, "equal-modulus-opposite-sign"
    if k == 5:
        return float(rng.uniform(0.2, rmax)) * (1 + float(rng.choice(NEAR_DELTAS)) * np.arange(d)), "near-degenerate"
    if k == 6:
        return rng.choice([1e-9, 1e-6, 1e-3], size=d) * rng.choice([1.0, 2.0], size=d), "tiny"
    base = rng.uniform(0.1, rmax, size=(d + 1) // 2)
    return np.repeat(base, 2)[:d], "pairs"


def passive_pattern(rng, d):
    k = int(rng.integers(0, 5))
    if k == 0:
        return M.haar_unitary(rng, d), "haar"
    if k == 1:
        return np.eye(d, dtype=complex), "identity"
    if k == 2:
        return np.eye(d)[rng.permutation(d)].astype(complex), "permutation"
    if k == 3:
        return np.diag(np.exp(1j * rng.uniform(0, 2 * np.pi, size=d))), "phases"
    return M.haar_orthogonal(rng, d).astype(complex), "orthogonal"


def gen_symplectic_blocks(rng, d, rmax):
    u1, c1 = passive_pattern(rng, d)
    u2, c2 = passive_pattern(rng, d)
    r, rc = squeeze_pattern(rng, d, rmax)
    P = u1 @ np.diag(np.cosh(r)) @ u2
    A = u1 @ np.diag(np.sinh(r)) @ u2.conj()
    return P, A, r, "%s:%s:%s" % (c1, rc, c2)


def gen_posdef(rng, d):
    r = rng.random()
    repeated = False
    if r < 0.08:
        g = rng.normal(size=(2 * d, 2 * d))
        Mx = g @ g.T + float(rng.uniform(0.1, 2)) * np.eye(2 * d)
        cls = "random-spd"
    elif r < 0.14:
        k = int(rng.integers(0, 3))
        Mx = [np.eye(2 * d), np.diag(np.arange(1.0, 2 * d + 1)), float(rng.uniform(0.1, 5)) * np.eye(2 * d)][k]
        repeated = k != 1 and d > 1
        cls = ["identity", "diag-1..2d", "scalar"][k]
    else:
        P, A, rr, scls = gen_symplectic_blocks(rng, d, rmax=float(rng.choice([0.3, 1.0])))
        S = M.real_symplectic_xxpp(P, A)
        k = int(rng.integers(0, 6))
        if k == 0:
            nu, ncls = np.ones(d), "pure"
        elif k == 1:
            nu, ncls = np.full(d, float(rng.uniform(1, 4))), "all-equal"
        elif k == 2:
            nu, ncls = np.repeat(rng.uniform(1, 4, size=(d + 1) // 2), 2)[:d], "pairs"
        elif k == 3:
            nu, ncls = 1 + rng.exponential(0.8, size=d), "distinct"
        elif k == 4:
            nu, ncls = float(rng.uniform(1, 3)) * (1 + float(rng.choice(NEAR_DELTAS)) * np.arange(d)), "near-degenerate"
        else:
            nu, ncls = rng.choice([1.0, 1.0, 2.0, 3.0], size=d), "small-integers"
        repeated = d > 1 and len(set(np.round(nu, 12).tolist())) < d
        scale = float(rng.choice([1.0, 1.0, 0.5, 0.185, 1.65, 1e-3, 1e3]))
        Mx = scale * S @ np.diag(np.concatenate([nu, nu])) @ S.T
        cls = "sds:%s:nu-%s%s" % (scls, ncls, "" if scale == 1.0 else ":scaled")
    Mx = (Mx + Mx.T) / 2
    return np.ascontiguousarray(Mx, dtype=float), cls, repeated


def gen_graph_case(rng):
    n = int(rng.choice([1, 2, 2, 3, 3, 4, 4, 5, 5, 6, 6]))
    adj, kind = gen_adjacency(rng, n)
    if not np.iscomplexobj(adj):
        if np.all(adj == np.round(adj)) and rng.random() < 0.4:
            adj = adj.astype(np.int64)
        elif rng.random() < 0.3:
            adj = adj.astype(complex)
    d_total = int(rng.integers(n, 7))
    modes = [int(m) for m in (rng.permutation(d_total)[:n] if rng.random() < 0.6 else np.arange(n))]
    nbar = float(rng.choice([0.05, 3.0, 1.0, rng.uniform(0.05, 3.0), rng.uniform(0.05, 3.0)]))
    return adj, {"cls": kind, "modes": modes, "d_total": d_total, "nbar": nbar}


def _pick_d(rng, dmax=6):
    return int(rng.choice([1] + list(range(2, dmax + 1)) * 3))


# ------------------------------------------------------------------ fixed (seed-independent) cases
def fixed_cases(kind):
    out = []
    if kind == "takagi":
        out.append((np.array([[1, 2], [2, 1]], dtype=complex), {"cls": "fixed-real-2x2"}))
        out.append((np.array([[1, 2j], [2j, 1]], dtype=complex), {"cls": "fixed-complex-2x2-multiplicity"}))
        out.append((np.array([[0, 1], [1, 0]], dtype=float), {"cls": "fixed-swap-real"}))
        out.append((np.zeros((3, 3)), {"cls": "fixed-zero-real"}))
        out.append((np.zeros((3, 3), dtype=complex), {"cls": "fixed-zero-complex"}))
        out.append((np.eye(4), {"cls": "fixed-identity-real"}))
        out.append((-np.eye(4, dtype=complex), {"cls": "fixed-minus-identity"}))
        out.append((1j * np.eye(3, dtype=complex), {"cls": "fixed-i-identity"}))
        out.append((np.diag([1.0, -1.0, 1.0, -1.0]), {"cls": "fixed-signs-real"}))
        for n in (4, 5, 6):
            star = np.zeros((n, n))
            star[0, 1:] = 1
            star[1:, 0] = 1
            out.append((star, {"cls": "fixed-star-real"}))
            out.append((star.astype(complex), {"cls": "fixed-star-complex"}))
        for t in (0.3, 0.8, 1.0, 1.7, 2.8):  # (numerically) the identity, produced by an orthogonal congruence
            R = np.array([[np.cos(t), -np.sin(t)], [np.sin(t), np.cos(t)]])
            out.append(((R @ R.T).astype(complex), {"cls": "fixed-rotated-identity-complex", "svals": [1.0, 1.0]}))
            out.append((R @ R.T, {"cls": "fixed-rotated-identity-real", "svals": [1.0, 1.0]}))
        c4 = np.array([[0, 1, 0, 1], [1, 0, 1, 0], [0, 1, 0, 1], [1, 0, 1, 0]], dtype=float)
        out.append((c4, {"cls": "fixed-cycle4-real"}))
        out.append((c4.astype(complex), {"cls": "fixed-cycle4-complex"}))
        k22 = np.array([[0, 0, 1, 1], [0, 0, 1, 1], [1, 1, 0, 0], [1, 1, 0, 0]], dtype=float)
        out.append((k22, {"cls": "fixed-k22-real"}))
        out.append((k22.astype(np.int64), {"cls": "fixed-k22-int"}))
        out.append((k22.astype(complex), {"cls": "fixed-k22-complex"}))
        v = np.array([1.0, 2.0, 3.0])
        out.append((np.outer(v, v), {"cls": "fixed-rank-one-real", "svals": [14.0, 0.0, 0.0]}))
        for sc in (1.0, 1e3, 1e6):
            out.append((sc * np.outer(v, v).astype(complex), {"cls": "fixed-rank-one-complex-scale-%g" % sc, "svals": [14.0 * sc, 0.0, 0.0]}))
    elif kind == "graph":
        for n in (2, 3, 4, 5, 6):
            for k in ("complete", "path", "star", "two-components", "isolated-vertex"):
                a, kk = gen_adjacency(np.random.default_rng(n), n, k)
                for nbar in (0.05, 1.0, 3.0):
                    out.append((a, {"cls": "fixed-" + kk, "modes": list(range(n)), "d_total": n, "nbar": nbar}))
        c5 = np.zeros((5, 5), dtype=complex)  # the 5-cycle 0-1-3-4-2-0 (singular values 2, 1.618 x2, 0.618 x2)
        for i, j in ((0, 1), (1, 3), (3, 4), (4, 2), (2, 0)):
            c5[i, j] = c5[j, i] = 1.0
        for nbar in (1.0, 3.0):
            out.append((c5, {"cls": "fixed-cycle5-relabelled-complex", "modes": list(range(5)), "d_total": 5, "nbar": nbar}))
            out.append((c5.real.copy(), {"cls": "fixed-cycle5-relabelled-real", "modes": list(range(5)), "d_total": 5, "nbar": nbar}))
    elif kind == "clements":
        for d in range(1, 7):
            out.append((np.eye(d, dtype=complex), {"cls": "fixed-identity"}))
            out.append((np.eye(d), {"cls": "fixed-identity-real"}))
            out.append((np.eye(d)[::-1].astype(complex), {"cls": "fixed-reversal"}))
            out.append((-np.eye(d, dtype=complex), {"cls": "fixed-minus-identity"}))
        import scipy.linalg as sl

        for d in (3, 4):
            H = np.array([[1.0 / (1 + i + j) + 1j * (i - j) / 3.0 for j in range(d)] for i in range(d)])
            for e in (1e-10, 1e-8, 1e-6):
                out.append((sl.expm(1j * e * H), {"cls": "fixed-near-identity"}))
    elif kind == "williamson":
        for d in range(1, 7):
            out.append((np.eye(2 * d), {"cls": "fixed-identity", "repeated": d > 1}))
        out.append((np.diag([1.0, 2.0, 3.0, 4.0]), {"cls": "fixed-diag-1234"}))
        a, b = 1.6499999999999995, 3.3637620846412307e-16  # 1.65 * O O^T of a symplectic rotation O, as rounded
        blk = np.array([[a, b], [b, a]])
        out.append((np.block([[blk, np.zeros((2, 2))], [np.zeros((2, 2)), blk]]), {"cls": "fixed-scalar-with-rounding-noise", "repeated": True}))
    elif kind == "euler":
        for d in range(1, 7):
            out.append((np.eye(2 * d, dtype=complex), {"cls": "fixed-identity", "r": [0.0] * d}))
            r = np.full(d, 0.5)
            Sc = np.block([[np.diag(np.cosh(r)), np.diag(np.sinh(r))], [np.diag(np.sinh(r)), np.diag(np.cosh(r))]]).astype(complex)
            out.append((Sc, {"cls": "fixed-equal-squeezing", "r": r.tolist()}))
        frng = np.random.default_rng(15)  # seed-independent: opposite squeezers of equal strength behind a real rotation
        for _ in range(40):
            d = int(frng.integers(2, 7))
            u1 = M.haar_orthogonal(frng, d).astype(complex)
            r = np.full(d, 0.5)
            r[::2] *= -1
            P = u1 @ np.diag(np.cosh(r))
            A = u1 @ np.diag(np.sinh(r))
            out.append((M.complex_symplectic(P, A), {"cls": "fixed-orthogonal:equal-modulus-opposite-sign:identity", "r": r.tolist()}))
    return out


# ------------------------------------------------------------------ plan / shard / replay
# process start-up (import of piquasso with its TensorFlow/JAX connectors) costs more than the cases of a quick
# shard, so the quick tier uses few, larger shards
FAMILY_SHARDS = {
    "quick": [("clements", 3, 700), ("takagi", 2, 4000), ("williamson", 1, 4500), ("euler", 1, 2400), ("graph", 1, 1000)],
    "thorough": [("clements", 5, 4500), ("takagi", 3, 32000), ("williamson", 2, 25000), ("euler", 1, 24000), ("graph", 1, 10000)],
}
SHARD_BASE = {"clements": 0, "takagi": 10, "williamson": 20, "euler": 30, "graph": 40}


def plan(tier, seed):
    import os

    specs = []
    only = [f for f in os.environ.get("VERIF_C15_ONLY", "").split(",") if f]  # development aid; a restricted run
    for fam, nsh, count in FAMILY_SHARDS[tier]:                               # leaves REQUIRED counters at zero => exit 2
        if only and fam not in only:
            continue
        for i in range(nsh):
            # matrices are at most 12x12: BLAS/OpenMP worker threads only add contention between shards
            specs.append({"name": "%s-%d" % (fam, i), "kind": fam, "shard": SHARD_BASE[fam] + i, "count": count,
                          "fixed": i == 0,
                          "env": {"OPENBLAS_NUM_THREADS": "1", "OMP_NUM_THREADS": "1", "MKL_NUM_THREADS": "1"}})
    return specs


def _setup():
    from vf import boot

    pq = boot.import_piquasso()
    ctx = Ctx()
    ctx.conn = pq.NumpyConnector()
    install_hooks(ctx)
    return pq, ctx


CHECKS = {"clements": check_clements, "takagi": check_takagi, "williamson": check_williamson, "euler": check_euler,
          "graph": check_graph}


def run_shard(spec):
    pq, ctx = _setup()
    rng = np.random.default_rng([int(spec["seed"]), 15, int(spec["shard"])])
    kind = spec["kind"]
    t0 = time.time()
    budget = 240 if spec["tier"] == "quick" else 1200
    fn = CHECKS[kind]
    if spec.get("fixed"):
        for mat, meta in fixed_cases(kind):
            fn(ctx, pq, mat, meta)
    for i in range(int(spec["count"])):
        if time.time() - t0 > budget:
            ctx.obs.add("shard %s stopped by its time budget after %d of %d cases" % (spec["name"], i, spec["count"]))
            break
        if kind == "clements":
            d = _pick_d(rng)
            U, cls = gen_unitary(rng, d)
            if cls == "near-identity":
                ctx.c["clements_near_identity_inputs"] += 1
            fn(ctx, pq, U, {"cls": cls})
        elif kind == "takagi":
            n = _pick_d(rng)
            A, cls, svals = gen_symmetric(rng, n)
            fn(ctx, pq, A, {"cls": cls, "svals": svals})
        elif kind == "williamson":
            d = _pick_d(rng)
            Mx, cls, repeated = gen_posdef(rng, d)
            fn(ctx, pq, Mx, {"cls": cls, "repeated": repeated})
        elif kind == "euler":
            d = _pick_d(rng)
            P, A, r, cls = gen_symplectic_blocks(rng, d, rmax=float(rng.choice([0.5, 1.0, 1.8])))
            fn(ctx, pq, M.complex_symplectic(P, A), {"cls": cls, "r": r})
        else:
            adj, meta = gen_graph_case(rng)
            fn(ctx, pq, adj, meta)
    counters = dict(ctx.c)
    return {"evaluations": ctx.evals, "classes": sorted(ctx.classes), "violations": ctx.violations,
            "counters": counters, "samples": ctx.samples, "observations": sorted(ctx.obs)}


def replay(case):
    pq, ctx = _setup()
    fam = case["family"]
    mat = M.dec(case["matrix"])
    if fam == "clements":
        if case.get("dtype") == "f":
            mat = np.ascontiguousarray(np.real(mat))
        else:
            mat = np.asarray(mat, dtype=complex)
        check_clements(ctx, pq, mat, {"cls": case["cls"]})
    elif fam == "takagi":
        mat = np.asarray(mat).astype(np.dtype(case["dtype"]))
        check_takagi(ctx, pq, mat, {"cls": case["cls"], "svals": case.get("svals")})
    elif fam == "williamson":
        check_williamson(ctx, pq, np.asarray(mat, dtype=float), {"cls": case["cls"]})
    elif fam == "euler":
        check_euler(ctx, pq, np.asarray(mat, dtype=complex), {"cls": case["cls"], "r": case.get("r")})
    elif fam == "graph":
        mat = np.asarray(mat).astype(np.dtype(case["dtype"]))
        check_graph(ctx, pq, mat, {"cls": case["cls"], "modes": case["modes"], "d_total": case["d_total"], "nbar": case["nbar"]})
    return ctx.violations
