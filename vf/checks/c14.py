"""C14 - Gaussian states are hbar-invariant and representation-consistent.

One physical Gaussian state (dimensionless first and second moments, or a gate program) is
realised at every hbar of a set through every setter the class offers (xpxp / xxpp mean and
covariance, the Mean / Covariance preparations) or by running the same gate program with
pq.GaussianSimulator. A recorder reads every representation and every observable of the real
GaussianState objects; the oracles are

  * within one state: the documented relations between the representations (permutation
    xxpp <-> xpxp, M = sigma + 2 mu mu^T, mu_c = W mu_xxpp / sqrt(hbar),
    sigma_c = W sigma_xxpp W^+ / hbar, _m/_C/_G from those, Q = (sigma_c + 1)/2), setter ->
    getter round trips, reduction to every ordered mode subset and rotation commuting with
    the change of representation;
  * across hbar: dimensionless observables equal, quadrature means / sqrt(hbar) and
    covariances / hbar equal.

A value that is wrong at every hbar in the same way is outside this property; it is written
to the observations only.
"""

import itertools
import time

import numpy as np

from vf.gen import matrices as M
from vf.gen import programs as P

ID = "C14"
LEVEL = "exploration"
TECHNIQUE = ("runtime monitoring: recorder on real GaussianState objects built through every setter / by the same gate "
             "program at several hbar; metamorphic oracle (hbar scaling) plus the documented relations between representations")
DESIGN_REF = "DESIGN.md §4 C14"
LEVEL_TEXT = (
    "Random physical Gaussian states on 1-4 modes (vacuum, coherent, thermal, pure squeezed, mixed, displaced) and random "
    "gate/channel programs are realised at hbar in {0.37, 1, 2, 3.3, 10} plus one random hbar per case; every "
    "representation getter, every ordered mode subset of reduced(), rotated(), and every listed observable is read "
    "from the real objects and compared within a state (representation relations) and across hbar (scaling law). "
    "Held = no disagreement on the states generated."
)
LEVEL_NOTE = (
    "Sampled, not exhaustive. Only the NumPy connector and float64 are exercised. Values that are wrong but identical "
    "at every hbar are not judged here (observations only: e.g. get_phaseshifter_expectation_value on >= 2 modes, the "
    "xxpp/xpxp mix-up inside wigner_function on >= 2 modes). purify(), wigner_function() and is_pure() are recorded as "
    "observations only; measurement sampling is outside this check. The fidelity comparison uses a Bauer-Fike error bound "
    "of the implemented formula (up to ~1e-4 relative on pure states) instead of the flat 1e-9."
)
RULE = (
    "cases = one per physical state (setter family) or gate program (program family); each case is realised at 6 hbar "
    "values (x 4 setter paths for the setter family) and every realisation goes through the representation recorder; "
    "one realisation per hbar goes through the reduced()/rotated() and observable recorders. distinct_nontrivial = "
    "number of distinct (family, d, state flavour or sorted gate multiset + mode-order patterns) classes among cases "
    "whose cross-hbar comparison ran."
)
ASSUMPTIONS = [
    "the documented definitions in GaussianState docstrings (sigma = <RR+RR> - 2<R><R>, x = sqrt(hbar/2)(a + a^+), "
    "mu_c = W mu, sigma_c = W sigma W^+ / hbar, rotated(): a -> exp(-i phi) a) define the intended relations",
    "gate parameters (r, phi, theta, alpha, s, X, Y, mean photon numbers) are dimensionless, as their docstrings state, "
    "so one program denotes one physical state at every hbar",
    "numpy.linalg for the harness-side recomputation",
]
REQUIRED = ["rep_comparisons", "setter_roundtrips", "reduced_subsets", "rotations", "cross_hbar_comparisons",
            "programs_run", "purity_comparisons", "fidelity_comparisons", "string_moment_comparisons"]
WATCHDOG = {"quick": 900, "thorough": 3000}

HBARS = [0.37, 1.0, 2.0, 3.3, 10.0]
REF_HBAR = 2.0
EPS = float(np.finfo(np.float64).eps)
C_REP = 1e3      # representation relations: C_REP * eps * scale
X_TOL = 1e-9     # cross-hbar equality of dimensionless quantities (relative to max(1, |value|))
PATHS = ("xpxp", "xxpp", "instr", "mixed")
# Symptom predicate "purity(hbar) * (hbar/2)^d does not depend on hbar": get_purity = 2^d / sqrt(det sigma) without the
# 1/hbar^d. Found by this check on the original tree (vacuum purity (2/hbar)^d) and fixed in the repository by
# "fix: GaussianState.get_purity takes hbar into account"; the key stays so that a regression is named the same way, and
# any other hbar dependence of the purity gets the key purity-depends-on-hbar.
PURITY_KNOWN = "gaussian-purity-ignores-hbar"
# The matrices are at most 8x8: thread pools (numba prange in the hafnian, OpenMP in the torontonian, BLAS) only add
# fork/join latency - 60 ms per hafnian call on a loaded machine instead of 0.1 ms. Thread counts are not a knob of C14.
SINGLE_THREAD = {"NUMBA_NUM_THREADS": "1", "OMP_NUM_THREADS": "1", "OPENBLAS_NUM_THREADS": "1", "MKL_NUM_THREADS": "1"}


# ---------------------------------------------------------------------------- helpers
def perm_xxpp_to_xpxp(d):
    idx = np.empty(2 * d, dtype=int)
    idx[0::2] = np.arange(d)
    idx[1::2] = np.arange(d) + d
    return idx


def w_matrix(d):
    i = np.identity(d)
    return np.block([[i, 1j * i], [i, -1j * i]]) / np.sqrt(2)


def omega_xxpp(d):
    i = np.identity(d)
    z = np.zeros((d, d))
    return np.block([[z, i], [-i, z]])


def _arr(x):
    return np.asarray(x)


def _dev(a, b):
    a = _arr(a)
    b = _arr(b)
    if a.shape != b.shape:
        return float("inf")
    if a.size == 0:
        return 0.0
    with np.errstate(invalid="ignore"):
        diff = np.abs(a.astype(complex) - b.astype(complex))
    if not np.all(np.isfinite(diff)):
        return float("inf")
    return float(diff.max())


def _mag(a):
    a = _arr(a)
    if a.size == 0:
        return 0.0
    with np.errstate(invalid="ignore"):
        m = np.abs(a.astype(complex))
    m = m[np.isfinite(m)]
    return float(m.max()) if m.size else 0.0


class Ctx:
    def __init__(self):
        self.violations = []
        self.per_mech = {}
        self.c = {k: 0 for k in REQUIRED}
        self.c.update({"cases_setter": 0, "cases_program": 0, "states_built": 0, "getter_calls": 0,
                       "observable_calls": 0, "value_reference_checks": 0, "value_reference_mismatches": 0,
                       "max_dev_over_tol": 0.0, "max_fidelity_dev_over_tol": 0.0, "max_fidelity_tolerance_used": 0.0,
                       "purity_not_scaling_as_known": 0, "wigner_calls": 0, "wigner_peak_not_at_mean": 0, "is_pure_differs_across_hbar": 0, "hbar_seen": {}, "observables_compared": {}, "setter_paths": {},
                       "gates_seen": {}})
        self.classes = set()
        self.samples = []
        self.evals = 0
        self.obs = set()
        self.valobs = {}

    def viol(self, mech, msg, case):
        n = self.per_mech.get(mech, 0)
        self.per_mech[mech] = n + 1
        if n < 3 and len(self.violations) < 120:
            self.violations.append({"mechanism": mech, "message": msg, "case": case})

    def cmp(self, counter, mech, what, got, exp, tol, case, fid=False):
        """One comparison of the deciding kind: counts, tracks dev/tol, reports."""
        self.c[counter] += 1
        dev = _dev(got, exp)
        ratio = dev / tol if tol > 0 else (0.0 if dev == 0 else float("inf"))
        key = "max_fidelity_dev_over_tol" if fid else "max_dev_over_tol"
        if np.isfinite(ratio):
            self.c[key] = max(self.c[key], ratio)
        if not dev <= tol:
            self.viol(mech, "%s: deviation %.3e > tolerance %.3e" % (what, dev, tol), case)
            return False
        return True


def _try(ctx, case, mech, what, fn):
    """Call the code under test; an exception is a finding about the call, not a harness error."""
    try:
        return True, fn()
    except Exception as e:  # noqa: BLE001 - only the call under test is wrapped
        ctx.viol(mech, "%s raised %s: %s" % (what, type(e).__name__, str(e)[:200]), case)
        return False, None


# ---------------------------------------------------------------------------- generators
def gen_state(rng, d):
    """Dimensionless (mu0, V0) in xxpp order: mean / sqrt(hbar), sigma / hbar (vacuum: V0 = 1)."""
    k = rng.random()
    if k < 0.05:
        return np.zeros(2 * d), np.identity(2 * d), "vacuum"
    if k < 0.12:
        return rng.normal(size=2 * d), np.identity(2 * d), "coherent"
    if k < 0.2:
        nu = 1 + 2 * rng.exponential(0.8, size=d)
        disp = rng.random() < 0.5
        mu = rng.normal(size=2 * d) if disp else np.zeros(2 * d)
        return mu, np.diag(np.concatenate([nu, nu])), "thermal" + ("-displaced" if disp else "")
    if k < 0.27:
        r = rng.uniform(-1.0, 1.0, size=d)
        disp = rng.random() < 0.5
        mu = rng.normal(size=2 * d) if disp else np.zeros(2 * d)
        return mu, np.diag(np.concatenate([np.exp(2 * r), np.exp(-2 * r)])), "product-squeezed" + ("-displaced" if disp else "")
    pure = bool(rng.random() < 0.4)
    disp = bool(rng.random() < 0.65)
    rmax = float(rng.choice([0.3, 0.7, 1.2]))
    mean, cov = M.physical_gaussian(rng, d, 2.0, pure=pure, displaced=disp, rmax=rmax)  # hbar/2 = 1: vacuum = 1
    if not pure and rng.random() < 0.2 and d > 1:  # degenerate symplectic spectrum
        Pm, Am = M.symplectic_blocks(rng, d, rmax=rmax)
        S = M.real_symplectic_xxpp(Pm, Am)
        cov = float(1 + rng.exponential(0.6)) * S @ S.T
        cov = (cov + cov.T) / 2
    flavour = ("pure" if pure else "mixed") + ("-displaced" if disp else "") + "-r%.1f" % rmax
    return mean / np.sqrt(2.0), cov, flavour


GATE_POOL = ("Squeezing", "Squeezing", "Squeezing2", "Beamsplitter", "Beamsplitter", "Phaseshifter", "Interferometer",
             "GaussianTransform", "Displacement", "Displacement", "PositionDisplacement", "MomentumDisplacement",
             "QuadraticPhase", "ControlledX", "ControlledZ", "Fourier", "MachZehnder", "Beamsplitter5050",
             "Attenuator", "DeterministicGaussianChannel")


def gen_program(rng, d):
    ins = []
    if rng.random() < 0.4:
        ins.append({"t": "Thermal", "m": None,
                    "p": {"mean_photon_numbers": [float(x) for x in np.round(rng.exponential(0.7, size=d), 6)]}})
    else:
        ins.append({"t": "Vacuum", "m": None, "p": {}})
    n = int(rng.integers(2, 8))
    tries = 0
    while len(ins) < n + 1 and tries < 40:
        tries += 1
        name = str(rng.choice(GATE_POOL))
        if name == "Attenuator":
            g = {"t": name, "m": P.ordered_subset(rng, d, 1),
                 "p": {"theta": P.angle(rng, 0.15), "mean_thermal_excitation": float(np.round(rng.exponential(0.5), 6)) if rng.random() < 0.7 else 0.0}}
        elif name == "DeterministicGaussianChannel":
            gain = float(rng.choice([0.3, 0.8, 1.0, 1.4]))
            th = P.angle(rng)
            X = np.sqrt(gain) * np.array([[np.cos(th), np.sin(th)], [-np.sin(th), np.cos(th)]])
            # DeterministicGaussianChannel._validate demands Y - i Omega - i X Omega X^T >= 0, i.e. y >= 1 + g here
            # (stricter than the physical y >= |1 - g|); stay inside both
            Y = (1 + gain + 0.05 + float(rng.exponential(0.4))) * np.identity(2)
            g = {"t": name, "m": P.ordered_subset(rng, d, 1), "p": {"X": M.enc(X), "Y": M.enc(Y)}}
        else:
            g = P.gate(rng, name, d, active_scale=0.5, disp_scale=0.8)
        if g is not None:
            ins.append(g)
    return ins


def gen_aux(rng, d, tier):
    """Everything else a case needs, as plain JSON."""
    cutoff = {1: 6, 2: 5, 3: 4, 4: 3}[d] + (1 if tier == "thorough" else 0)
    mu2, V2, _ = gen_state(rng, d)
    occs = []
    for _ in range(4):
        tot = int(rng.integers(0, 6))
        o = [0] * d
        for _ in range(tot):
            o[int(rng.integers(0, d))] += 1
        occs.append(o)
    angles_a = [float(a) for a in rng.uniform(0.2, 2 * np.pi - 0.2, size=d)]
    angles_b = [0.0 if rng.random() < 0.5 else float(rng.uniform(0.2, 2 * np.pi - 0.2)) for _ in range(d)]
    phis = [P.angle(rng, 0.3), float(rng.uniform(-2 * np.pi, 2 * np.pi))]
    strings = []
    for n in (1, 2, 2, 3, 4):
        strings.append([int(i) for i in rng.integers(0, 2 * d, size=n)])
    if d >= 1:
        j = int(rng.integers(0, d))
        strings.append([j, d + j])          # x_j p_j: the commutator term is visible
        strings.append([d + j, j, j, d + j])
    k = int(rng.integers(1, d + 1))
    sub = P.ordered_subset(rng, d, k)
    A = rng.normal(size=(2 * d, 2 * d))
    A = (A + A.T) / 2
    b = rng.normal(size=2 * d)
    hx = float(np.round(np.exp(rng.uniform(np.log(0.05), np.log(50.0))), 4))
    return {"cutoff": cutoff, "mu2": M.enc(mu2), "V2": M.enc(V2), "occupations": occs, "angles_a": angles_a,
            "angles_b": angles_b, "phis": phis, "strings": strings, "subset": sub, "A": M.enc(A), "b": M.enc(b),
            "hbars": HBARS + [hx], "wigner_points": [[float(x) for x in rng.normal(size=2)] for _ in range(2)]}


# ---------------------------------------------------------------------------- building states
def new_state(pq, d, hbar, cutoff):
    return pq.GaussianState(d=d, connector=pq.NumpyConnector(), config=pq.Config(hbar=hbar, cutoff=cutoff))


def install(ctx, pq, case, path, d, hbar, cutoff, mu0, V0):
    """Realise (mu0, V0) at hbar through one setter path. Returns (state | None)."""
    perm = perm_xxpp_to_xpxp(d)
    mean_xx = np.sqrt(hbar) * mu0
    cov_xx = hbar * V0
    mean_xp = mean_xx[perm]
    cov_xp = cov_xx[np.ix_(perm, perm)]
    ctx.c["setter_paths"][path] = ctx.c["setter_paths"].get(path, 0) + 1
    what = "setter path %s at hbar=%s d=%d" % (path, hbar, d)

    if path == "instr":
        def run():
            prog = pq.Program(instructions=[pq.Vacuum(), pq.Mean(mean=mu0[perm].copy()), pq.Covariance(cov=V0[np.ix_(perm, perm)].copy())])
            sim = pq.GaussianSimulator(d=d, config=pq.Config(hbar=hbar, cutoff=cutoff))
            return sim.execute(prog).state
        ok, s = _try(ctx, case, "preparation-raises-on-physical-state", what, run)
        return s if ok else None

    s = new_state(pq, d, hbar, cutoff)

    def run():
        if path == "xpxp":
            s.xpxp_mean_vector = mean_xp.copy()
            s.xpxp_covariance_matrix = cov_xp.copy()
        elif path == "xxpp":
            s.xxpp_mean_vector = mean_xx.copy()
            s.xxpp_covariance_matrix = cov_xx.copy()
        else:  # mixed order and mixed representation; overwrite a non-vacuum state
            s.xpxp_covariance_matrix = (2.5 * hbar) * np.identity(2 * d)
            s.xxpp_mean_vector = np.ones(2 * d)
            s.xxpp_covariance_matrix = cov_xx.copy()
            s.xpxp_mean_vector = mean_xp.copy()
        return s
    ok, s2 = _try(ctx, case, "setter-raises-on-physical-state", what, run)
    return s2 if ok else None


# ---------------------------------------------------------------------------- recorder: representations
def read_reps(ctx, s, case, what):
    names = ["xpxp_mean_vector", "xxpp_mean_vector", "xpxp_covariance_matrix", "xxpp_covariance_matrix",
             "xpxp_correlation_matrix", "xxpp_correlation_matrix", "complex_displacement", "complex_covariance",
             "Q_matrix", "xpxp_representation", "xxpp_representation"]
    rec = {}
    for n in names:
        ok, v = _try(ctx, case, "getter-raises", "%s of %s" % (n, what), lambda n=n: getattr(s, n))
        ctx.c["getter_calls"] += 1
        if not ok:
            return None
        rec[n] = v
    rec["_m"] = _arr(s._m)
    rec["_C"] = _arr(s._C)
    rec["_G"] = _arr(s._G)
    return rec


def check_reps(ctx, s, hbar, case, what):
    """All documented relations between the representations of ONE state object."""
    d = s.d
    rec = read_reps(ctx, s, case, what)
    if rec is None:
        return None
    perm = perm_xxpp_to_xpxp(d)
    I2 = np.identity(2 * d)
    xx_mean = _arr(rec["xxpp_mean_vector"])
    xx_cov = _arr(rec["xxpp_covariance_matrix"])
    mu = xx_mean / np.sqrt(hbar)
    V = xx_cov / hbar
    sc = max(1.0, _mag(V) + 2 * _mag(mu) ** 2)
    tol_exact = 16 * EPS * sc
    tol = C_REP * EPS * sc
    K = "rep_comparisons"
    # permutation relations (pure re-indexing)
    ctx.cmp(K, "xpxp-xxpp-mean-permutation", "%s: xpxp_mean_vector vs permuted xxpp_mean_vector" % what,
            _arr(rec["xpxp_mean_vector"]) / np.sqrt(hbar), mu[perm], tol_exact, case)
    ctx.cmp(K, "xpxp-xxpp-covariance-permutation", "%s: xpxp_covariance_matrix vs permuted xxpp_covariance_matrix" % what,
            _arr(rec["xpxp_covariance_matrix"]) / hbar, V[np.ix_(perm, perm)], tol_exact, case)
    ctx.cmp(K, "xpxp-xxpp-correlation-permutation", "%s: xpxp_correlation_matrix vs permuted xxpp_correlation_matrix" % what,
            _arr(rec["xpxp_correlation_matrix"]) / hbar, (_arr(rec["xxpp_correlation_matrix"]) / hbar)[np.ix_(perm, perm)], tol_exact, case)
    # correlation = covariance + 2 mean mean^T (docstring definitions of sigma and M)
    ctx.cmp(K, "correlation-not-cov-plus-2-mean-outer", "%s: xxpp_correlation_matrix vs sigma + 2 mu mu^T" % what,
            _arr(rec["xxpp_correlation_matrix"]) / hbar, V + 2 * np.outer(mu, mu), tol, case)
    for pre in ("xpxp", "xxpp"):
        tup = rec[pre + "_representation"]
        good = isinstance(tup, tuple) and len(tup) == 2
        ctx.cmp(K, "representation-tuple", "%s: %s_representation vs (mean, correlation)" % (what, pre),
                np.concatenate([_arr(tup[0]).ravel() / np.sqrt(hbar), _arr(tup[1]).ravel() / hbar]) if good else np.zeros(1),
                np.concatenate([_arr(rec[pre + "_mean_vector"]).ravel() / np.sqrt(hbar), _arr(rec[pre + "_correlation_matrix"]).ravel() / hbar]),
                tol_exact, case)
    # symmetric / real
    ctx.cmp(K, "covariance-not-real-symmetric", "%s: xxpp_covariance_matrix symmetric" % what, V, V.T, tol, case)
    if np.iscomplexobj(xx_cov) or np.iscomplexobj(xx_mean):
        ctx.obs.add("quadrature getter returned a complex-typed array")
    # complex representation from the quadrature one (docstrings of complex_displacement / complex_covariance)
    W = w_matrix(d)
    mu_c = W @ mu
    sig_c = W @ V @ W.conj().T
    ctx.cmp(K, "complex-displacement-vs-quadratures", "%s: complex_displacement vs W mu_xxpp / sqrt(hbar)" % what,
            rec["complex_displacement"], mu_c, tol, case)
    ctx.cmp(K, "complex-covariance-vs-quadratures", "%s: complex_covariance vs W sigma_xxpp W^+ / hbar" % what,
            rec["complex_covariance"], sig_c, tol, case)
    # ladder moments recomputed by the harness from the quadrature moments
    m_h = mu_c[:d]
    C_h = (sig_c[d:, d:] - np.identity(d)) / 2        # <a_i^+ a_j>_c
    G_h = sig_c[:d, d:] / 2                           # <a_i a_j>_c
    ctx.cmp(K, "ladder-m-vs-quadratures", "%s: _m vs (x + i p)/sqrt(2 hbar)" % what, rec["_m"], m_h, tol, case)
    ctx.cmp(K, "ladder-C-vs-quadratures", "%s: _C vs harness <a^+ a> from sigma" % what, rec["_C"], C_h, tol, case)
    ctx.cmp(K, "ladder-G-vs-quadratures", "%s: _G vs harness <a a> from sigma" % what, rec["_G"], G_h, tol, case)
    ctx.cmp(K, "q-matrix-vs-complex-covariance", "%s: Q_matrix vs (sigma_c + 1)/2" % what, rec["Q_matrix"], (sig_c + I2) / 2, tol, case)
    # photon number from the quadratures: sum_j (<x_j^2> + <p_j^2>)/(2 hbar) - 1/2
    ok, n_got = _try(ctx, case, "observable-raises", "mean_photon_number of %s" % what, lambda: s.mean_photon_number())
    if ok:
        n_exp = float(np.trace(V) / 4 + mu @ mu / 2 - d / 2)
        ctx.cmp(K, "mean-photon-number-vs-quadratures", "%s: mean_photon_number vs quadrature second moments" % what,
                n_got, n_exp, tol * 2 * d, case)
    rec["mu"] = mu
    rec["V"] = V
    rec["scale"] = sc
    return rec


def check_roundtrip(ctx, s, hbar, case, path, mu0, V0):
    d = s.d
    perm = perm_xxpp_to_xpxp(d)
    sc = max(1.0, _mag(V0) + 2 * _mag(mu0) ** 2)
    tol = C_REP * EPS * sc
    what = "round trip %s-setter -> getter at hbar=%s d=%d" % (path, hbar, d)
    K = "setter_roundtrips"
    for getter, exp in (("xpxp_mean_vector", mu0[perm]), ("xxpp_mean_vector", mu0)):
        ok, v = _try(ctx, case, "getter-raises", getter, lambda g=getter: getattr(s, g))
        if ok:
            ctx.cmp(K, "setter-getter-roundtrip-mean", "%s: %s / sqrt(hbar)" % (what, getter), _arr(v) / np.sqrt(hbar), exp, tol, case)
    for getter, exp in (("xpxp_covariance_matrix", V0[np.ix_(perm, perm)]), ("xxpp_covariance_matrix", V0)):
        ok, v = _try(ctx, case, "getter-raises", getter, lambda g=getter: getattr(s, g))
        if ok:
            ctx.cmp(K, "setter-getter-roundtrip-covariance", "%s: %s / hbar" % (what, getter), _arr(v) / hbar, exp, tol, case)


# ---------------------------------------------------------------------------- recorder: reduced / rotated
def rot_matrix_xpxp(k, phi):
    c, s_ = np.cos(phi), np.sin(phi)
    R = np.zeros((2 * k, 2 * k))
    for j in range(k):
        R[2 * j:2 * j + 2, 2 * j:2 * j + 2] = [[c, s_], [-s_, c]]   # x_phi = cos x + sin p ; p_phi = -sin x + cos p
    return R


def check_reduced(ctx, s, rec, hbar, case, full_reps_budget):
    d = s.d
    W_full_xp = _arr(rec["xpxp_mean_vector"])
    cov_xp = _arr(rec["xpxp_covariance_matrix"])
    xx_mean = _arr(rec["xxpp_mean_vector"])
    xx_cov = _arr(rec["xxpp_covariance_matrix"])
    cd = _arr(rec["complex_displacement"])
    cc = _arr(rec["complex_covariance"])
    sc = rec["scale"]
    tol = 16 * EPS * sc
    K = "rep_comparisons"
    count = 0
    for k in range(1, d + 1):
        for modes in itertools.permutations(range(d), k):
            what = "reduced(%s) at hbar=%s d=%d" % (list(modes), hbar, d)
            ok, r = _try(ctx, case, "reduced-raises", what, lambda m=modes: s.reduced(m))
            ctx.c["reduced_subsets"] += 1
            if not ok:
                continue
            ixp = np.array([i for m in modes for i in (2 * m, 2 * m + 1)])
            ixx = np.array(list(modes) + [d + m for m in modes])
            if r.d != k:
                ctx.viol("reduced-wrong-size", "%s has d=%s" % (what, r.d), case)
                continue
            c_sub = dict(case, modes=list(modes), at_hbar=hbar)
            okg, got = _try(ctx, c_sub, "getter-raises", what, lambda: (
                r.xpxp_mean_vector, r.xpxp_covariance_matrix, r.xxpp_mean_vector, r.xxpp_covariance_matrix,
                r.complex_displacement, r.complex_covariance, r.xpxp_correlation_matrix))
            ctx.c["getter_calls"] += 7
            if not okg:
                continue
            ctx.cmp(K, "reduced-xpxp-mean", "%s: xpxp mean vs sub-vector of the full xpxp mean" % what, _arr(got[0]) / np.sqrt(hbar), W_full_xp[ixp] / np.sqrt(hbar), tol, c_sub)
            ctx.cmp(K, "reduced-xpxp-covariance", "%s: xpxp covariance vs sub-matrix of the full one" % what, _arr(got[1]) / hbar, cov_xp[np.ix_(ixp, ixp)] / hbar, tol, c_sub)
            ctx.cmp(K, "reduced-xxpp-mean", "%s: xxpp mean vs sub-vector of the full xxpp mean" % what, _arr(got[2]) / np.sqrt(hbar), xx_mean[ixx] / np.sqrt(hbar), tol, c_sub)
            ctx.cmp(K, "reduced-xxpp-covariance", "%s: xxpp covariance vs sub-matrix of the full one" % what, _arr(got[3]) / hbar, xx_cov[np.ix_(ixx, ixx)] / hbar, tol, c_sub)
            ctx.cmp(K, "reduced-complex-displacement", "%s: complex displacement vs sub-vector" % what, got[4], cd[ixx], tol, c_sub)
            ctx.cmp(K, "reduced-complex-covariance", "%s: complex covariance vs sub-matrix" % what, got[5], cc[np.ix_(ixx, ixx)], tol, c_sub)
            ctx.cmp(K, "reduced-xpxp-correlation", "%s: xpxp correlation vs sub-matrix of the full one" % what, _arr(got[6]) / hbar,
                    _arr(rec["xpxp_correlation_matrix"])[np.ix_(ixp, ixp)] / hbar, tol * 4, c_sub)
            if count < full_reps_budget and (k < d or list(modes) != sorted(modes)):
                count += 1
                check_reps(ctx, r, hbar, c_sub, what)


def check_rotated(ctx, s, rec, hbar, case, phis, subset):
    d = s.d
    sc = rec["scale"]
    tol = C_REP * EPS * sc
    K = "rep_comparisons"
    mean_xp = _arr(rec["xpxp_mean_vector"]) / np.sqrt(hbar)
    cov_xp = _arr(rec["xpxp_covariance_matrix"]) / hbar
    for phi in phis:
        what = "rotated(%.6g) at hbar=%s d=%d" % (phi, hbar, d)
        c_sub = dict(case, phi=phi, at_hbar=hbar)
        ok, r = _try(ctx, c_sub, "rotated-raises", what, lambda p=phi: s.rotated(p))
        ctx.c["rotations"] += 1
        if not ok:
            continue
        R = rot_matrix_xpxp(d, phi)
        rrec = check_reps(ctx, r, hbar, c_sub, what)
        if rrec is None:
            continue
        ctx.cmp(K, "rotated-mean", "%s: xpxp mean vs R(phi) mean" % what, _arr(rrec["xpxp_mean_vector"]) / np.sqrt(hbar), R @ mean_xp, tol, c_sub)
        ctx.cmp(K, "rotated-covariance", "%s: xpxp covariance vs R(phi) sigma R(phi)^T" % what, _arr(rrec["xpxp_covariance_matrix"]) / hbar, R @ cov_xp @ R.T, tol, c_sub)
        # reduce-then-rotate == rotate-then-reduce == the combined accessor
        modes = tuple(subset)
        k = len(modes)
        ixp = np.array([i for m in modes for i in (2 * m, 2 * m + 1)])
        Rk = rot_matrix_xpxp(k, phi)
        exp_mean = Rk @ mean_xp[ixp]
        exp_cov = Rk @ cov_xp[np.ix_(ixp, ixp)] @ Rk.T
        for label, fn in (("rotated(phi).reduced(modes)", lambda: (lambda t: (t.xpxp_mean_vector, t.xpxp_covariance_matrix))(s.rotated(phi).reduced(modes))),
                          ("reduced(modes).rotated(phi)", lambda: (lambda t: (t.xpxp_mean_vector, t.xpxp_covariance_matrix))(s.reduced(modes).rotated(phi))),
                          ("xpxp_reduced_rotated_mean_and_covariance", lambda: s.xpxp_reduced_rotated_mean_and_covariance(modes, phi))):
            ok2, got = _try(ctx, c_sub, "rotated-raises", "%s modes=%s %s" % (what, list(modes), label), fn)
            if ok2:
                ctx.cmp(K, "reduced-rotated-mean", "%s: %s (modes=%s) mean" % (what, label, list(modes)), _arr(got[0]) / np.sqrt(hbar), exp_mean, tol, c_sub)
                ctx.cmp(K, "reduced-rotated-covariance", "%s: %s (modes=%s) covariance" % (what, label, list(modes)), _arr(got[1]) / hbar, exp_cov, tol, c_sub)


# ---------------------------------------------------------------------------- recorder: observables
def xp_from_ladder(s, string, hbar):
    """<Y_a1 ... Y_an> expanded in ladder-operator string moments (x = sqrt(hbar/2)(a + a^+), p = -i sqrt(hbar/2)(a - a^+))."""
    d = s.d
    n = len(string)
    total = 0.0 + 0.0j
    absum = 0.0
    for choice in itertools.product((0, 1), repeat=n):
        coef = 1.0 + 0.0j
        lad = []
        for idx, ch in zip(string, choice):
            j = idx % d
            is_p = idx >= d
            if ch == 0:     # annihilation part
                coef *= (-1j if is_p else 1.0)
                lad.append(j)
            else:           # creation part
                coef *= (1j if is_p else 1.0)
                lad.append(d + j)
        v = complex(s.get_ladder_string_moment(lad))
        total += coef * v
        absum += abs(v)
    f = (hbar / 2.0) ** (n / 2.0)
    return total * f, absum * f


def observe(ctx, pq, s, other, hbar, case, aux):
    """name -> value | ('exc', type). Everything returned is dimensionless (scaled by the stated power of hbar)."""
    d = s.d
    out = {}

    def rec(name, fn, post=None):
        ctx.c["observable_calls"] += 1
        try:
            v = fn()
            out[name] = post(v) if post else v
        except Exception as e:  # noqa: BLE001 - the call under test
            out[name] = ("exc", type(e).__name__, str(e)[:160])

    sq = np.sqrt(hbar)
    rec("xpxp_mean_vector/sqrt(hbar)", lambda: _arr(s.xpxp_mean_vector) / sq)
    rec("xxpp_mean_vector/sqrt(hbar)", lambda: _arr(s.xxpp_mean_vector) / sq)
    rec("xpxp_covariance_matrix/hbar", lambda: _arr(s.xpxp_covariance_matrix) / hbar)
    rec("xxpp_covariance_matrix/hbar", lambda: _arr(s.xxpp_covariance_matrix) / hbar)
    rec("xpxp_correlation_matrix/hbar", lambda: _arr(s.xpxp_correlation_matrix) / hbar)
    rec("xxpp_correlation_matrix/hbar", lambda: _arr(s.xxpp_correlation_matrix) / hbar)
    rec("complex_displacement", lambda: _arr(s.complex_displacement))
    rec("complex_covariance", lambda: _arr(s.complex_covariance))
    rec("Q_matrix", lambda: _arr(s.Q_matrix))
    rec("_m", lambda: _arr(s._m))
    rec("_C", lambda: _arr(s._C))
    rec("_G", lambda: _arr(s._G))
    sub = tuple(aux["subset"])
    phi = aux["phis"][1]
    rec("reduced_rotated_mean/sqrt(hbar)", lambda: _arr(s.xpxp_reduced_rotated_mean_and_covariance(sub, phi)[0]) / sq)
    rec("reduced_rotated_covariance/hbar", lambda: _arr(s.xpxp_reduced_rotated_mean_and_covariance(sub, phi)[1]) / hbar)
    rec("fock_probabilities", lambda: _arr(s.fock_probabilities))
    rec("density_matrix", lambda: _arr(s.density_matrix))
    rec("get_marginal_fock_probabilities", lambda: s.get_marginal_fock_probabilities(sub),
        post=lambda m: np.array([m[k] for k in sorted(m)]))
    rec("get_particle_detection_probability", lambda: np.array([s.get_particle_detection_probability(np.array(o, dtype=int)) for o in aux["occupations"]]))
    rec("mean_photon_number", lambda: np.array([s.mean_photon_number(), s.mean_photon_number(sub)]))
    rec("variance_photon_number", lambda: np.array([s.variance_photon_number(), s.variance_photon_number(sub)]))
    rec("get_purity", lambda: float(s.get_purity()))
    rec("fidelity", lambda: float(s.fidelity(other)))
    rec("fidelity_reversed", lambda: float(other.fidelity(s)))
    rec("fidelity_self", lambda: float(s.fidelity(s)))
    rec("get_parity_operator_expectation_value", lambda: float(s.get_parity_operator_expectation_value()))
    rec("get_phaseshifter_expectation_value", lambda: np.array([complex(s.get_phaseshifter_expectation_value(list(aux["angles_a"]))),
                                                                 complex(s.get_phaseshifter_expectation_value(list(aux["angles_b"])))]))
    rec("get_threshold_detection_probability", lambda: np.array([s.get_threshold_detection_probability(tuple(int(b) for b in np.binary_repr(k, d)))
                                                                   for k in range(2 ** d)]))
    rec("get_xp_string_moment/hbar^(n/2)", lambda: np.array([complex(s.get_xp_string_moment(st)) / hbar ** (len(st) / 2.0) for st in aux["strings"]]))
    rec("get_ladder_string_moment", lambda: np.array([complex(s.get_ladder_string_moment(st)) for st in aux["strings"]]))
    A = M.dec(aux["A"])
    b = M.dec(aux["b"])
    rec("quadratic_polynomial_expectation(A,0,0)/hbar", lambda: complex(s.quadratic_polynomial_expectation(A, np.zeros(2 * d), 0.0, phi)) / hbar)
    rec("quadratic_polynomial_expectation(0,b,0)/sqrt(hbar)", lambda: complex(s.quadratic_polynomial_expectation(np.zeros((2 * d, 2 * d)), b, 0.0, phi)) / sq)
    return out


def fidelity_error_bound(V1, V2, mu1, mu2):
    """Relative error bound of the fidelity formula *as implemented* (Banchi et al. form), from dimensionless xxpp moments.

    fidelity() takes the eigenvalues +-w_i of the non-normal matrix W_aux = -i/2 Omega^T Vm^-1 (1 - V2 Omega V1 Omega)
    and multiplies the factors w_i + sqrt(w_i^2 - 1). With E the backward error of forming W_aux and of the eigen-solver,
    Bauer-Fike gives |dw_i| <= delta = cond(eigenvectors) * E, and |sqrt(a + e) - sqrt(a)| <= sqrt(|e|) turns that into
    ~sqrt(2 w delta) when w_i = 1 (any pure mode) - values at two hbar then legitimately differ by ~1e-7 (hand probe:
    3e-7 on pure 4-mode states), which is why the flat 1e-9 of the other observables cannot be used here."""
    n = len(V1)
    d = n // 2
    Om = omega_xxpp(d)
    Vm = (V1 + V2) / 2
    inv = np.linalg.inv(Vm)
    Waux = -0.5j * Om.T @ inv @ (np.identity(n) - V2 @ Om @ V1 @ Om)
    ev, X = np.linalg.eig(Waux)
    w = np.sort(ev.real)[d:]                      # the d non-negative ones of the +-w pairs
    condX = min(float(np.linalg.cond(X)), 1e12)
    condV = float(np.linalg.cond(Vm))
    E = 1e3 * EPS * (condV + 1) * float(np.linalg.norm(Waux, 2))
    delta = condX * E
    wl = np.maximum(w - delta, 1.0)
    b_lo = np.sqrt(np.maximum(wl ** 2 - 1, 0.0))
    D = delta + np.sqrt(b_lo ** 2 + 4 * np.maximum(w, 1.0) * delta + delta ** 2) - b_lo
    rel = float(np.prod(1 + D) - 1)
    dm = mu2 - mu1
    expo = float(abs(dm @ inv @ dm)) / 2
    rel += 1e3 * EPS * condV * (n + expo)
    return rel


def value_references(ctx, obs, V, mu, d, aux, label):
    """hbar-independent reference values (observations only; a wrong but hbar-independent value is outside C14)."""
    fp = obs.get("fock_probabilities")
    if isinstance(fp, tuple) or fp is None:
        return
    mass = float(np.sum(fp))
    from piquasso._math.fock import get_fock_space_basis  # basis order only

    basis = np.asarray(get_fock_space_basis(d=d, cutoff=aux["cutoff"])).astype(int)
    trunc = max(0.0, 1 - mass) + 1e-9

    def note(name, got, ref, slack):
        ctx.c["value_reference_checks"] += 1
        if not abs(got - ref) <= slack:
            ctx.c["value_reference_mismatches"] += 1
            n, ex = ctx.valobs.get(name, (0, None))
            ctx.valobs[name] = (n + 1, ex or "%s d=%d: got %s expected %s (slack %.2g)" % (
                label, d, np.round(got, 6), np.round(ref, 6), slack))

    pur = obs.get("get_purity")
    if isinstance(pur, float):
        note("get_purity (at hbar=2) vs 1/sqrt(det(sigma/hbar))", pur, float(1 / np.sqrt(np.linalg.det(V))), 1e-9 * max(1, abs(pur)))
    par = obs.get("get_parity_operator_expectation_value")
    if isinstance(par, float):
        note("parity expectation vs sum_n (-1)^|n| p(n)", par, float(np.sum(fp * (-1.0) ** basis.sum(axis=1))), trunc)
    ph = obs.get("get_phaseshifter_expectation_value")
    if not isinstance(ph, tuple) and ph is not None:
        for which, ang in ((0, aux["angles_a"]), (1, aux["angles_b"])):
            ref = complex(np.sum(fp * np.exp(1j * basis @ np.array(ang))))
            note("get_phaseshifter_expectation_value (%d-mode, %s) vs sum_n e^{i phi.n} p(n)" % (d, "all angles non-zero" if which == 0 else "some angles zero"),
                 complex(ph[which]), ref, trunc)
    th = obs.get("get_threshold_detection_probability")
    if not isinstance(th, tuple) and th is not None:
        note("threshold detection probabilities sum to 1", float(np.sum(th)), 1.0, 1e-9)
        note("threshold no-click probability vs p(0...0)", float(th[0]), float(fp[0]), 1e-9)
    fs = obs.get("fidelity")
    fr = obs.get("fidelity_reversed")
    if isinstance(fs, float) and isinstance(fr, float):
        note("fidelity symmetric in its arguments", fs, fr, 1e-5 * max(1.0, abs(fs)))


def compare_across_hbar(ctx, case, d, per_h, aux, ref_states, fid_rel):
    """per_h: {hbar: observables}. ref_states: (V, mu, V2, mu2) dimensionless xxpp of the state and the fidelity partner."""
    hbars = sorted(per_h)
    ref_h = REF_HBAR if REF_HBAR in per_h else hbars[0]
    ref = per_h[ref_h]
    V, mu, V2, mu2 = ref_states
    K = "cross_hbar_comparisons"
    for name in ref:
        vals = {h: per_h[h].get(name) for h in hbars}
        excs = {h: v for h, v in vals.items() if isinstance(v, tuple) and len(v) == 3 and v[0] == "exc"}
        ctx.c["observables_compared"][name] = ctx.c["observables_compared"].get(name, 0) + 1
        if excs:
            if len(excs) == len(vals) and len({v[1] for v in excs.values()}) == 1:
                ctx.obs.add("%s raises %s at every hbar alike (not judged by C14): %s" % (name, list(excs.values())[0][1], list(excs.values())[0][2][:80]))
            else:
                ctx.viol(_slug(name) + "-raises-at-some-hbar", "%s raises at hbar in %s but not at %s: %s" % (
                    name, sorted(excs), sorted(set(vals) - set(excs)), list(excs.values())[0][1:]), case)
            continue
        rv = vals[ref_h]
        scale = max(1.0, _mag(rv))
        if name == "get_purity":
            _compare_purity(ctx, case, d, vals, ref_h)
            continue
        worst = None
        for h in hbars:
            if h == ref_h:
                continue
            fid = name.startswith("fidelity")
            if fid:
                tol = X_TOL * scale + 2 * abs(float(rv)) * fid_rel["self" if name == "fidelity_self" else "pair"]
                ctx.c["fidelity_comparisons"] += 1
            elif name.startswith("get_xp_string_moment") or name.startswith("get_ladder_string_moment"):
                tol = X_TOL * scale
                ctx.c["string_moment_comparisons"] += 1
            else:
                tol = X_TOL * scale
            dev = _dev(vals[h], rv)
            ctx.c[K] += 1
            ratio = dev / tol
            key = "max_fidelity_dev_over_tol" if fid else "max_dev_over_tol"
            if np.isfinite(ratio):
                ctx.c[key] = max(ctx.c[key], ratio)
            if not dev <= tol and (worst is None or dev > worst[1]):
                worst = (h, dev, tol)
        if worst is not None:
            h, dev, tol = worst
            ctx.viol(_slug(name) + "-depends-on-hbar",
                     "%s (d=%d) at hbar=%s differs from hbar=%s by %.3e > tolerance %.3e: %s vs %s" % (
                         name, d, h, ref_h, dev, tol, _short(vals[h]), _short(rv)), dict(case, at_hbar=h))
    # fidelity with itself is 1 (DESIGN C14 oracle), to the accuracy of the implemented formula
    for h in hbars:
        fs = per_h[h].get("fidelity_self")
        if isinstance(fs, float):
            tol = X_TOL + fid_rel["self"]
            ctx.cmp("fidelity_comparisons", "fidelity-with-itself-not-one", "fidelity(state, state) at hbar=%s d=%d is %.12g" % (h, d, fs),
                    fs, 1.0, tol, dict(case, at_hbar=h), fid=True)


def _compare_purity(ctx, case, d, vals, ref_h):
    hbars = sorted(vals)
    p = np.array([float(vals[h]) for h in hbars])
    ctx.c["purity_comparisons"] += 1
    ctx.c["cross_hbar_comparisons"] += 1
    pr = float(vals[ref_h])
    tol = X_TOL * max(1.0, abs(pr))
    dev = float(np.max(np.abs(p - pr))) if np.all(np.isfinite(p)) else float("inf")
    if dev <= tol:
        ctx.c["max_dev_over_tol"] = max(ctx.c["max_dev_over_tol"], dev / tol)
        return
    # symptom predicate of the known mechanism: purity(hbar) * (hbar/2)^d does not depend on hbar
    q = p * (np.array(hbars) / 2.0) ** d
    qdev = float(np.max(np.abs(q - q[hbars.index(ref_h)]))) if np.all(np.isfinite(q)) else float("inf")
    msg = "get_purity (d=%d) depends on hbar: %s" % (d, ", ".join("hbar=%g: %.9g" % (h, v) for h, v in zip(hbars, p)))
    if qdev <= 1e-9 * max(1.0, float(np.max(np.abs(q)))):
        ctx.viol(PURITY_KNOWN, msg + "; purity * (hbar/2)^d = %.9g at every hbar (the formula 2^d/sqrt(det sigma) lacks the 1/hbar^d)" % q[0], case)
    else:
        ctx.c["purity_not_scaling_as_known"] += 1
        ctx.viol("purity-depends-on-hbar", msg + "; purity * (hbar/2)^d is not constant either (%s)" % ", ".join("%.6g" % x for x in q), case)


def _slug(name):
    s = name.lower()
    for a, b in (("/sqrt(hbar)", ""), ("/hbar^(n/2)", ""), ("/hbar", ""), ("(a,0,0)", "-quadratic"), ("(0,b,0)", "-linear"), ("_", "-")):
        s = s.replace(a, b)
    return s.strip("-")


def _short(v):
    a = _arr(v)
    if a.size <= 4:
        return np.array2string(a, precision=9)
    return "array(shape=%s, max|.|=%.6g)" % (a.shape, _mag(a))


def check_string_moments(ctx, s, hbar, case, aux):
    """xp-string moments equal their expansion in ladder-string moments (same state, two representations)."""
    for st in aux["strings"]:
        what = "get_xp_string_moment(%s) at hbar=%s d=%d" % (st, hbar, s.d)
        ok, got = _try(ctx, case, "string-moment-raises", what, lambda: complex(s.get_xp_string_moment(list(st))))
        if not ok:
            continue
        ok, ea = _try(ctx, case, "string-moment-raises", "get_ladder_string_moment for " + what, lambda: xp_from_ladder(s, st, hbar))
        if not ok:
            continue
        exp, absum = ea
        ctx.cmp("string_moment_comparisons", "xp-string-moment-vs-ladder-string-moments", "%s vs expansion in get_ladder_string_moment" % what,
                got, exp, C_REP * EPS * max(absum, abs(exp), hbar ** (len(st) / 2.0)) * 16, dict(case, string=st, at_hbar=hbar))


def side_observations(ctx, pq, s, hbar, d, rec, aux):
    """Outside the statement of C14 (wigner_function, is_pure): recorded, never judged."""
    out = {"wigner": None, "is_pure": None}
    try:
        out["is_pure"] = bool(s.is_pure())
    except Exception as e:  # noqa: BLE001
        ctx.obs.add("is_pure raised %s (not judged)" % type(e).__name__)
    try:
        mu_xp = _arr(rec["xpxp_mean_vector"]).real
        vals = []
        for pt in aux["wigner_points"]:      # one-mode marginal: W(sqrt(hbar) r) * hbar must not depend on hbar
            x = mu_xp[0] + np.sqrt(hbar) * pt[0]
            p = mu_xp[1] + np.sqrt(hbar) * pt[1]
            w = s.wigner_function([[float(x)]], [[float(p)]], modes=(0,))
            vals.append(float(np.asarray(w).ravel()[0]) * hbar)
        out["wigner"] = vals
        ctx.c["wigner_calls"] += len(vals)
        if d >= 2:                           # full state: the peak of W is at (x-means; p-means)
            mu_xx = _arr(rec["xxpp_mean_vector"]).real
            w = float(np.asarray(s.wigner_function([list(map(float, mu_xx[:d]))], [list(map(float, mu_xx[d:]))])).ravel()[0])
            peak = float(1 / np.pi ** d / np.sqrt(np.linalg.det(_arr(rec["xxpp_covariance_matrix"]).real)))
            ctx.c["wigner_calls"] += 1
            if abs(w - peak) > 1e-9 * peak:
                ctx.c["wigner_peak_not_at_mean"] += 1
                ctx.obs.add("not judged by C14 (identical at every hbar): wigner_function on d>=2 modes evaluated at positions=<x>, momentums=<p> is "
                            "below the peak value 1/(pi^d sqrt(det sigma)) for displaced states: the argument is assembled as "
                            "[*position, *momentum] (xxpp) but compared with the xpxp mean and covariance")
    except Exception as e:  # noqa: BLE001
        ctx.obs.add("wigner_function raised %s (not judged)" % type(e).__name__)
    return out


def check_wigner_marginals(ctx, s, hbar, d, rec, aux, case):
    """Judged (reduction commutes with the getter; added after a missed seeded change): wigner_function(modes=M) equals the
    Wigner function of reduced(M) for every single mode and ordered pair, and the one-mode marginal equals the documented
    closed form 1/(pi sqrt(det sigma)) exp(-(r-mu)^T sigma^-1 (r-mu)) of the reduced xpxp moments. (The full-state call on
    d >= 2 modes stays an observation: its argument order is ambiguous in the documentation.)"""
    import itertools

    mu_xp = _arr(rec["xpxp_mean_vector"]).real
    cov_xp = _arr(rec["xpxp_covariance_matrix"]).real
    subsets = [(k,) for k in range(d)] + ([tuple(p) for p in itertools.permutations(range(d), 2)][:4] if d >= 2 else [])
    for M_ in subsets:
        for pt in aux["wigner_points"]:
            xs = [float(mu_xp[2 * m] + np.sqrt(hbar) * pt[0] * (0.5 + 0.3 * j)) for j, m in enumerate(M_)]
            ps = [float(mu_xp[2 * m + 1] + np.sqrt(hbar) * pt[1] * (0.7 - 0.2 * j)) for j, m in enumerate(M_)]
            ok1, w1 = _try(ctx, case, "wigner-raises", "wigner_function(modes=%s)" % (M_,), lambda: s.wigner_function([xs], [ps], modes=M_))
            ok2, w2 = _try(ctx, case, "wigner-raises", "reduced(%s).wigner_function()" % (M_,), lambda: s.reduced(M_).wigner_function([xs], [ps]))
            if not (ok1 and ok2):
                continue
            w1 = float(np.asarray(w1).ravel()[0])
            w2 = float(np.asarray(w2).ravel()[0])
            if "wigner_marginal_comparisons" not in ctx.c:
                ctx.c["wigner_marginal_comparisons"] = 0
            ctx.cmp("wigner_marginal_comparisons", "wigner-marginal-vs-reduced-state", "wigner_function(modes=%s) vs reduced(%s).wigner_function() at hbar=%s d=%d" % (
                M_, M_, hbar, d), w1, w2, 1e-9 * max(abs(w2), 1e-300), dict(case, modes=list(M_), at_hbar=hbar))
            if len(M_) == 1:
                m = M_[0]
                sg = cov_xp[np.ix_([2 * m, 2 * m + 1], [2 * m, 2 * m + 1])]
                r = np.array([xs[0] - mu_xp[2 * m], ps[0] - mu_xp[2 * m + 1]])
                ref = float(np.exp(-r @ np.linalg.solve(sg, r)) / (np.pi * np.sqrt(np.linalg.det(sg))))
                ctx.cmp("wigner_marginal_comparisons", "wigner-marginal-vs-closed-form", "wigner_function(modes=(%d,)) vs the documented closed form at hbar=%s d=%d" % (
                    m, hbar, d), w1, ref, 1e-8 * max(abs(ref), 1e-300), dict(case, modes=[m], at_hbar=hbar))


def check_purify(ctx, s, hbar, d, rec):
    """Returns what the purification looks like in dimensionless terms at this hbar:
    ("raised", exception type) or ("ok", reduction deviation / scale, purity of the purification).
    Whether purify() is *right* is not C14's subject; that its dimensionless outcome is the same at every
    hbar is (judged by the caller across hbar)."""
    try:
        p = s.purify()
        r = p.reduced(tuple(range(d)))
        dev = max(_dev(_arr(r.xxpp_covariance_matrix) / hbar, rec["V"]), _dev(_arr(r.xxpp_mean_vector) / np.sqrt(hbar), rec["mu"]))
        if dev > 1e-7 * rec["scale"]:
            ctx.obs.add("purify(): reduction of the purification to the original modes differs from the state (judged only as hbar dependence)")
        try:
            pur = float(np.real(p.get_purity()))
        except Exception:  # noqa: BLE001
            pur = float("nan")
        return ("ok", float(dev / rec["scale"]), pur)
    except Exception as e:  # noqa: BLE001
        ctx.obs.add("purify() raised %s (judged only as hbar dependence)" % type(e).__name__)
        return ("raised", type(e).__name__)


def judge_purify_across_hbar(ctx, res, case, d):
    """res: {hbar: outcome of check_purify}. The same physical state must purify alike at every hbar."""
    if len(res) < 2:
        return
    ctx.c["purify_hbar_comparisons"] = ctx.c.get("purify_hbar_comparisons", 0) + len(res) - 1
    kinds = {v[0] for v in res.values()}
    if len(kinds) > 1:
        ctx.viol("purify-depends-on-hbar", "purify() of the same physical state (d=%d) raises at hbar in %s and returns at %s" % (
            d, sorted(h for h, v in res.items() if v[0] == "raised"), sorted(h for h, v in res.items() if v[0] == "ok")), case)
        return
    if kinds == {"raised"}:
        return
    devs = [v[1] for v in res.values()]
    purs = [v[2] for v in res.values()]
    if max(devs) > 1e-6 and min(devs) <= 1e-7:
        ctx.viol("purify-depends-on-hbar", "the reduction of purify() reproduces the state at hbar=%s (deviation %.1e) but not at hbar=%s (deviation %.1e), d=%d" % (
            min(res, key=lambda h: res[h][1]), min(devs), max(res, key=lambda h: res[h][1]), max(devs), d), case)
        return
    if all(np.isfinite(purs)) and max(purs) - min(purs) > 1e-6 * max(1.0, max(abs(x) for x in purs)):
        ctx.viol("purify-depends-on-hbar", "purity of the purification of the same physical state depends on hbar: %s (d=%d)" % (
            {h: round(v[2], 9) for h, v in res.items()}, d), case)


# ---------------------------------------------------------------------------- one case
def run_case(ctx, pq, case):
    d = int(case["d"])
    aux = case["aux"]
    hbars = [float(h) for h in aux["hbars"]]
    cutoff = int(aux["cutoff"])
    mu2 = M.dec(aux["mu2"])
    V2 = M.dec(aux["V2"])
    perm = perm_xxpp_to_xpxp(d)
    ctx.evals += 1
    per_h = {}
    purify_res = {}
    first_rec = {}
    wig = {}
    prog_exc = {}
    if case["kind"] == "setter":
        ctx.c["cases_setter"] += 1
        mu0 = M.dec(case["mu0"])
        V0 = M.dec(case["V0"])
    else:
        ctx.c["cases_program"] += 1
    for hi, hbar in enumerate(hbars):
        hkey = ("%g" % hbar) if hbar in HBARS else ("random in [%g, %g)" % (10.0 ** np.floor(np.log10(hbar)), 10.0 ** (np.floor(np.log10(hbar)) + 1)))
        ctx.c["hbar_seen"][hkey] = ctx.c["hbar_seen"].get(hkey, 0) + 1
        chosen = None
        crec = None
        if case["kind"] == "setter":
            pick = PATHS[(hi + int(case.get("index", 0))) % len(PATHS)]
            base = None
            for path in PATHS:
                s = install(ctx, pq, dict(case, at_hbar=hbar, path=path), path, d, hbar, cutoff, mu0, V0)
                if s is None:
                    continue
                ctx.c["states_built"] += 1
                c_sub = dict(case, at_hbar=hbar, path=path)
                check_roundtrip(ctx, s, hbar, c_sub, path, mu0, V0)
                rec = check_reps(ctx, s, hbar, c_sub, "state set through %s at hbar=%s d=%d" % (path, hbar, d))
                if rec is None:
                    continue
                if base is None:
                    base = (path, rec)
                else:   # every setter path must realise the same ladder moments
                    tol = C_REP * EPS * rec["scale"]
                    for nm in ("_m", "_C", "_G"):
                        ctx.cmp("rep_comparisons", "setter-paths-disagree", "%s after path %s vs path %s at hbar=%s d=%d" % (nm, path, base[0], hbar, d),
                                rec[nm], base[1][nm], tol, c_sub)
                if path == pick:
                    chosen, crec = s, rec
        else:
            doc = {"sim": "gaussian", "d": d, "config": {"hbar": hbar, "cutoff": cutoff}, "ins": case["ins"], "shots": 1}
            c_sub = dict(case, at_hbar=hbar)
            ctx.c["programs_run"] += 1
            try:
                s = P.execute(pq, doc).state
                ok = True
            except Exception as e:  # noqa: BLE001 - the call under test; judged below (all hbar alike or not)
                prog_exc[hbar] = (type(e).__name__, str(e)[:160])
                ok = False
            if ok:
                ctx.c["states_built"] += 1
                for idoc in case["ins"]:
                    ctx.c["gates_seen"][idoc["t"]] = ctx.c["gates_seen"].get(idoc["t"], 0) + 1
                crec = check_reps(ctx, s, hbar, c_sub, "state after program at hbar=%s d=%d" % (hbar, d))
                chosen = s if crec is not None else None
        if chosen is None:
            continue
        c_sub = dict(case, at_hbar=hbar)
        check_reduced(ctx, chosen, crec, hbar, c_sub, full_reps_budget=(3 if hi % 2 == 0 else 1))
        check_rotated(ctx, chosen, crec, hbar, c_sub, aux["phis"], aux["subset"])
        check_string_moments(ctx, chosen, hbar, c_sub, aux)
        other = new_state(pq, d, hbar, cutoff)

        def set_other():
            other.xpxp_mean_vector = (np.sqrt(hbar) * mu2)[perm]
            other.xpxp_covariance_matrix = (hbar * V2)[np.ix_(perm, perm)]
        ok_o, _ = _try(ctx, c_sub, "setter-raises-on-physical-state", "xpxp setters (fidelity partner) at hbar=%s d=%d" % (hbar, d), set_other)
        if not ok_o:
            continue
        per_h[hbar] = observe(ctx, pq, chosen, other, hbar, c_sub, aux)
        first_rec.setdefault("rec", crec)
        if hbar == REF_HBAR:
            first_rec["ref"] = crec
        wig[hbar] = side_observations(ctx, pq, chosen, hbar, d, crec, aux)
        check_wigner_marginals(ctx, chosen, hbar, d, crec, aux, c_sub)
        if d <= 2:
            purify_res[hbar] = check_purify(ctx, chosen, hbar, d, crec)
    judge_purify_across_hbar(ctx, purify_res, case, d)
    if prog_exc:
        if len(prog_exc) == len(hbars) and len({v[0] for v in prog_exc.values()}) == 1:
            ctx.obs.add("a generated program raises %s at every hbar alike (not judged by C14)" % list(prog_exc.values())[0][0])
        else:
            ctx.viol("program-raises-at-some-hbar", "the same program (d=%d) raises at hbar in %s but runs at the other values: %s" % (
                d, sorted(prog_exc), list(prog_exc.values())[0]), case)
    if len(per_h) >= 2:
        r = first_rec.get("ref") or first_rec["rec"]
        fid_rel = {"pair": fidelity_error_bound(r["V"], V2, r["mu"], mu2), "self": fidelity_error_bound(r["V"], r["V"], r["mu"], r["mu"])}
        ctx.c["max_fidelity_tolerance_used"] = max(ctx.c["max_fidelity_tolerance_used"], X_TOL + 2 * max(fid_rel.values()))
        compare_across_hbar(ctx, case, d, per_h, aux, (r["V"], r["mu"], V2, mu2), fid_rel)
        ref_obs = per_h.get(REF_HBAR) or per_h[sorted(per_h)[0]]
        value_references(ctx, ref_obs, r["V"], r["mu"], d, aux, case.get("flavour") or "program")
        wv = [v["wigner"] for v in wig.values() if v["wigner"] is not None]
        if len(wv) >= 2 and max(_dev(v, wv[0]) for v in wv) > 1e-9 * max(1.0, _mag(wv[0])):
            ctx.obs.add("wigner_function(mode 0) * hbar at scaled points is not hbar-independent (not judged by C14)")
        ip = {v["is_pure"] for v in wig.values() if v["is_pure"] is not None}
        if len(ip) > 1:
            ctx.c["is_pure_differs_across_hbar"] += 1
            ctx.obs.add("is_pure() of one physical state differs across hbar (consequence of get_purity; not judged separately)")
        if case["kind"] == "setter":
            ctx.classes.add("setter|d%d|%s" % (d, case["flavour"]))
        else:
            doc = {"sim": "gaussian", "d": d, "config": {}, "ins": case["ins"]}
            ctx.classes.add("program|" + P.class_key(doc))
        if len(ctx.samples) < 4:
            def pick(name):
                return {("%g" % h): (np.round(np.real(_arr(per_h[h][name])).ravel()[:3], 9).tolist()
                                     if not isinstance(per_h[h].get(name), tuple) else "raised") for h in sorted(per_h)}
            ctx.samples.append({"kind": case["kind"], "d": d, "flavour": case.get("flavour"),
                                "instructions": [i["t"] + str(i.get("m") or "") for i in case.get("ins", [])],
                                "get_purity": pick("get_purity"), "fidelity": pick("fidelity"),
                                "mean_photon_number": pick("mean_photon_number"),
                                "xxpp_mean_vector/sqrt(hbar)": pick("xxpp_mean_vector/sqrt(hbar)")})


# ---------------------------------------------------------------------------- protocol
def plan(tier, seed):
    if tier == "quick":
        n, per = 8, 110
    else:
        n, per = 12, 750
    # The first shard runs alone (its weight fills every job slot): it compiles the numba kernels behind
    # fock_probabilities / density_matrix once into the per-source-digest cache instead of 8 shards doing it at once.
    specs = [{"name": "warm-cache", "shard": 100, "count": 10, "weight": 1024, "env": dict(SINGLE_THREAD)}]
    specs += [{"name": "states-%d" % i, "shard": i, "count": per, "env": dict(SINGLE_THREAD)} for i in range(n)]
    return specs


def make_case(rng, tier, seed, shard, index):
    d = int(rng.choice([1, 2, 2, 3, 3, 4]))
    if index % 2 == 0:
        mu0, V0, flavour = gen_state(rng, d)
        case = {"kind": "setter", "d": d, "mu0": M.enc(mu0), "V0": M.enc(V0), "flavour": flavour}
    else:
        case = {"kind": "program", "d": d, "ins": gen_program(rng, d)}
    case["aux"] = gen_aux(rng, d, tier)
    case["index"] = index
    case["origin"] = [int(seed), 14, int(shard), int(index)]
    return case


def run_shard(spec):
    from vf import boot

    t_imp = time.time()
    pq = boot.import_piquasso()
    t_imp = time.time() - t_imp
    rng = np.random.default_rng([int(spec["seed"]), 14, int(spec["shard"])])
    ctx = Ctx()
    t0 = time.time()
    slowest = 0.0
    budget = 100 if spec["tier"] == "quick" else 520
    if spec.get("name") == "warm-cache":
        budget = 650   # a cold numba cache costs minutes of compilation on a loaded machine; cutting this shard short
        #               would leave the remaining kernels to be compiled by every other shard at once
    for i in range(int(spec["count"])):
        if time.time() - t0 > budget:
            ctx.obs.add("a shard stopped by its time budget after %d of %d cases" % (i, int(spec["count"])))
            break
        case = make_case(rng, spec["tier"], spec["seed"], spec["shard"], i)
        t1 = time.time()
        run_case(ctx, pq, case)
        slowest = max(slowest, time.time() - t1)
    counters = dict(ctx.c)
    counters["max_import_seconds"] = round(t_imp, 1)
    counters["max_case_seconds"] = round(slowest, 2)
    counters["case_seconds_total"] = round(time.time() - t0, 1)
    counters["violations_by_mechanism"] = dict(ctx.per_mech)
    counters["value_reference_mismatches_by_observable"] = {k: v[0] for k, v in ctx.valobs.items()}
    for k, (n, ex) in sorted(ctx.valobs.items()):
        ctx.obs.add("value, not judged by C14 (identical at every hbar): %s differs from its reference%s" % (
            k, (" - e.g. " + ex) if int(spec["shard"]) == 0 else " (counts: monitor_counters.value_reference_mismatches_by_observable)"))
    return {"evaluations": ctx.evals, "classes": sorted(ctx.classes), "violations": ctx.violations,
            "counters": counters, "samples": ctx.samples, "observations": sorted(ctx.obs)[:30]}


def replay(case):
    from vf import boot

    pq = boot.import_piquasso()
    ctx = Ctx()
    base = {k: v for k, v in case.items() if k not in ("at_hbar", "path", "modes", "phi", "string")}
    run_case(ctx, pq, base)
    return ctx.violations
